/-
  NsSrcTr.lean (C15) — "the transcription of `NameServer`'s methods computes what the hand-written `nsStep` computes", proved about
  THIS check's own regenerated transcription `Pyro.Gen.C15Src` (harness/props/c15.py:extract, translator harness/props/c14_tr.py).

  The proof script is C14's (PyroProps/C14Src.lean, up to `C14_ns_translated`), re-checked here against the term that C15's
  extractor has just produced, so that the C15 check does not depend on when C14's generated copy was last refreshed and accepts
  the same equivalent source forms (`list.remove` / filter, parenthesisation) that C14's proof accepts.  The theorem names are kept
  (namespace `Pyro.C15.Tr`).
-/
import PyroModel.NameServer
import PyroModel.NsSrc
import PyroModel.Gen.C15Src
import PyroProofs.NSRefine
import PyroProofs.NSMem

namespace Pyro.C15.Tr

open Pyro.NS Pyro.NS.Src Pyro.Gen.C15Src

variable {σ : Type}

/-! ### methods without containers: unconditional -/

/-- `NameServer.count` as transcribed = the model, for every back-end and state. -/
theorem C14_count_translated (S : Store σ) (env : Env) (s : σ) :
    countSrc S env s = nsStep S env .count s := rfl

/-- `NameServer.lookup` as transcribed = the model: KeyError → NamingError, a rejected stored URI → PyroError
    (not caught by `except KeyError`), with / without metadata. -/
theorem C14_lookup_translated (S : Store σ) (env : Env) (n : Str) (wm : Bool) (s : σ) :
    lookupSrc S env n wm s = nsStep S env (.lookup n wm) s := by
  simp only [lookupSrc, nsStep, tryExcept, withLock, getItemK, call, uriK]
  rcases h : S.getItem n s with ⟨o, s1⟩
  rcases o with _ | _ | e
  · simp
  · simp
  · by_cases hu : env.uriOk e.uri <;> cases wm <;> simp [hu]

/-- `NameServer.register` as transcribed = the model: validation order URI → metadata type → `safe` check,
    one `in` test only when `safe`, stored tags = the distinct members or nothing. -/
theorem C14_register_translated (S : Store σ) (env : Env) (n u : Str) (safe : Bool) (md : MetaArg) (s : σ) :
    registerSrc S env n u safe md s = nsStep S env (.register n u safe md) s := by
  have ht : optTags (if md.truthy then some (dedup md.tags) else Option.none) = storedTags md := by
    cases h : md.truthy <;> simp [storedTags, optTags, h]
  simp only [registerSrc, nsStep, withLock, uriK, ht]
  by_cases hu : env.uriOk u <;> by_cases hm : md.isStr <;> cases safe <;> simp [hu, hm, call]

/-- `NameServer.set_metadata` as transcribed = the model. -/
theorem C14_setMeta_translated (S : Store σ) (env : Env) (n : Str) (md : MetaArg) (s : σ) :
    setMetaSrc S env n md s = nsStep S env (.setMeta n md) s := by
  have ht : optTags (if md.truthy then some (dedup md.tags) else Option.none) = storedTags md := by
    cases h : md.truthy <;> simp [storedTags, optTags, h]
  simp only [setMetaSrc, nsStep, withLock, tryExcept, getItemK, ht]
  by_cases hm : md.isStr <;> simp [hm, call]
  rcases S.getItem n s with ⟨o, s1⟩
  rcases o with _ | _ | e
  · simp
  · simp
  · simp only []
    rcases S.setItem n e.uri (storedTags md) s1 with ⟨o2, s2⟩
    rcases o2 with _ | _ <;> simp

/-! ### containers: Python dict insertion and `list.remove` against the model's cons / filter -/

/-- inserting under a new key appends -/
theorem dictSet_new {d : List Entry} {e : Entry} (h : ∀ a ∈ d, a.name ≠ e.name) : dictSet d e = d ++ [e] := by
  unfold dictSet
  have : d.any (·.name == e.name) = false := by
    rw [Bool.eq_false_iff]; intro hc
    obtain ⟨a, ha, hb⟩ := List.any_eq_true.mp hc
    exact h a ha (by simpa using hb)
  rw [this]; rfl

theorem names_nodup {A : List Entry} (h : NodupKeys A) : (A.map (·.name)).Nodup := by
  unfold NodupKeys at h
  rw [List.Nodup, List.pairwise_map]
  exact h

theorem nodup_of_perm_names {l : List Str} {A : List Entry} (p : l.Perm (A.map (·.name))) (h : SpecInv A) : l.Nodup :=
  (List.Perm.nodup_iff p).mpr (names_nodup h.1)

/-- a listing in front of a result -/
def pre (acc : List Entry) : Res × σ → Res × σ
  | (.listing l, s) => (.listing (acc ++ l), s)
  | r => r

theorem pre_nil (r : Res × σ) : pre [] r = r := by
  rcases r with ⟨r, s⟩
  cases r <;> simp [pre]

section loops
variable {abs : σ → List Entry} {inv : σ → Prop} {F : Prop}

/-- the body of the two `for name in self.storage:` loops of `list`, as the translator emits it -/
abbrev listBody (S : Store σ) (pred : Str → Bool) (wm : Bool) : Str → List Entry → σ → Except Res (List Entry) × σ :=
  fun x acc s =>
    if pred x then
      (if wm then getItemL S x (fun e s' => (Except.ok (dictSet acc ⟨x, e.uri, e.tags⟩), s')) s
       else getItemL S x (fun e s' => (Except.ok (dictSet acc ⟨x, e.uri, []⟩), s')) s)
    else (Except.ok acc, s)

/-- The source's loop (dict built by insertion, one `self.storage[name]` per selected name) is the model's
    `collect`, on every back-end meeting the contract: names come out distinct and `storage[n]` is filed under `n`. -/
theorem list_loop {S : Store σ} (ok : StoreOK abs inv F S) (pred : Str → Bool) (wm : Bool) :
    ∀ (names : List Str) (acc : List Entry) (s : σ), inv s → SpecInv (abs s) → names.Nodup →
      (∀ n ∈ names, ∀ a ∈ acc, a.name ≠ n) →
      afterLoop (forEach (listBody S pred wm) names acc s) (fun r s' => (Res.listing r, s')) =
        pre acc (collect S pred wm names s)
  | [], acc, s, _, _, _, _ => by simp [forEach, afterLoop, collect, pre]
  | n :: ns, acc, s, hi, hs, hnd, hdis => by
    have hnd' := (List.nodup_cons.mp hnd)
    have hdis' : ∀ m ∈ ns, ∀ a ∈ acc, a.name ≠ m := fun m hm a ha => hdis m (List.mem_cons_of_mem _ hm) a ha
    by_cases hp : pred n
    · obtain ⟨h1, h2, _, h4⟩ := ok.getItem n s hi hs
      rcases hg : S.getItem n s with ⟨o, s1⟩
      rw [hg] at h1 h2 h4
      have hb : listBody S pred wm n acc s =
          getItemL S n (fun e s' => (Except.ok (dictSet acc ⟨n, e.uri, (e.strip wm).tags⟩), s')) s := by
        simp only [listBody, hp, if_true]
        cases wm <;> simp [Entry.strip]
      rcases o with _ | _ | e
      · simp [forEach, hb, getItemL, hg, afterLoop, collect, hp, pre]
      · simp [forEach, hb, getItemL, hg, afterLoop, collect, hp, pre]
      · have hfind := h4 _ rfl
        have hname : e.name = n := by
          have := List.find?_some hfind.symm
          simpa using this
        have he : (⟨n, e.uri, (e.strip wm).tags⟩ : Entry) = e.strip wm := by
          cases wm <;> simp [Entry.strip, ← hname]
        have hs1 : SpecInv (abs s1) := by rw [show abs s1 = abs s from h1]; exact hs
        have hset : dictSet acc (e.strip wm) = acc ++ [e.strip wm] := by
          apply dictSet_new
          intro a ha
          have : (e.strip wm).name = n := by cases wm <;> simp [Entry.strip, hname]
          rw [this]
          exact hdis n (List.mem_cons_self) a ha
        have ih := list_loop ok pred wm ns (acc ++ [e.strip wm]) s1 h2 hs1 hnd'.2 (by
          intro m hm a ha
          rcases List.mem_append.mp ha with ha | ha
          · exact hdis' m hm a ha
          · have : a = e.strip wm := by simpa using ha
            subst this
            have : (e.strip wm).name = n := by cases wm <;> simp [Entry.strip, hname]
            rw [this]
            intro hc; subst hc; exact hnd'.1 hm)
        simp only [forEach, hb, getItemL, hg, he, hset, collect, hp, if_true]
        rw [ih]
        rcases collect S pred wm ns s1 with ⟨r, s2⟩
        cases r <;> simp [pre]
    · have hb : listBody S pred wm n acc s = (Except.ok acc, s) := by simp [listBody, hp]
      have ih := list_loop ok pred wm ns acc s hi hs hnd'.2 hdis'
      simp only [forEach, hb, collect, hp]
      simpa using ih

/-- `NameServer.list` as transcribed = the model, on every back-end meeting the storage contract. -/
theorem C14_list_translated {S : Store σ} (ok : StoreOK abs inv F S) (env : Env) (pfx regex : Option Str) (wm : Bool)
    (s : σ) (hi : inv s) (hs : SpecInv (abs s)) :
    listSrc S env pfx regex wm s = nsList S env pfx regex wm s := by
  have loop : ∀ (pred : Str → Bool) (s1 : σ), inv s1 → abs s1 = abs s →
      call S.iter (fun l s' => afterLoop (forEach (listBody S pred wm) l ([] : List Entry) s') (fun r s'' => (Res.listing r, s''))) s1 =
      call S.iter (fun names s2 => collect S pred wm names s2) s1 := by
    intro pred s1 hi1 ha1
    have hs1 : SpecInv (abs s1) := by rw [ha1]; exact hs
    obtain ⟨h1, h2, _, h4⟩ := ok.iter s1 hi1 hs1
    unfold call
    rcases hg : S.iter s1 with ⟨o, s2⟩
    rw [hg] at h1 h2 h4
    cases o with
    | none => rfl
    | some l =>
      have hs2 : SpecInv (abs s2) := by rw [show abs s2 = abs s1 from h1]; exact hs1
      have := list_loop ok pred wm l [] s2 h2 hs2 (nodup_of_perm_names (h4 l rfl) hs1) (by intro _ _ a ha; cases ha)
      simp only [pre_nil] at this
      exact this
  unfold listSrc nsList
  simp only [withLock, reCompileK]
  rcases hp : truthy? pfx with _ | p <;> rcases hr : truthy? regex with _ | r <;> simp only []
  · -- regex
    obtain ⟨h1, h2, _, _⟩ := ok.optRegex r wm s hi hs
    unfold call
    rcases hg : S.optRegex r wm s with ⟨o, s1⟩
    rw [hg] at h1 h2
    rcases o with _ | _ | l
    · rfl
    · simp only []
      by_cases hre : env.reOk r
      · simp only [hre, if_true]
        exact loop (env.reMatch r) s1 h2 h1
      · simp [hre]
    · rfl
  · -- prefix
    obtain ⟨h1, h2, _, _⟩ := ok.optPrefix p wm s hi hs
    unfold call
    rcases hg : S.optPrefix p wm s with ⟨o, s1⟩
    rw [hg] at h1 h2
    rcases o with _ | _ | l
    · rfl
    · exact loop (fun n => p.isPrefixOf n) s1 h2 h1
    · rfl

/-- the body of the loops of `yplookup` over `everything(return_metadata=True).items()` -/
abbrev ypBody (q : Entry → Bool) (wm : Bool) : Entry → List Entry → σ → Except Res (List Entry) × σ :=
  fun x acc s =>
    if q x then
      (if wm then (Except.ok (dictSet acc ⟨x.name, x.uri, x.tags⟩), s) else (Except.ok (dictSet acc ⟨x.name, x.uri, []⟩), s))
    else (Except.ok acc, s)

theorem yp_loop (q : Entry → Bool) (wm : Bool) :
    ∀ (l acc : List Entry) (s : σ), (l.map (·.name)).Nodup → (∀ e ∈ l, ∀ a ∈ acc, a.name ≠ e.name) →
      forEach (ypBody q wm) l acc s = (Except.ok (acc ++ (l.filter q).map (Entry.strip wm)), s)
  | [], acc, s, _, _ => by simp [forEach]
  | e :: l, acc, s, hnd, hdis => by
    rw [List.map_cons, List.nodup_cons] at hnd
    have hdis' : ∀ x ∈ l, ∀ a ∈ acc, a.name ≠ x.name := fun x hx a ha => hdis x (List.mem_cons_of_mem _ hx) a ha
    by_cases hq : q e
    · have hb : ypBody q wm e acc s = (Except.ok (acc ++ [e.strip wm]), (s : σ)) := by
        have h1 : dictSet acc (e.strip wm) = acc ++ [e.strip wm] := by
          apply dictSet_new
          intro a ha
          have : (e.strip wm).name = e.name := by cases wm <;> simp [Entry.strip]
          rw [this]; exact hdis e List.mem_cons_self a ha
        rw [← h1]
        cases wm <;> simp [ypBody, hq, Entry.strip]
      have ih := yp_loop q wm l (acc ++ [e.strip wm]) s hnd.2 (by
        intro x hx a ha
        rcases List.mem_append.mp ha with ha | ha
        · exact hdis' x hx a ha
        · have : a = e.strip wm := by simpa using ha
          subst this
          have : (e.strip wm).name = e.name := by cases wm <;> simp [Entry.strip]
          rw [this]
          intro hc
          exact hnd.1 (List.mem_map.mpr ⟨x, hx, hc.symm⟩))
      simp only [forEach, hb]
      rw [ih]
      simp [List.filter_cons, hq]
    · have hb : ypBody q wm e acc s = (Except.ok acc, (s : σ)) := by simp [ypBody, hq]
      simp only [forEach, hb]
      rw [yp_loop q wm l acc s hnd.2 hdis']
      simp [List.filter_cons, hq]

theorem strip_names_nodup {l A : List Entry} {wm : Bool} (p : l.Perm (A.map (Entry.strip wm))) (h : SpecInv A) :
    (l.map (·.name)).Nodup := by
  have h1 : (l.map (·.name)).Perm ((A.map (Entry.strip wm)).map (·.name)) := p.map _
  have h2 : (A.map (Entry.strip wm)).map (·.name) = A.map (·.name) := by
    rw [List.map_map]; apply List.map_congr_left; intro e _; cases wm <;> simp [Entry.strip]
  rw [h2] at h1
  exact nodup_of_perm_names h1 h

/-- `NameServer.yplookup` as transcribed = the model, on every back-end meeting the storage contract. -/
theorem C14_yplookup_translated {S : Store σ} (ok : StoreOK abs inv F S) (env : Env) (all any : MetaArg) (wm : Bool)
    (s : σ) (hi : inv s) (hs : SpecInv (abs s)) :
    yplookupSrc S env all any wm s = nsStep S env (.yplookup all any wm) s := by
  have branch : ∀ (isAll : Bool) (arg : MetaArg), arg.truthy = true → arg.isStr = false →
      call (S.optMeta isAll arg.tags wm) (fun v s5 =>
        match v with
        | some l => (Res.listing l, s5)
        | Option.none => call (S.everything true) (fun l s10 =>
            afterLoop (forEach (ypBody (if isAll then hasAll arg.tags else hasAny arg.tags) wm) l ([] : List Entry) s10)
              (fun r s11 => (Res.listing r, s11))) s5) s = nsYp S isAll arg wm s := by
    intro isAll arg ht hstr
    have hne : arg.tags ≠ [] := by
      cases arg with
      | none => simp [MetaArg.truthy] at ht
      | str b => simp [MetaArg.isStr] at hstr
      | list l => cases l <;> simp_all [MetaArg.truthy, MetaArg.tags]
    simp only [nsYp, hstr, Bool.false_eq_true, if_false]
    obtain ⟨h1, h2, _, _⟩ := ok.optMeta isAll arg.tags wm s hi hs hne
    unfold call
    rcases hg : S.optMeta isAll arg.tags wm s with ⟨o, s1⟩
    rw [hg] at h1 h2
    rcases o with _ | _ | l
    · rfl
    · simp only []
      have hs1 : SpecInv (abs s1) := by rw [show abs s1 = abs s from h1]; exact hs
      obtain ⟨_, _, _, e4⟩ := ok.everything true s1 h2 hs1
      rcases hg2 : S.everything true s1 with ⟨o2, s2⟩
      rw [hg2] at e4
      cases o2 with
      | none => rfl
      | some l =>
        simp only []
        rw [yp_loop _ wm l [] s2 (strip_names_nodup (e4 l rfl) hs1) (by intro _ _ a ha; cases ha)]
        simp [afterLoop]
    · rfl
  simp only [yplookupSrc, nsStep, withLock]
  by_cases ha : all.truthy <;> by_cases hb : any.truthy <;> simp only [ha, hb, if_true, if_false, Bool.and_true, Bool.and_false,
    Bool.false_and, Bool.true_and, Bool.false_eq_true]
  · by_cases hstr : all.isStr
    · simp [hstr, nsYp]
    · simp only [hstr, if_false, Bool.false_eq_true]
      exact branch true all ha (by simpa using hstr)
  · by_cases hstr : any.isStr
    · simp [hstr, nsYp]
    · simp only [hstr, if_false, Bool.false_eq_true]
      exact branch false any hb (by simpa using hstr)

theorem erase_guard (l : List Str) (a : Str) : (if l.contains a then l.erase a else l) = l.erase a := by
  split
  · rfl
  · rename_i h
    have : a ∉ l := by simpa using h
    exact (List.erase_of_not_mem this).symm

theorem spec_list_is_select (env : Env) (p r : Option Str) (wm : Bool) (A : Spec) {b : List Entry}
    (h : (specStep env (.list p r wm) A).1 = .listing b) : ∃ q, b = Spec.select A q wm := by
  simp only [specStep] at h
  split at h
  · cases h
  · cases h; exact ⟨_, rfl⟩
  · split at h
    · cases h; exact ⟨_, rfl⟩
    · cases h
  · cases h; exact ⟨_, rfl⟩

/-- `NameServer.remove` as transcribed = the model, on every back-end meeting the storage contract
    (`items.remove(NS)` removes the first occurrence, the model filters: the same on a dict's key list). -/
theorem C14_remove_translated {S : Store σ} (ok : StoreOK abs inv F S) (env : Env) (name pfx regex : Option Str)
    (s : σ) (hi : inv s) (hs : SpecInv (abs s)) :
    removeSrc S env name pfx regex s = nsStep S env (.remove name pfx regex) s := by
  have listed : ∀ (f : List Str → List Str), (∀ l : List Str, l.Nodup → f l = l.filter (· != nsName)) →
      ∀ (p r : Option Str) (s1 : σ), inv s1 → abs s1 = abs s →
      callDict (listSrc S env p r false) (fun l s6 =>
        call (S.removeItems (f (l.map (·.name)))) (fun _ s7 => (Res.num (f (l.map (·.name))).length, s7)) s6) s1
      = nsRemoveListed S env p r s1 := by
    intro f hf p r s1 hi1 ha1
    have hs1 : SpecInv (abs s1) := by rw [ha1]; exact hs
    rw [callDict, C14_list_translated ok env p r false s1 hi1 hs1]
    unfold nsRemoveListed
    have good := nsList_good ok env p r false hs1 s1 rfl hi1
    rcases hl : nsList S env p r false s1 with ⟨res, s2⟩
    rw [hl] at good
    cases res with
    | listing l =>
      have hnd : (l.map (·.name)).Nodup := by
        rcases good.2.2 with ⟨_, h⟩ | h
        · cases h
        · obtain ⟨a, ha, hperm⟩ := Res.Equiv.symm h |>.listing_right
          obtain ⟨q, hq⟩ := spec_list_is_select env p r false (abs s1) ha
          subst hq
          exact strip_names_nodup (wm := false) (A := (abs s1).filter q) hperm.symm (hs1.filter q)
      simp only [hf _ hnd]
    | _ => rfl
  have rest : ∀ (f : List Str → List Str), (∀ l : List Str, l.Nodup → f l = l.filter (· != nsName)) →
      ∀ (s1 : σ), inv s1 → abs s1 = abs s →
      (match truthy? pfx with
        | some v4 => callDict (listSrc S env (some v4) Option.none false) (fun l s6 =>
            call (S.removeItems (f (l.map (·.name)))) (fun _ s7 => (Res.num (f (l.map (·.name))).length, s7)) s6) s1
        | Option.none =>
          match truthy? regex with
          | some v8 => callDict (listSrc S env Option.none (some v8) false) (fun l s6 =>
              call (S.removeItems (f (l.map (·.name)))) (fun _ s7 => (Res.num (f (l.map (·.name))).length, s7)) s6) s1
          | Option.none => (Res.num 0, s1)) =
      (match truthy? pfx with
        | some p => nsRemoveListed S env (some p) Option.none s1
        | Option.none =>
          match truthy? regex with
          | some r => nsRemoveListed S env Option.none (some r) s1
          | Option.none => (.num 0, s1)) := by
    intro f hf s1 hi1 ha1
    cases truthy? pfx with
    | some p => exact listed f hf _ _ s1 hi1 ha1
    | none =>
      cases truthy? regex with
      | some r => exact listed f hf _ _ s1 hi1 ha1
      | none => rfl
  -- the two ways the source may drop the name server's own name from the key list
  have hErase : ∀ l : List Str, l.Nodup →
      (fun l : List Str => if l.contains nsName then l.erase nsName else l) l = l.filter (· != nsName) := by
    intro l hnd
    simp only [erase_guard]
    exact List.Nodup.erase_eq_filter hnd _
  have hFilter : ∀ l : List Str, l.Nodup →
      (fun l : List Str => l.filter (fun x => x != nsName)) l = l.filter (· != nsName) := fun _ _ => rfl
  simp only [removeSrc, nsStep, withLock, delItemK]
  cases truthy? name with
  | none => first | exact rest _ hErase s hi rfl | exact rest _ hFilter s hi rfl
  | some n =>
    simp only []
    obtain ⟨h1, h2, _, _⟩ := ok.contains n s hi hs
    unfold call
    rcases hg : S.contains n s with ⟨o, s1⟩
    rw [hg] at h1 h2
    cases o with
    | none => rfl
    | some b =>
      simp only []
      have e1 : (n != ([80, 121, 114, 111, 46, 78, 97, 109, 101, 83, 101, 114, 118, 101, 114] : Str)) = (n != nsName) := rfl
      simp only [e1]
      cases b <;> cases hn : (n != nsName) <;>
        simp only [Bool.true_and, Bool.false_and, Bool.and_true, Bool.and_false, if_true, if_false, Bool.false_eq_true] <;>
        first | exact rest _ hErase s1 h2 h1 | exact rest _ hFilter s1 h2 h1 | rfl

/-- **C14_ns_translated.**  Every `NameServer` method as transcribed from the source computes exactly what the
    hand-written model `nsStep` computes — same result, same storage calls in the same order, same final storage
    state — on every back-end meeting the storage contract, for every environment, argument and state. -/
theorem C14_ns_translated {S : Store σ} (ok : StoreOK abs inv F S) (env : Env) (op : Op) (s : σ)
    (hi : inv s) (hs : SpecInv (abs s)) : nsStepSrc S env op s = nsStep S env op s := by
  cases op with
  | count => exact C14_count_translated S env s
  | lookup n wm => exact C14_lookup_translated S env n wm s
  | register n u safe md => exact C14_register_translated S env n u safe md s
  | setMeta n md => exact C14_setMeta_translated S env n md s
  | remove name pfx regex => exact C14_remove_translated ok env name pfx regex s hi hs
  | list pfx regex wm => exact C14_list_translated ok env pfx regex wm s hi hs
  | yplookup all any wm => exact C14_yplookup_translated ok env all any wm s hi hs

end loops

end Pyro.C15.Tr
