/-
  The two paths of the value-mapping model as a whole: argument path = result path, and the result
  path's fixed points / range (from PyroProofs/ValuesNF.lean).
-/
import PyroProofs.ValuesNF

namespace Pyro.Values

open Pyro

set_option linter.unusedSimpArgs false

theorem key_ne1 : (Val.str sK = classKey) = False := by decide
theorem key_ne2 : (vStr sMethod = vStr sObject) = False := by decide
theorem key_ne3 : (vStr sParams = vStr sObject) = False := by decide
theorem key_ne4 : (vStr sKwargs = vStr sObject) = False := by decide
theorem key_ne5 : (vStr sParams = vStr sMethod) = False := by decide
theorem key_ne6 : (vStr sKwargs = vStr sMethod) = False := by decide
theorem key_ne7 : (vStr sKwargs = vStr sParams) = False := by decide
theorem key_ne8 : (vStr sObject = vStr sParams) = False := by decide
theorem key_ne9 : (vStr sMethod = vStr sParams) = False := by decide
theorem key_ne10 : (vStr sObject = vStr sKwargs) = False := by decide
theorem key_ne11 : (vStr sMethod = vStr sKwargs) = False := by decide
theorem key_ne12 : (vStr sParams = vStr sKwargs) = False := by decide
theorem key_ne13 : (vStr sK = classKey) = False := by decide

theorem skey_ne1 : (sObject = sMethod) = False := by decide
theorem skey_ne2 : (sObject = sParams) = False := by decide
theorem skey_ne3 : (sObject = sKwargs) = False := by decide
theorem skey_ne4 : (sMethod = sObject) = False := by decide
theorem skey_ne5 : (sMethod = sParams) = False := by decide
theorem skey_ne6 : (sMethod = sKwargs) = False := by decide
theorem skey_ne7 : (sParams = sObject) = False := by decide
theorem skey_ne8 : (sParams = sMethod) = False := by decide
theorem skey_ne9 : (sParams = sKwargs) = False := by decide
theorem skey_ne10 : (sKwargs = sObject) = False := by decide
theorem skey_ne11 : (sKwargs = sMethod) = False := by decide
theorem skey_ne12 : (sKwargs = sParams) = False := by decide

macro "symsimp" "[" hs:Lean.Parser.Tactic.simpLemma,* "]" : tactic => `(tactic|
  simp [vStr, argPath, kwPath, callRT, resRT, enc, encList, encPairs, jsonKey, serpentHashType, marshalConvList, marshalConvVals, marshalTopList, marshalTopVals,
    dec, decList, decPairs, unhashable, isStrOrBytes,
    Pairs.pushFront, Pairs.lookup, Pairs.erase, recreate, recList, recVals, Pairs.hasKey, firstOf,
    key_ne1, key_ne2, key_ne3, key_ne4, key_ne5, key_ne6, key_ne7, key_ne8, key_ne9, key_ne10, key_ne11, key_ne12, key_ne13, skey_ne1, skey_ne2, skey_ne3, skey_ne4, skey_ne5, skey_ne6, skey_ne7, skey_ne8, skey_ne9, skey_ne10, skey_ne11, skey_ne12, $hs,*])

theorem sym_serpent (c : Cfg) (v : Val) : argPath c .serpent v = resRT c .serpent v ∧ kwPath c .serpent v = resRT c .serpent v := by
  cases h1 : enc .serpent true v with
  | error e => constructor <;> symsimp [h1]
  | ok a =>
    cases h2 : dec .serpent false false a with
    | error e => constructor <;> symsimp [h1, h2]
    | ok d =>
      cases h3 : recreate .serpent d with
      | error e => constructor <;> symsimp [h1, h2, h3]
      | ok w => constructor <;> symsimp [h1, h2, h3]

theorem sym_json (c : Cfg) (v : Val) : argPath c .json v = resRT c .json v ∧ kwPath c .json v = resRT c .json v := by
  cases h1 : enc .json true v with
  | error e => constructor <;> symsimp [h1]
  | ok a =>
    cases h2 : dec .json false false a with
    | error e => constructor <;> symsimp [h1, h2]
    | ok d =>
      cases h3 : recreate .json d with
      | error e => constructor <;> symsimp [h1, h2, h3]
      | ok w => constructor <;> symsimp [h1, h2, h3]

theorem sym_marshal (c : Cfg) (hc : c.good = true) (v : Val) :
    argPath c .marshal v = resRT c .marshal v ∧ kwPath c .marshal v = resRT c .marshal v := by
  have hl : c.callListItems = c.resListItems := by
    obtain ⟨x1, x2, o1, o2, r1, r2, k, l1, l2⟩ := c
    simp only [Cfg.good, Bool.and_eq_true, beq_iff_eq] at hc
    exact hc.1.2.symm
  cases h0 : marshalTop c.resListItems v with
  | error e => constructor <;> symsimp [hl, h0]
  | ok m =>
  cases h1 : enc .marshal true m with
  | error e => constructor <;> symsimp [hl, h0, h1]
  | ok a =>
    cases h2 : dec .marshal false false a with
    | error e => constructor <;> symsimp [hl, h0, h1, h2]
    | ok d =>
      cases h3 : recreate .marshal d with
      | error e => constructor <;> symsimp [hl, h0, h1, h2, h3]
      | ok w => constructor <;> symsimp [hl, h0, h1, h2, h3]

theorem sym_msgpack (c : Cfg) (hc : c.good = true) (v : Val) :
    argPath c .msgpack v = resRT c .msgpack v ∧ kwPath c .msgpack v = resRT c .msgpack v := by
  obtain ⟨x1, x2, o1, o2, r1, r2, k, l1, l2⟩ := c
  simp only [Cfg.good, Bool.and_eq_true, Bool.or_eq_true, Bool.not_eq_true'] at hc
  obtain ⟨⟨⟨⟨hx1, hx2⟩, _⟩, _⟩, hh⟩ := hc
  subst hx1; subst hx2
  cases h1 : enc .msgpack true v with
  | error e => constructor <;> symsimp [h1]
  | ok a =>
    rcases hh with ⟨⟨⟨ho1, ho2⟩, hr1⟩, hr2⟩ | ⟨⟨⟨ho1, ho2⟩, hr1⟩, hr2⟩
    · subst ho1; subst ho2; subst hr1; subst hr2
      cases h2 : dec .msgpack true true a with
      | error e => constructor <;> symsimp [h1, h2]
      | ok d => constructor <;> symsimp [h1, h2]
    · subst ho1; subst ho2; subst hr1; subst hr2
      cases h2 : dec .msgpack true false a with
      | error e => constructor <;> symsimp [h1, h2]
      | ok d =>
        cases h3 : recreate .msgpack d with
        | error e => constructor <;> symsimp [h1, h2, h3]
        | ok w => constructor <;> symsimp [h1, h2, h3]

/-! ### the result path as a whole -/

theorem marshalConv_nf (w : Val) (h : nf .marshal w = true) : marshalConv w = .ok w := by
  cases w <;> first | rfl | (simp [nf] at h)

theorem allKeys_set (p : Val → Bool) (k v : Val) (hk : p k = true) : ∀ (d : Pairs), d.allKeys p = true →
    (d.set k v).allKeys p = true
  | .nil, _ => by simp [Pairs.set, Pairs.allKeys, hk]
  | .cons k' v' r, h => by
    simp only [Pairs.allKeys, Bool.and_eq_true] at h
    simp only [Pairs.set]
    by_cases e : k' = k
    · rw [if_pos e]; simp [Pairs.allKeys, hk, h.2]
    · rw [if_neg e]; simp [Pairs.allKeys, h.1, allKeys_set p k v hk r h.2]

theorem pyvalPairs_set (k v : Val) (hk : pyval k = true) (hv : pyval v = true) : ∀ (d : Pairs), pyvalPairs d = true →
    pyvalPairs (d.set k v) = true
  | .nil, _ => by simp [Pairs.set, pyvalPairs, hk, hv]
  | .cons k' v' r, h => by
    simp only [pyvalPairs, Bool.and_eq_true] at h
    simp only [Pairs.set]
    by_cases e : k' = k
    · rw [if_pos e]; simp [pyvalPairs, hk, hv, h.2]
    · rw [if_neg e]; simp [pyvalPairs, h.1, pyvalPairs_set k v hk hv r h.2]

theorem marshalConv_pyval (v m : Val) (hv : pyval v = true) (h : marshalConv v = .ok m) : pyval m = true := by
  cases v with
  | inst cls fields =>
    simp only [marshalConv] at h
    cases h
    simp only [pyval, Bool.and_eq_true] at hv ⊢
    exact ⟨allKeys_set hashable classKey _ (by decide) fields hv.1,
      pyvalPairs_set classKey _ (by decide) (by simp [pyval]) fields hv.2⟩
  | uuid t => simp [marshalConv] at h; subst h; simp [pyval]
  | decimal t => simp [marshalConv] at h
  | date t => simp [marshalConv] at h
  | ext a b => simp [marshalConv] at h
  | _ => simp [marshalConv] at h; subst h; exact hv

theorem marshalConvList_nf : ∀ (xs : Vals), nfList .marshal xs = true → marshalConvList xs = .ok xs
  | .nil, _ => rfl
  | .cons x xs, h => by
    simp only [nfList, Bool.and_eq_true] at h
    simp [marshalConvList, marshalConv_nf x h.1, marshalConvList_nf xs h.2]

theorem marshalTop_nf (b : Bool) (w : Val) (h : nf .marshal w = true) : marshalTop b w = .ok w := by
  cases w with
  | list xs =>
    cases b
    · simp [marshalTop]
    · simp [marshalTop, marshalConvList_nf xs (by simpa [nf] using h)]
  | _ => first | rfl | (simp [nf] at h)

theorem marshalConvList_pyval : ∀ (xs ys : Vals), pyvalList xs = true → marshalConvList xs = .ok ys → pyvalList ys = true
  | .nil, ys, _, h => by simp [marshalConvList] at h; subst h; rfl
  | .cons x xs, ys, hv, h => by
    simp only [pyvalList, Bool.and_eq_true] at hv
    simp only [marshalConvList, bind_eq_ok] at h
    obtain ⟨y, g1, ys', g2, e⟩ := h; cases e
    simp [pyvalList, marshalConv_pyval x y hv.1 g1, marshalConvList_pyval xs ys' hv.2 g2]

theorem marshalTop_pyval (b : Bool) (v m : Val) (hv : pyval v = true) (h : marshalTop b v = .ok m) : pyval m = true := by
  cases v with
  | list xs =>
    cases b
    · simp [marshalTop] at h; subst h; exact hv
    · simp only [marshalTop, if_true, bind_eq_ok] at h
      obtain ⟨ys, g, e⟩ := h; cases e
      simpa [pyval] using marshalConvList_pyval xs ys (by simpa [pyval] using hv) g
  | inst cls fields => exact marshalConv_pyval _ m hv h
  | uuid t => exact marshalConv_pyval _ m hv h
  | decimal t => exact marshalConv_pyval _ m hv h
  | date t => exact marshalConv_pyval _ m hv h
  | ext a b => exact marshalConv_pyval _ m hv h
  | _ => exact marshalConv_pyval _ m hv h

/-- hook placement on the result path of a good configuration -/
theorem good_res_ph (c : Cfg) (hc : c.good = true) : phOK .msgpack c.resExtHook c.resObjHook c.resRecreate := by
  obtain ⟨x1, x2, o1, o2, r1, r2, k, l1, l2⟩ := c
  simp only [Cfg.good, Bool.and_eq_true, Bool.or_eq_true, Bool.not_eq_true'] at hc
  obtain ⟨⟨⟨⟨hx1, hx2⟩, _⟩, _⟩, hh⟩ := hc
  subst hx1; subst hx2
  rcases hh with ⟨⟨⟨ho1, ho2⟩, hr1⟩, hr2⟩ | ⟨⟨⟨ho1, ho2⟩, hr1⟩, hr2⟩ <;> subst ho1 <;> subst ho2 <;> subst hr1 <;> subst hr2 <;>
    simp [phOK]

theorem resRT_msgpack_eq (c : Cfg) (v : Val) : resRT c .msgpack v =
    (enc .msgpack true v >>= fun w => dec .msgpack c.resExtHook c.resObjHook w >>= fun d => post c.resRecreate .msgpack d) := by
  simp only [resRT, post]

/-- (A) for `loads(dumps(w))`: a normal form comes back unchanged -/
theorem res_fixed (c : Cfg) (hc : c.good = true) (s : Ser) (w : Val) (h : nf s w = true) : resRT c s w = .ok w := by
  cases s with
  | serpent =>
    obtain ⟨a, d, h1, h2, h3⟩ := fix_val .serpent false false true (by simp [phOK]) w h
    simp only [post, if_true] at h3
    simp [resRT, h1, h2, h3]
  | marshal =>
    obtain ⟨a, d, h1, h2, h3⟩ := fix_val .marshal false false true (by simp [phOK]) w h
    simp only [post, if_true] at h3
    simp [resRT, marshalTop_nf _ w h, h1, h2, h3]
  | json =>
    obtain ⟨a, d, h1, h2, h3⟩ := fix_val .json false false true (by simp [phOK]) w h
    simp only [post, if_true] at h3
    simp [resRT, h1, h2, h3]
  | msgpack =>
    obtain ⟨a, d, h1, h2, h3⟩ := fix_val .msgpack _ _ _ (good_res_ph c hc) w h
    rw [resRT_msgpack_eq]
    simp [h1, h2, h3]

/-- (B) for `loads(dumps(v))`: what comes back is a normal form -/
theorem res_range (c : Cfg) (hc : c.good = true) (s : Ser) (v w : Val) (hv : pyval v = true)
    (h : resRT c s v = .ok w) : nf s w = true := by
  cases s with
  | serpent =>
    simp only [resRT, bind_eq_ok] at h
    obtain ⟨a, h1, d, h2, h3⟩ := h
    exact range_val .serpent false false true (by simp [phOK]) v hv a d w h1 h2 (by simp [post, h3])
  | marshal =>
    simp only [resRT, bind_eq_ok] at h
    obtain ⟨m, h0, a, h1, d, h2, h3⟩ := h
    exact range_val .marshal false false true (by simp [phOK]) m (marshalTop_pyval _ v m hv h0) a d w h1 h2 (by simp [post, h3])
  | json =>
    simp only [resRT, bind_eq_ok] at h
    obtain ⟨a, h1, d, h2, h3⟩ := h
    exact range_val .json false false true (by simp [phOK]) v hv a d w h1 h2 (by simp [post, h3])
  | msgpack =>
    rw [resRT_msgpack_eq] at h
    simp only [bind_eq_ok] at h
    obtain ⟨a, h1, d, h2, h3⟩ := h
    exact range_val .msgpack _ _ _ (good_res_ph c hc) v hv a d w h1 h2 h3

mutual
theorem lossless_nf (s : Ser) : ∀ v, lossless v = true → nf s v = true
  | .none, _ => by simp [nf]
  | .bool _, _ => by simp [nf]
  | .int _, _ => by simp [nf]
  | .str _, _ => by simp [nf]
  | .float b, h => by cases s <;> simp_all [nf, lossless]
  | .list xs, h => by
    have := lossless_nf_list s xs (by simpa [lossless] using h)
    simpa [nf] using this
  | .dict kvs, h => by
    simp only [lossless, Bool.and_eq_true] at h
    have := lossless_nf_pairs s kvs h.2
    simp only [nf, Bool.and_eq_true]
    exact ⟨h.1, this⟩
  | .bytes _, h => by simp [lossless] at h
  | .bytearray _, h => by simp [lossless] at h
  | .tuple _, h => by simp [lossless] at h
  | .set _, h => by simp [lossless] at h
  | .frozenset _, h => by simp [lossless] at h
  | .complex _ _, h => by simp [lossless] at h
  | .uuid _, h => by simp [lossless] at h
  | .decimal _, h => by simp [lossless] at h
  | .date _, h => by simp [lossless] at h
  | .ext _ _, h => by simp [lossless] at h
  | .inst _ _, h => by simp [lossless] at h
theorem lossless_nf_list (s : Ser) : ∀ xs, losslessList xs = true → nfList s xs = true
  | .nil, _ => by simp [nfList]
  | .cons x xs, h => by
    simp only [losslessList, Bool.and_eq_true] at h
    simp [nfList, lossless_nf s x h.1, lossless_nf_list s xs h.2]
theorem lossless_nf_pairs (s : Ser) : ∀ kvs, losslessPairs kvs = true → nfPairs s kvs = true
  | .nil, _ => by simp [nfPairs]
  | .cons k v r, h => by
    simp only [losslessPairs, Bool.and_eq_true] at h
    obtain ⟨⟨hk, hv⟩, hr⟩ := h
    have i1 := lossless_nf s v hv
    have i2 := lossless_nf_pairs s r hr
    cases k with
    | str t => cases s <;> simp [nfPairs, i1, i2, isStr, isStrOrBytes, serpentHashType, hashOK, hashable, nf]
    | _ => simp [isStr] at hk
end

end Pyro.Values
