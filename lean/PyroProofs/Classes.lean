/-
  Helper lemmas for C04 (PyroModel/Classes.lean): a small Hoare-style predicate `Sat` on the result/effect-log monad and
  the specification of every model function in terms of it.
-/
import PyroModel.Classes

namespace Pyro.Classes

open Pyro.Gen.C04 (Kind)

/-- `m` yields only results satisfying `Q`, logs only effects satisfying `A`, fails only with errors satisfying `Er`. -/
def Sat {α : Type} (Q : α → Prop) (A : Effect → Prop) (Er : Err → Prop) (m : M α) : Prop :=
  (∀ a, m.1 = .ok a → Q a) ∧ (∀ e ∈ m.2, A e) ∧ (∀ err, m.1 = .error err → Er err)

section sat
variable {α β : Type} {Q : α → Prop} {R : β → Prop} {A : Effect → Prop} {Er : Err → Prop}

theorem sat_pure (a : α) (h : Q a) : Sat Q A Er (pure a : M α) := by
  refine ⟨?_, ?_, ?_⟩
  · intro b hb; cases hb; exact h
  · intro e he; cases he
  · intro err he; cases he

theorem sat_fail (e : Err) (h : Er e) : Sat Q A Er (M.fail e : M α) := by
  refine ⟨?_, ?_, ?_⟩
  · intro b hb; cases hb
  · intro e he; cases he
  · intro err he; cases he; exact h

theorem sat_emit (e : Effect) (h : A e) : Sat (fun _ => True) A Er (emit e) := by
  refine ⟨fun _ _ => trivial, ?_, ?_⟩
  · intro e' he
    simp only [emit, List.mem_singleton] at he
    subst he; exact h
  · intro err he; cases he

theorem sat_lift (x : Except Err α) (hok : ∀ a, x = .ok a → Q a) (herr : ∀ e, x = .error e → Er e) :
    Sat Q A Er (lift x) :=
  ⟨hok, by intro e he; simp [lift] at he, herr⟩

theorem ext_ne_fuel (s : ExtSite) : Err.ext s ≠ Err.fuel := by intro h; cases h

theorem sat_checkExt (ok : Bool) (s : ExtSite) (h : Er (.ext s)) : Sat (fun _ => True) A Er (checkExt ok s) := by
  unfold checkExt
  cases ok
  · exact sat_fail _ h
  · exact sat_pure _ trivial

theorem sat_bind {x : M α} {f : α → M β} (hx : Sat Q A Er x) (hf : ∀ a, Q a → Sat R A Er (f a)) :
    Sat R A Er (x >>= f) := by
  obtain ⟨r, l⟩ := x
  cases r with
  | error e =>
    refine ⟨?_, ?_, ?_⟩
    · intro b hb; cases hb
    · exact hx.2.1
    · intro err he; cases he; exact hx.2.2 e rfl
  | ok a =>
    have hq : Q a := hx.1 a rfl
    obtain ⟨h1, h2, h3⟩ := hf a hq
    refine ⟨h1, ?_, h3⟩
    intro e he
    have : e ∈ l ++ (f a).2 := he
    rcases List.mem_append.mp this with h | h
    · exact hx.2.1 e h
    · exact h2 e h

theorem sat_ite {c : Prop} [Decidable c] {a b : M α} (ha : c → Sat Q A Er a) (hb : ¬ c → Sat Q A Er b) :
    Sat Q A Er (if c then a else b) := by
  by_cases h : c
  · rw [if_pos h]; exact ha h
  · rw [if_neg h]; exact hb h

theorem sat_mono {Q' : α → Prop} {m : M α} (h : Sat Q A Er m) (hq : ∀ a, Q a → Q' a) : Sat Q' A Er m :=
  ⟨fun a ha => hq a (h.1 a ha), h.2.1, h.2.2⟩

end sat

/-! ### errors of the pure helpers are never `fuel` -/

theorem iterate_ne_fuel {v : Val} {e : Err} (h : iterate v = .error e) : e ≠ .fuel := by
  cases v <;> simp only [iterate] at h <;> (try split at h) <;> cases h <;> decide

theorem index_ne_fuel {v : Val} {i : Nat} {e : Err} (h : index v i = .error e) : e ≠ .fuel := by
  cases v <;> simp only [index] at h <;> (try split at h) <;> cases h <;> decide

theorem lenOf_ne_fuel {v : Val} {e : Err} (h : lenOf v = .error e) : e ≠ .fuel := by
  cases v <;> simp only [lenOf] at h <;> cases h <;> decide

theorem tagOf_ne_fuel {ks : List Key} {vs : List Val} {e : Err} (h : tagOf ks vs = .error e) : e ≠ .fuel := by
  unfold tagOf at h
  split at h
  · cases h
  · cases h
  · split at h <;> cases h <;> decide
  · cases h; decide
  · cases h; decide
  · cases h; decide

/-! ### closedness of parts of closed values -/

theorem closedListB_cons {reg : List Str} {x : Val} {xs : List Val} :
    closedListB reg (x :: xs) = true ↔ closedB reg x = true ∧ closedListB reg xs = true := by
  simp only [closedListB, Bool.and_eq_true]

theorem closedCls_exc {reg : List Str} {q : Str} (h : q ∈ closedExcQuals) : ClosedCls reg (.exc q) := by
  simp only [ClosedCls, closedClsB, h, decide_true]

theorem closedCls_pyro {reg : List Str} (c : PyroCls) : ClosedCls reg (.pyro c) := rfl

theorem closedCls_custom {reg : List Str} {t : Str} (h : t ∈ reg) : ClosedCls reg (.custom t) := by
  simp only [ClosedCls, closedClsB, h, decide_true]

theorem closed_inst {reg : List Str} {c : Cls} {ps : List Val} (hc : ClosedCls reg c) (hp : closedListB reg ps = true) :
    closedB reg (.inst c ps) = true := by
  simp only [closedB, Bool.and_eq_true]; exact ⟨hc, hp⟩

theorem closedList_cons {reg : List Str} {x : Val} {xs : List Val} (hx : closedB reg x = true)
    (hxs : closedListB reg xs = true) : closedListB reg (x :: xs) = true := by
  simp only [closedListB, Bool.and_eq_true]; exact ⟨hx, hxs⟩

theorem closed_tuple {reg : List Str} {xs : List Val} (h : closedListB reg xs = true) : closedB reg (.tuple xs) = true := by
  simpa only [closedB] using h

theorem closed_dict {reg : List Str} {ks : List Key} {vs : List Val} (h : closedListB reg vs = true) :
    closedB reg (.dict ks vs) = true := by
  simpa only [closedB] using h

theorem closed_lookup {reg : List Str} {k : Str} :
    ∀ {ks : List Key} {vs : List Val} {v : Val}, closedListB reg vs = true → lookup k ks vs = some v → closedB reg v = true
  | [], _, _, _, h => by simp [lookup] at h
  | _ :: _, [], _, _, h => by simp [lookup] at h
  | kk :: ks, x :: xs, v, hc, h => by
    simp only [lookup] at h
    rw [closedListB_cons] at hc
    split at h
    · cases h; exact hc.1
    · exact closed_lookup hc.2 h

theorem closed_getElem {reg : List Str} :
    ∀ {xs : List Val} {i : Nat} {x : Val}, closedListB reg xs = true → xs[i]? = some x → closedB reg x = true
  | [], _, _, _, h => by simp at h
  | y :: ys, 0, x, hc, h => by
    rw [closedListB_cons] at hc
    simp at h; subst h; exact hc.1
  | y :: ys, i + 1, x, hc, h => by
    rw [closedListB_cons] at hc
    simp at h; exact closed_getElem hc.2 h

theorem closedListB_map_str {reg : List Str} (s : Str) : closedListB reg (s.map fun c => Val.str [c]) = true := by
  induction s with
  | nil => rfl
  | cons c cs ih => simp only [List.map, closedListB, closedB, ih, Bool.and_self]

theorem closedB_keyVal {reg : List Str} (k : Key) : closedB reg (keyVal k) = true := by
  cases k <;> rfl

theorem closedListB_map_keyVal {reg : List Str} (ks : List Key) : closedListB reg (ks.map keyVal) = true := by
  induction ks with
  | nil => rfl
  | cons k ks ih => simp only [List.map, closedListB, closedB_keyVal, ih, Bool.and_self]

theorem closed_iterate {reg : List Str} {v : Val} {xs : List Val} (hc : closedB reg v = true) (h : iterate v = .ok xs) :
    closedListB reg xs = true := by
  cases v with
  | list ys => simp only [iterate] at h; cases h; simpa [closedB] using hc
  | tuple ys => simp only [iterate] at h; cases h; simpa [closedB] using hc
  | set ys =>
    simp only [iterate] at h
    split at h
    · cases h; simpa [closedB] using hc
    · cases h
  | str s => simp only [iterate] at h; cases h; exact closedListB_map_str s
  | dict ks vs =>
    simp only [iterate] at h
    split at h
    · cases h; exact closedListB_map_keyVal ks
    · cases h
  | bytes b =>
    simp only [iterate] at h
    split at h
    · cases h; rfl
    · cases h
  | atom _ _ => simp [iterate] at h
  | blob _ _ => simp [iterate] at h
  | ext _ _ _ _ => simp [iterate] at h
  | inst _ _ => simp [iterate] at h

theorem closed_index {reg : List Str} {v : Val} {i : Nat} {x : Val} (hc : closedB reg v = true) (h : index v i = .ok x) :
    closedB reg x = true := by
  cases v with
  | list ys =>
    simp only [index] at h
    split at h
    · cases h; exact closed_getElem (by simpa [closedB] using hc) (by assumption)
    · cases h
  | tuple ys =>
    simp only [index] at h
    split at h
    · cases h; exact closed_getElem (by simpa [closedB] using hc) (by assumption)
    · cases h
  | str s =>
    simp only [index] at h
    split at h
    · cases h; rfl
    · cases h
  | dict ks vs => simp only [index] at h; split at h <;> cases h
  | bytes b => simp only [index] at h; split at h <;> cases h
  | set _ => simp [index] at h
  | atom _ _ => simp [index] at h
  | blob _ _ => simp [index] at h
  | ext _ _ _ _ => simp [index] at h
  | inst _ _ => simp [index] at h

theorem depth_lookup_le {k : Str} :
    ∀ {ks : List Key} {vs : List Val} {v : Val}, lookup k ks vs = some v → depth v ≤ depthList vs
  | [], _, _, h => by simp [lookup] at h
  | _ :: _, [], _, h => by simp [lookup] at h
  | kk :: ks, x :: xs, v, h => by
    simp only [lookup] at h
    simp only [depthList]
    split at h
    · cases h; exact Nat.le_max_left _ _
    · exact Nat.le_trans (depth_lookup_le h) (Nat.le_max_right _ _)

/-! ### the extracted tables -/

theorem assoc_mem {β : Type} {k : Str} {v : β} : ∀ {l : List (Str × β)}, assoc k l = some v → (k, v) ∈ l
  | [], h => by simp [assoc] at h
  | (n, w) :: rest, h => by
    simp only [assoc] at h
    split at h
    · cases h; rename_i hk; subst hk; exact List.mem_cons_self
    · exact List.mem_cons_of_mem _ (assoc_mem h)

theorem mem_excQuals {n q : Str} : ∀ {t : List (Str × Kind)}, (n, Kind.exc q) ∈ t → q ∈ excQuals t
  | [], h => by cases h
  | (m, k) :: rest, h => by
    rcases List.mem_cons.mp h with h | h
    · cases h; simp [excQuals]
    · have ih := mem_excQuals h
      cases k <;> simp [excQuals, ih]

theorem assoc_excQuals {n q : Str} {t : List (Str × Kind)} (h : assoc n t = some (.exc q)) : q ∈ excQuals t :=
  mem_excQuals (assoc_mem h)

theorem assoc_excQuals_filter {n q : Str} {t : List (Str × Kind)} {p : Str → Bool}
    (h : assoc n t = some (.exc q)) (hp : p n = true) : q ∈ excQuals (t.filter fun r => p r.1) := by
  apply mem_excQuals (n := n)
  exact List.mem_filter.mpr ⟨assoc_mem h, hp⟩

theorem builtins_closed {n q : Str} (h : assoc n Pyro.Gen.C04.builtinsKinds = some (.exc q)) : q ∈ closedExcQuals := by
  unfold closedExcQuals
  simp only [List.mem_append]
  exact Or.inl (Or.inl (Or.inl (assoc_excQuals h)))

theorem errors_closed {n q : Str} (h : assoc n Pyro.Gen.C04.errorsKinds = some (.exc q)) : q ∈ closedExcQuals := by
  unfold closedExcQuals
  simp only [List.mem_append]
  exact Or.inl (Or.inl (Or.inr (assoc_excQuals h)))

theorem sqlite_closed {n q : Str} (h : assoc n Pyro.Gen.C04.sqlite3Kinds = some (.exc q)) (he : endsWith n sufError = true) :
    q ∈ closedExcQuals := by
  unfold closedExcQuals sqliteErrorRows
  simp only [List.mem_append]
  exact Or.inl (Or.inr (assoc_excQuals_filter (p := fun n => endsWith n sufError) h he))

theorem struct_closed : Pyro.Gen.C04.structErrorQual ∈ closedExcQuals := by
  unfold closedExcQuals
  simp only [List.mem_append, List.mem_singleton]
  exact Or.inr trivial

/-- **Obligation on the extracted table**: every class `all_exceptions` maps a name to is an exception class found in
    `vars(builtins)` or `vars(Pyro5.errors)`. -/
theorem tablesOk_true : tablesOk = true := by decide +kernel

theorem allExceptions_closed : ∀ p ∈ Pyro.Gen.C04.allExceptions, p.2 ∈ closedExcQuals := by
  have h := tablesOk_true
  simp only [tablesOk, Bool.and_eq_true] at h
  intro p hp
  simpa using List.all_eq_true.mp h.2 p hp


/-! ### string lemmas -/

theorem hasDunder_iff (s : Str) : hasDunder s = true ↔ ['_', '_'] <:+: s := by
  fun_induction hasDunder s with
  | case1 rest =>
    simp only [true_iff]
    exact ⟨[], rest, rfl⟩
  | case2 c rest hne ih =>
    rw [ih, List.infix_cons_iff]
    constructor
    · intro h; exact Or.inr h
    · intro h
      rcases h with h | h
      · exfalso
        obtain ⟨t, ht⟩ := h
        cases ht
        exact hne _ rfl rfl
      · exact h
  | case3 =>
    constructor
    · intro h; cases h
    · intro h
      have := List.infix_nil.mp h
      cases this

theorem splitDot_eq : ∀ {s a b : Str}, splitDot s = some (a, b) → s = a ++ '.' :: b
  | [], _, _, h => by simp [splitDot] at h
  | c :: rest, a, b, h => by
    simp only [splitDot] at h
    split at h
    · rename_i hc; cases h; subst hc; rfl
    · split at h
      · rename_i a' b' hr
        cases h
        have := splitDot_eq hr
        rw [this]; rfl
      · cases h

theorem startsWith_eq {s pre : Str} (h : startsWith s pre = true) : s = pre ++ s.drop pre.length := by
  have hp : pre <+: s := List.isPrefixOf_iff_prefix.mp h
  exact (List.prefix_iff_eq_append.mp hp).symm

/-! ### which tags are accepted -/

theorem bind_fst_ok {α β : Type} {x : M α} {f : α → M β} {b : β} (h : (x >>= f).1 = .ok b) :
    ∃ a, x.1 = .ok a ∧ (f a).1 = .ok b := by
  obtain ⟨r, l⟩ := x
  cases r with
  | error e => cases h
  | ok a => exact ⟨a, rfl, h⟩

theorem emit_bind_fst {β : Type} (e : Effect) (f : Unit → M β) : (emit e >>= f).1 = (f ()).1 := rfl

theorem unsupported_fst : unsupported.1 = .error .serialize := rfl

theorem resolveExc_ok {E : Env} {module : Str} {tbl : List (Str × Kind)} {name : Str} {ks : List Key} {vs : List Val}
    {w : Val} (h : (resolveExc E module tbl name ks vs).1 = .ok w) : ∃ q, assoc name tbl = some (.exc q) := by
  unfold resolveExc at h
  rw [emit_bind_fst] at h
  split at h
  · cases h
  · cases h
  · rw [unsupported_fst] at h; cases h
  · rename_i q hq; exact ⟨q, hq⟩

/-! ### specifications of the model functions -/

section specs
variable (E : Env) {Er : Err → Prop}

/-- the postcondition used throughout: closed result, allowed effects, and errors in `Er` -/
abbrev Good (Er : Err → Prop) (m : M Val) : Prop := Sat (fun w => closedB E.reg w = true) (Allowed E.reg) Er m

theorem setattrs_spec (hEr : ∀ e, e ≠ Err.fuel → Er e) (q : Str) (hq : q ∈ closedExcQuals) :
    ∀ (ks : List Key) (vs : List Val), Sat (fun _ => True) (Allowed E.reg) Er (setattrs E (.exc q) ks vs)
  | [], _ => by unfold setattrs; exact sat_pure _ trivial
  | _ :: _, [] => by unfold setattrs; exact sat_pure _ trivial
  | k :: ks, v :: vs => by
    unfold setattrs
    refine sat_bind (sat_emit _ (show Allowed E.reg (.setattr (.exc q) k) from hq)) fun _ _ => ?_
    refine sat_bind (sat_checkExt _ _ (hEr _ (by decide))) fun _ _ => ?_
    exact setattrs_spec hEr q hq ks vs

theorem need_spec (hEr : ∀ e, e ≠ Err.fuel → Er e) (k : Str) (ks : List Key) (vs : List Val)
    (hc : closedListB E.reg vs = true) : Good E Er (need k ks vs) := by
  unfold need
  split
  · rename_i v hv; exact sat_pure _ (closed_lookup hc hv)
  · exact sat_fail _ (hEr _ (by decide))

theorem need_spec2 (hEr : ∀ e, e ≠ Err.fuel → Er e) (k : Str) (ks : List Key) (vs : List Val)
    (hc : closedListB E.reg vs = true) :
    Sat (fun v => closedB E.reg v = true ∧ depth v ≤ depthList vs) (Allowed E.reg) Er (need k ks vs) := by
  unfold need
  split
  · rename_i v hv; exact sat_pure _ ⟨closed_lookup hc hv, depth_lookup_le hv⟩
  · exact sat_fail _ (hEr _ (by decide))

theorem makeException_spec (hEr : ∀ e, e ≠ Err.fuel → Er e) (q : Str) (hq : q ∈ closedExcQuals)
    (ks : List Key) (vs : List Val) (hc : closedListB E.reg vs = true) :
    Good E Er (makeException E (.exc q) ks vs) := by
  unfold makeException
  refine sat_bind (need_spec E hEr _ ks vs hc) fun args hargs => ?_
  refine sat_bind (Q := fun xs => closedListB E.reg xs = true)
    (sat_lift _ (fun xs hx => closed_iterate hargs hx) (fun e he => hEr e (iterate_ne_fuel he))) fun xs hxs => ?_
  refine sat_bind (sat_emit _ (show Allowed E.reg (.construct (.exc q)) from closedCls_exc hq)) fun _ _ => ?_
  refine sat_bind (sat_checkExt _ _ (hEr _ (by decide))) fun _ _ => ?_
  split
  · exact sat_pure _ (closed_inst (closedCls_exc hq) (closedList_cons (closed_tuple hxs) (closedList_cons rfl rfl)))
  · rename_i aks avs hl
    have hat : closedB E.reg (.dict aks avs) = true := closed_lookup hc hl
    refine sat_bind (setattrs_spec E hEr q hq aks avs) fun _ _ => ?_
    exact sat_pure _ (closed_inst (closedCls_exc hq) (closedList_cons (closed_tuple hxs) (closedList_cons hat rfl)))
  · exact sat_fail _ (hEr _ (by decide))
  · exact sat_fail _ (hEr _ (by decide))
  · exact sat_fail _ (hEr _ (by decide))
  · exact sat_fail _ (hEr _ (by decide))

theorem uriSetstate_spec (hEr : ∀ e, e ≠ Err.fuel → Er e) (st : Val) (hc : closedB E.reg st = true) :
    Good E Er (uriSetstate st) := by
  unfold uriSetstate
  refine sat_bind (Q := fun xs => closedListB E.reg xs = true)
    (sat_lift _ (fun xs hx => closed_iterate hc hx) (fun e he => hEr e (iterate_ne_fuel he))) fun xs hxs => ?_
  split
  · exact sat_pure _ (closed_inst (closedCls_pyro _) hxs)
  · exact sat_fail _ (hEr _ (by decide))

theorem proxySetstate_spec (hEr : ∀ e, e ≠ Err.fuel → Er e) (st : Val) (hc : closedB E.reg st = true) :
    Good E Er (proxySetstate E st) := by
  unfold proxySetstate
  have hidx : ∀ i, Sat (fun x => closedB E.reg x = true) (Allowed E.reg) Er (lift (index st i)) := fun i =>
    sat_lift _ (fun x hx => closed_index hc hx) (fun e he => hEr e (index_ne_fuel he))
  have hck : ∀ ok s, Sat (fun _ => True) (Allowed E.reg) Er (checkExt ok s) := fun ok s =>
    sat_checkExt _ _ (hEr _ (ext_ne_fuel s))
  refine sat_bind (hidx 0) fun s0 _ => ?_
  refine sat_bind (sat_emit _ trivial) fun _ _ => ?_
  refine sat_bind (sat_emit _ (show Allowed E.reg (.construct (.pyro .uri)) from closedCls_pyro _)) fun _ _ => ?_
  refine sat_bind (hck _ _) fun _ _ => ?_
  refine sat_bind (hidx 1) fun s1 h1 => ?_
  refine sat_bind (sat_emit _ trivial) fun _ _ => ?_
  refine sat_bind (hck _ _) fun _ _ => ?_
  refine sat_bind (hidx 2) fun s2 h2 => ?_
  refine sat_bind (sat_emit _ trivial) fun _ _ => ?_
  refine sat_bind (hck _ _) fun _ _ => ?_
  refine sat_bind (hidx 3) fun s3 h3 => ?_
  refine sat_bind (sat_emit _ trivial) fun _ _ => ?_
  refine sat_bind (hck _ _) fun _ _ => ?_
  refine sat_bind (hidx 4) fun s4 h4 => ?_
  refine sat_bind (hidx 5) fun s5 h5 => ?_
  exact sat_pure _ (closed_inst (closedCls_pyro _) (closedList_cons (closed_inst (closedCls_pyro _) rfl)
    (closedList_cons h1 (closedList_cons h2 (closedList_cons h3 (closedList_cons h4 (closedList_cons h5 rfl)))))))

theorem daemonSetstate_spec (hEr : ∀ e, e ≠ Err.fuel → Er e) (st : Val) : Good E Er (daemonSetstate st) := by
  unfold daemonSetstate
  refine sat_bind (Q := fun _ => True)
    (sat_lift _ (fun _ _ => trivial) (fun e he => hEr e (lenOf_ne_fuel he))) fun n _ => ?_
  split
  · exact sat_pure _ (closed_inst (closedCls_pyro _) rfl)
  · exact sat_fail _ (hEr _ (by decide))

theorem unsupported_spec (hEr : ∀ e, e ≠ Err.fuel → Er e) : Good E Er unsupported := by
  unfold unsupported
  exact sat_bind (sat_emit _ trivial) fun _ _ => sat_fail _ (hEr _ (by decide))

theorem resolveExc_spec (hEr : ∀ e, e ≠ Err.fuel → Er e) (module : Str) (tbl : List (Str × Kind)) (name : Str)
    (hmod : module = nsBuiltins ∨ module = mErrors ∨ module = nsSqlite3)
    (htbl : ∀ q, assoc name tbl = some (.exc q) → q ∈ closedExcQuals)
    (ks : List Key) (vs : List Val) (hc : closedListB E.reg vs = true) :
    Good E Er (resolveExc E module tbl name ks vs) := by
  unfold resolveExc
  refine sat_bind (sat_emit _ (show Allowed E.reg (.getattrMod module name) from hmod)) fun _ _ => ?_
  split
  · exact sat_fail _ (hEr _ (by decide))
  · exact sat_fail _ (hEr _ (by decide))
  · exact unsupported_spec E hEr
  · rename_i q hq
    exact makeException_spec E hEr q (htbl q hq) ks vs hc

/-- SerializerBase.dict_to_class: closed result, allowed effects; and it runs out of fuel only if the dict is nested
    deeper than the budget (`P` switches that last clause on). -/
theorem dictToClass_spec (P : Prop) :
    ∀ (fuel : Nat) (ks : List Key) (vs : List Val), closedListB E.reg vs = true → (P → depthList vs < fuel) →
      Good E (fun e => e = Err.fuel → ¬ P) (dictToClass E fuel ks vs)
  | 0, ks, vs, _, hd => by
    unfold dictToClass
    exact sat_fail _ (fun _ hp => absurd (hd hp) (Nat.not_lt_zero _))
  | fuel + 1, ks, vs, hc, hd => by
    have hEr : ∀ e, e ≠ Err.fuel → (fun e => e = Err.fuel → ¬ P) e := fun e hne h => absurd h hne
    unfold dictToClass
    split
    · rename_i e he; exact sat_fail _ (hEr e (tagOf_ne_fuel he))
    · rename_i cn _
      refine sat_ite (fun hreg => ?_) fun _ => ?_
      · refine sat_bind (sat_emit _ (show Allowed E.reg (.convert cn) from hreg)) fun _ _ => ?_
        exact sat_pure _ (closed_inst (closedCls_custom hreg) (closedList_cons (closed_dict hc) rfl))
      refine sat_ite (fun _ => sat_fail _ (hEr _ (by decide))) fun _ => ?_
      refine sat_ite (fun _ => ?_) fun _ => ?_
      · refine sat_bind (sat_emit _ (show Allowed E.reg (.construct (.pyro .uri)) from closedCls_pyro _)) fun _ _ => ?_
        exact sat_bind (need_spec E hEr _ ks vs hc) fun st hst => uriSetstate_spec E hEr st hst
      refine sat_ite (fun _ => ?_) fun _ => ?_
      · refine sat_bind (sat_emit _ (show Allowed E.reg (.construct (.pyro .proxy)) from closedCls_pyro _)) fun _ _ => ?_
        exact sat_bind (need_spec E hEr _ ks vs hc) fun st hst => proxySetstate_spec E hEr st hst
      refine sat_ite (fun _ => ?_) fun _ => ?_
      · refine sat_bind (sat_emit _ (show Allowed E.reg (.construct (.pyro .daemon)) from closedCls_pyro _)) fun _ _ => ?_
        exact sat_bind (need_spec E hEr _ ks vs hc) fun st _ => daemonSetstate_spec E hEr st
      refine sat_ite (fun _ => ?_) fun _ => ?_
      · refine sat_ite (fun _ => ?_) fun _ => ?_
        · exact sat_bind (sat_emit _ (show Allowed E.reg (.construct (.pyro .serpentSer)) from closedCls_pyro _)) fun _ _ =>
            sat_pure _ (closed_inst (closedCls_pyro _) rfl)
        refine sat_ite (fun _ => ?_) fun _ => ?_
        · exact sat_bind (sat_emit _ (show Allowed E.reg (.construct (.pyro .marshalSer)) from closedCls_pyro _)) fun _ _ =>
            sat_pure _ (closed_inst (closedCls_pyro _) rfl)
        refine sat_ite (fun _ => ?_) fun _ => ?_
        · exact sat_bind (sat_emit _ (show Allowed E.reg (.construct (.pyro .jsonSer)) from closedCls_pyro _)) fun _ _ =>
            sat_pure _ (closed_inst (closedCls_pyro _) rfl)
        refine sat_ite (fun _ => ?_) fun _ => ?_
        · exact sat_bind (sat_emit _ (show Allowed E.reg (.construct (.pyro .msgpackSer)) from closedCls_pyro _)) fun _ _ =>
            sat_pure _ (closed_inst (closedCls_pyro _) rfl)
        exact unsupported_spec E hEr
      refine sat_ite (fun _ => ?_) fun _ => ?_
      · exact resolveExc_spec E hEr _ _ _ (Or.inr (Or.inl rfl)) (fun q hq => errors_closed hq) ks vs hc
      refine sat_ite (fun _ => ?_) fun _ => ?_
      · exact makeException_spec E hEr _ struct_closed ks vs hc
      refine sat_ite (fun _ => ?_) fun _ => ?_
      · -- _ExceptionWrapper
        refine sat_bind (need_spec2 E hEr _ ks vs hc) fun ex hex => ?_
        refine sat_bind (Q := fun w => closedB E.reg w = true) ?_ fun ex' hex' => ?_
        · split
          · rename_i ks' vs'
            refine sat_ite (fun _ => ?_) fun _ => sat_pure _ hex.1
            have hvs' : closedListB E.reg vs' = true := by simpa only [closedB] using hex.1
            refine dictToClass_spec P fuel ks' vs' hvs' (fun hp => ?_)
            have h1 := hd hp
            have h2 := hex.2
            simp only [depth] at h2
            omega
          · exact sat_pure _ hex.1
        · refine sat_bind (sat_emit _ (show Allowed E.reg (.construct (.pyro .wrapper)) from closedCls_pyro _)) fun _ _ => ?_
          exact sat_pure _ (closed_inst (closedCls_pyro _) (closedList_cons hex' rfl))
      refine sat_ite (fun _ => ?_) fun _ => unsupported_spec E hEr
      split
      · rename_i q hq
        exact makeException_spec E hEr q (allExceptions_closed _ (assoc_mem hq)) ks vs hc
      · split
        · exact sat_fail _ (hEr _ (by decide))
        · refine sat_ite (fun _ => ?_) fun _ => ?_
          · exact resolveExc_spec E hEr _ _ _ (Or.inl rfl) (fun q hq => builtins_closed hq) ks vs hc
          refine sat_ite (fun hsq => ?_) fun _ => unsupported_spec E hEr
          refine sat_bind (sat_emit _ (show Allowed E.reg (.importMod nsSqlite3) from rfl)) fun _ _ => ?_
          exact resolveExc_spec E hEr _ _ _ (Or.inr (Or.inr rfl)) (fun q hq => sqlite_closed hq hsq.2) ks vs hc

theorem dictEntry_spec (P : Prop) (ser : Ser) (fuel : Nat) (ks : List Key) (vs : List Val)
    (hc : closedListB E.reg vs = true) (hd : P → depthList vs < fuel) :
    Good E (fun e => e = Err.fuel → ¬ P) (dictEntry E ser fuel ks vs) := by
  have hEr : ∀ e, e ≠ Err.fuel → (fun e => e = Err.fuel → ¬ P) e := fun e hne h => absurd h hne
  unfold dictEntry
  refine sat_ite (fun _ => ?_) fun _ => dictToClass_spec E P fuel ks vs hc hd
  split
  · refine sat_ite (fun _ => ?_) fun _ => dictToClass_spec E P fuel ks vs hc hd
    refine sat_bind (need_spec E hEr _ ks vs hc) fun v _ => ?_
    refine sat_bind (sat_emit _ trivial) fun _ _ => ?_
    refine sat_bind (sat_checkExt _ _ (hEr _ (by decide))) fun _ _ => ?_
    exact sat_pure _ rfl
  · exact dictToClass_spec E P fuel ks vs hc hd

mutual
theorem recreate_spec (P : Prop) (ser : Ser) (fuel : Nat) :
    ∀ (v : Val), closedB E.reg v = true → (P → depth v < fuel) →
      Good E (fun e => e = Err.fuel → ¬ P) (recreate E ser fuel v)
  | .set xs, hc, hd => by
    unfold recreate
    refine sat_bind (recreateList_spec P ser fuel xs (by simpa only [closedB] using hc)
      (fun hp => by have := hd hp; simp only [depth] at this; omega)) fun ys hys => ?_
    exact sat_pure _ (by simpa only [closedB] using hys)
  | .list xs, hc, hd => by
    unfold recreate
    refine sat_bind (recreateList_spec P ser fuel xs (by simpa only [closedB] using hc)
      (fun hp => by have := hd hp; simp only [depth] at this; omega)) fun ys hys => ?_
    exact sat_pure _ (by simpa only [closedB] using hys)
  | .tuple xs, hc, hd => by
    unfold recreate
    refine sat_bind (recreateList_spec P ser fuel xs (by simpa only [closedB] using hc)
      (fun hp => by have := hd hp; simp only [depth] at this; omega)) fun ys hys => ?_
    exact sat_pure _ (by simpa only [closedB] using hys)
  | .dict ks vs, hc, hd => by
    unfold recreate
    have hvs : closedListB E.reg vs = true := by simpa only [closedB] using hc
    have hdv : P → depthList vs < fuel := fun hp => by have := hd hp; simp only [depth] at this; omega
    refine sat_ite (fun _ => dictEntry_spec E P ser fuel ks vs hvs hdv) fun _ => ?_
    refine sat_bind (recreateList_spec P ser fuel vs hvs hdv) fun ws hws => ?_
    exact sat_pure _ (by simpa only [closedB] using hws)
  | .atom _ _, _, _ => by unfold recreate; exact sat_pure _ rfl
  | .blob _ _, _, _ => by unfold recreate; exact sat_pure _ rfl
  | .str _, _, _ => by unfold recreate; exact sat_pure _ rfl
  | .bytes _, _, _ => by unfold recreate; exact sat_pure _ rfl
  | .ext _ _ _ _, _, _ => by unfold recreate; exact sat_pure _ rfl
  | .inst c ps, hc, _ => by unfold recreate; exact sat_pure _ hc
theorem recreateList_spec (P : Prop) (ser : Ser) (fuel : Nat) :
    ∀ (vs : List Val), closedListB E.reg vs = true → (P → depthList vs < fuel) →
      Sat (fun ws => closedListB E.reg ws = true) (Allowed E.reg) (fun e => e = Err.fuel → ¬ P) (recreateList E ser fuel vs)
  | [], _, _ => by unfold recreateList; exact sat_pure _ rfl
  | x :: xs, hc, hd => by
    unfold recreateList
    rw [closedListB_cons] at hc
    refine sat_bind (recreate_spec P ser fuel x hc.1
      (fun hp => by have := hd hp; simp only [depthList] at this; omega)) fun y hy => ?_
    refine sat_bind (recreateList_spec P ser fuel xs hc.2
      (fun hp => by have := hd hp; simp only [depthList] at this; omega)) fun ys hys => ?_
    exact sat_pure _ (closedList_cons hy hys)
end

/-! `applyExt` keeps closedness and never increases the depth (an extension leaf becomes another leaf) -/

mutual
theorem applyExt_spec (hEr : ∀ e, e ≠ Err.fuel → Er e) :
    ∀ (v : Val), closedB E.reg v = true →
      Sat (fun w => closedB E.reg w = true ∧ depth w ≤ depth v) (Allowed E.reg) Er (applyExt E v)
  | .ext code raw conv t, _ => by
    unfold applyExt
    refine sat_ite (fun _ => ?_) fun _ => sat_fail _ (hEr _ (by decide))
    refine sat_bind (sat_emit _ trivial) fun _ _ => ?_
    refine sat_bind (sat_checkExt _ _ (hEr _ (by decide))) fun _ _ => ?_
    exact sat_pure _ ⟨rfl, Nat.le_refl _⟩
  | .set xs, hc => by
    unfold applyExt
    refine sat_bind (applyExtList_spec hEr xs (by simpa only [closedB] using hc)) fun ys hys => ?_
    exact sat_pure _ ⟨by simpa only [closedB] using hys.1, by simp only [depth]; omega⟩
  | .list xs, hc => by
    unfold applyExt
    refine sat_bind (applyExtList_spec hEr xs (by simpa only [closedB] using hc)) fun ys hys => ?_
    exact sat_pure _ ⟨by simpa only [closedB] using hys.1, by simp only [depth]; omega⟩
  | .tuple xs, hc => by
    unfold applyExt
    refine sat_bind (applyExtList_spec hEr xs (by simpa only [closedB] using hc)) fun ys hys => ?_
    exact sat_pure _ ⟨by simpa only [closedB] using hys.1, by simp only [depth]; omega⟩
  | .dict ks vs, hc => by
    unfold applyExt
    refine sat_bind (applyExtList_spec hEr vs (by simpa only [closedB] using hc)) fun ws hws => ?_
    exact sat_pure _ ⟨by simpa only [closedB] using hws.1, by simp only [depth]; omega⟩
  | .atom _ _, _ => by unfold applyExt; exact sat_pure _ ⟨rfl, Nat.le_refl _⟩
  | .blob _ _, _ => by unfold applyExt; exact sat_pure _ ⟨rfl, Nat.le_refl _⟩
  | .str _, _ => by unfold applyExt; exact sat_pure _ ⟨rfl, Nat.le_refl _⟩
  | .bytes _, _ => by unfold applyExt; exact sat_pure _ ⟨rfl, Nat.le_refl _⟩
  | .inst c ps, hc => by unfold applyExt; exact sat_pure _ ⟨hc, Nat.le_refl _⟩
theorem applyExtList_spec (hEr : ∀ e, e ≠ Err.fuel → Er e) :
    ∀ (vs : List Val), closedListB E.reg vs = true →
      Sat (fun ws => closedListB E.reg ws = true ∧ depthList ws ≤ depthList vs) (Allowed E.reg) Er (applyExtList E vs)
  | [], _ => by unfold applyExtList; exact sat_pure _ ⟨rfl, Nat.le_refl _⟩
  | x :: xs, hc => by
    unfold applyExtList
    rw [closedListB_cons] at hc
    refine sat_bind (applyExt_spec hEr x hc.1) fun y hy => ?_
    refine sat_bind (applyExtList_spec hEr xs hc.2) fun ys hys => ?_
    refine sat_pure _ ⟨closedList_cons hy.1 hys.1, ?_⟩
    simp only [depthList]
    omega
end

mutual
/-- where `ext_hook` runs, every extension value of a literal tree is converted (or decoding fails) -/
theorem applyExt_noExt :
    ∀ (v : Val), plainB v = true → Sat (fun w => noExtB w = true) (fun _ => True) (fun _ => True) (applyExt E v)
  | .ext code raw conv t, _ => by
    unfold applyExt
    refine sat_ite (fun _ => ?_) fun _ => sat_fail _ trivial
    refine sat_bind (sat_emit _ trivial) fun _ _ => ?_
    refine sat_bind (sat_checkExt _ _ trivial) fun _ _ => ?_
    exact sat_pure _ rfl
  | .set xs, h => by
    unfold applyExt
    refine sat_bind (applyExtList_noExt xs (by simpa only [plainB] using h)) fun ys hys => ?_
    exact sat_pure _ (by simpa only [noExtB] using hys)
  | .list xs, h => by
    unfold applyExt
    refine sat_bind (applyExtList_noExt xs (by simpa only [plainB] using h)) fun ys hys => ?_
    exact sat_pure _ (by simpa only [noExtB] using hys)
  | .tuple xs, h => by
    unfold applyExt
    refine sat_bind (applyExtList_noExt xs (by simpa only [plainB] using h)) fun ys hys => ?_
    exact sat_pure _ (by simpa only [noExtB] using hys)
  | .dict ks vs, h => by
    unfold applyExt
    refine sat_bind (applyExtList_noExt vs (by simpa only [plainB] using h)) fun ws hws => ?_
    exact sat_pure _ (by simpa only [noExtB] using hws)
  | .atom _ _, _ => by unfold applyExt; exact sat_pure _ rfl
  | .blob _ _, _ => by unfold applyExt; exact sat_pure _ rfl
  | .str _, _ => by unfold applyExt; exact sat_pure _ rfl
  | .bytes _, _ => by unfold applyExt; exact sat_pure _ rfl
  | .inst c ps, h => by simp [plainB] at h
theorem applyExtList_noExt :
    ∀ (vs : List Val), plainListB vs = true →
      Sat (fun ws => noExtListB ws = true) (fun _ => True) (fun _ => True) (applyExtList E vs)
  | [], _ => by unfold applyExtList; exact sat_pure _ rfl
  | x :: xs, h => by
    unfold applyExtList
    simp only [plainListB, Bool.and_eq_true] at h
    refine sat_bind (applyExt_noExt x h.1) fun y hy => ?_
    refine sat_bind (applyExtList_noExt xs h.2) fun ys hys => ?_
    exact sat_pure _ (by simp only [noExtListB, hy, hys, Bool.and_self])
end

theorem loads_spec (P : Prop) (ser : Ser) (fuel : Nat) (lit : Val) (hc : closedB E.reg lit = true)
    (hd : P → depth lit < fuel) : Good E (fun e => e = Err.fuel → ¬ P) (loads E ser fuel lit) := by
  have hEr : ∀ e, e ≠ Err.fuel → (fun e => e = Err.fuel → ¬ P) e := fun e hne h => absurd h hne
  unfold loads
  refine sat_ite (fun _ => ?_) fun _ => recreate_spec E P ser fuel lit hc hd
  refine sat_bind (applyExt_spec E hEr lit hc) fun lit' h' => ?_
  exact recreate_spec E P ser fuel lit' h'.1 (fun hp => Nat.lt_of_le_of_lt h'.2 (hd hp))

theorem depthList_of_iterate {v : Val} {xs : List Val} (h : iterate v = .ok xs) : depthList xs ≤ depth v := by
  cases v with
  | list ys => simp only [iterate] at h; cases h; simp only [depth]; omega
  | tuple ys => simp only [iterate] at h; cases h; simp only [depth]; omega
  | set ys =>
    simp only [iterate] at h
    split at h
    · cases h; simp only [depth]; omega
    · cases h
  | str s =>
    simp only [iterate] at h; cases h
    have : ∀ (l : Str), depthList (l.map fun c => Val.str [c]) = 0 := by
      intro l; induction l with
      | nil => rfl
      | cons c cs ih => simp only [List.map, depthList, depth, ih, Nat.max_self]
    rw [this]; exact Nat.zero_le _
  | dict ks vs =>
    simp only [iterate] at h
    split at h
    · cases h
      have : ∀ (l : List Key), depthList (l.map keyVal) = 0 := by
        intro l; induction l with
        | nil => rfl
        | cons k ks ih => cases k <;> simp only [List.map, depthList, depth, keyVal, ih, Nat.max_self]
      rw [this]; exact Nat.zero_le _
    · cases h
  | bytes b =>
    simp only [iterate] at h
    split at h
    · cases h; exact Nat.zero_le _
    · cases h
  | atom _ _ => simp [iterate] at h
  | blob _ _ => simp [iterate] at h
  | ext _ _ _ _ => simp [iterate] at h
  | inst _ _ => simp [iterate] at h

theorem unpack4_spec (P : Prop) (ser : Ser) (fuel : Nat) (lit : Val) (hc : closedB E.reg lit = true)
    (hd : P → depth lit < fuel) : Good E (fun e => e = Err.fuel → ¬ P) (unpack4 E ser fuel lit) := by
  have hEr : ∀ e, e ≠ Err.fuel → (fun e => e = Err.fuel → ¬ P) e := fun e hne h => absurd h hne
  unfold unpack4
  refine sat_bind (Q := fun xs => closedListB E.reg xs = true ∧ depthList xs ≤ depth lit)
    (sat_lift _ (fun xs hx => ⟨closed_iterate hc hx, depthList_of_iterate hx⟩)
      (fun e he => hEr e (iterate_ne_fuel he))) fun xs hxs => ?_
  split
  · rename_i o m va kw
    obtain ⟨hcl, hdl⟩ := hxs
    simp only [closedListB, Bool.and_eq_true, Bool.and_true] at hcl
    simp only [depthList] at hdl
    refine sat_bind (recreate_spec E P ser fuel va hcl.2.2.1 (fun hp => by have := hd hp; omega)) fun va' hva => ?_
    refine sat_bind (recreate_spec E P ser fuel kw hcl.2.2.2 (fun hp => by have := hd hp; omega)) fun kw' hkw => ?_
    exact sat_pure _ (closed_tuple (closedList_cons hcl.1 (closedList_cons hcl.2.1 (closedList_cons hva (closedList_cons hkw rfl)))))
  · exact sat_fail _ (hEr _ (by decide))

theorem loadsCall_spec (P : Prop) (callExtHook : Bool) (ser : Ser) (fuel : Nat) (lit : Val)
    (hc : closedB E.reg lit = true) (hd : P → depth lit < fuel) :
    Good E (fun e => e = Err.fuel → ¬ P) (loadsCall E callExtHook ser fuel lit) := by
  have hEr : ∀ e, e ≠ Err.fuel → (fun e => e = Err.fuel → ¬ P) e := fun e hne h => absurd h hne
  unfold loadsCall
  split
  · -- json
    split
    · rename_i ks vs
      have hvs : closedListB E.reg vs = true := by simpa only [closedB] using hc
      have hdv : ∀ v, depth v ≤ depthList vs → P → depth v < fuel := fun v hv hp => by
        have := hd hp; simp only [depth] at this; omega
      refine sat_bind (need_spec2 E hEr _ ks vs hvs) fun p hp => ?_
      refine sat_bind (recreate_spec E P _ fuel p hp.1 (hdv p hp.2)) fun p' hp' => ?_
      refine sat_bind (need_spec2 E hEr _ ks vs hvs) fun k hk => ?_
      refine sat_bind (recreate_spec E P _ fuel k hk.1 (hdv k hk.2)) fun k' hk' => ?_
      refine sat_bind (need_spec E hEr _ ks vs hvs) fun o ho => ?_
      refine sat_bind (need_spec E hEr _ ks vs hvs) fun m hm => ?_
      exact sat_pure _ (closed_tuple (closedList_cons ho (closedList_cons hm (closedList_cons hp' (closedList_cons hk' rfl)))))
    · exact sat_fail _ (hEr _ (by decide))
    · exact sat_fail _ (hEr _ (by decide))
    · exact sat_fail _ (hEr _ (by decide))
    · exact sat_fail _ (hEr _ (by decide))
  · -- msgpack
    refine sat_ite (fun _ => ?_) fun _ => unpack4_spec E P _ fuel lit hc hd
    refine sat_bind (applyExt_spec E hEr lit hc) fun lit' h' => ?_
    exact unpack4_spec E P _ fuel lit' h'.1 (fun hp => Nat.lt_of_le_of_lt h'.2 (hd hp))
  · exact unpack4_spec E P _ fuel lit hc hd

end specs

end Pyro.Classes
