/-
  NSLists.lean — list lemmas for the name-server refinement (C14): `dedup`, maps with distinct keys under
  permutation, the literal-prefix test, and the counting lemma behind `HAVING COUNT(metadata)=?`.
-/
import PyroModel.NameServer

namespace Pyro.NS

/-! ### dedup -/

theorem mem_dedup {a : Str} : ∀ {l : Tags}, a ∈ dedup l ↔ a ∈ l
  | [] => by simp [dedup]
  | b :: l => by
    have ih := @mem_dedup a l
    by_cases h : a = b
    · subst h; simp [dedup]
    · simp [dedup, List.mem_filter, ih, h]

theorem nodup_dedup : ∀ (l : Tags), (dedup l).Nodup
  | [] => by simp [dedup]
  | b :: l => by
    simp only [dedup, List.nodup_cons]
    refine ⟨?_, List.Pairwise.filter _ (nodup_dedup l)⟩
    simp [List.mem_filter]

theorem dedup_eq_nil {l : Tags} : dedup l = [] ↔ l = [] := by
  cases l <;> simp [dedup]

/-! ### maps with distinct keys -/

def NodupKeys (l : List Entry) : Prop := l.Pairwise (fun a b => a.name ≠ b.name)

/-- the invariant of the abstract map: names pairwise distinct, every tag list duplicate free -/
def SpecInv (l : List Entry) : Prop := NodupKeys l ∧ ∀ e ∈ l, e.tags.Nodup

theorem NodupKeys.perm {l l' : List Entry} (p : l.Perm l') (h : NodupKeys l) : NodupKeys l' :=
  (List.Perm.pairwise_iff (fun h => Ne.symm h) p).mp h

theorem SpecInv.perm {l l' : List Entry} (p : l.Perm l') (h : SpecInv l) : SpecInv l' :=
  ⟨h.1.perm p, fun e he => h.2 e (p.mem_iff.mpr he)⟩

theorem NodupKeys.filter {l : List Entry} (p : Entry → Bool) (h : NodupKeys l) : NodupKeys (l.filter p) :=
  List.Pairwise.filter p h

theorem SpecInv.filter {l : List Entry} (p : Entry → Bool) (h : SpecInv l) : SpecInv (l.filter p) :=
  ⟨h.1.filter p, fun e he => h.2 e (List.mem_filter.mp he).1⟩

theorem find?_of_mem {l : List Entry} (h : NodupKeys l) {e : Entry} (he : e ∈ l) :
    l.find? (·.name == e.name) = some e := by
  induction l with
  | nil => cases he
  | cons a l ih =>
    rw [NodupKeys, List.pairwise_cons] at h
    rcases List.mem_cons.mp he with rfl | hm
    · simp [List.find?]
    · have hne : a.name ≠ e.name := h.1 e hm
      have : (a.name == e.name) = false := by simpa using hne
      simp only [List.find?, this]
      exact ih h.2 hm

theorem find?_name {l : List Entry} {n : Str} {e : Entry} (h : l.find? (·.name == n) = some e) :
    e ∈ l ∧ e.name = n :=
  ⟨List.mem_of_find?_eq_some h, by simpa using List.find?_some h⟩

theorem find?_perm {l l' : List Entry} (h : NodupKeys l) (p : l.Perm l') (n : Str) :
    l.find? (·.name == n) = l'.find? (·.name == n) := by
  cases hf : l.find? (·.name == n) with
  | none =>
    symm
    rw [List.find?_eq_none] at hf ⊢
    intro x hx
    exact hf x (p.mem_iff.mpr hx)
  | some e =>
    obtain ⟨hm, hn⟩ := find?_name hf
    subst hn
    exact (find?_of_mem (h.perm p) (p.mem_iff.mp hm)).symm

theorem any_name_iff {l : List Entry} {n : Str} : l.any (·.name == n) = true ↔ ∃ e ∈ l, e.name = n := by
  simp [List.any_eq_true]

theorem find?_isSome_eq_any (l : List Entry) (n : Str) :
    (l.find? (·.name == n)).isSome = l.any (·.name == n) := by
  induction l with
  | nil => rfl
  | cons a l ih =>
    by_cases h : (a.name == n) = true
    · simp [List.find?, h]
    · simp only [Bool.not_eq_true] at h
      simp [List.find?, h, ih]

theorem strip_name (wm : Bool) (e : Entry) : (e.strip wm).name = e.name := by
  unfold Entry.strip; split <;> rfl

theorem strip_true (e : Entry) : e.strip true = e := by simp [Entry.strip]

theorem map_strip_true (l : List Entry) : l.map (Entry.strip true) = l := by
  induction l with
  | nil => rfl
  | cons a l ih => simp [strip_true, ih]

theorem strip_strip (wm : Bool) (e : Entry) : (e.strip true).strip wm = e.strip wm := by simp [strip_true]

theorem filterMap_congr' {α β : Type} {f g : α → Option β} {l : List α} (h : ∀ a ∈ l, f a = g a) :
    l.filterMap f = l.filterMap g := by
  induction l with
  | nil => rfl
  | cons a l ih =>
    have h1 := h a (List.mem_cons_self ..)
    have h2 := ih (fun b hb => h b (List.mem_cons_of_mem _ hb))
    simp only [List.filterMap_cons, h1, h2]

/-- looking the selected names up one by one gives the selected entries -/
theorem collect_pure {A : List Entry} (hA : NodupKeys A) (pred : Str → Bool) (wm : Bool) {names : List Str}
    (hp : names.Perm (A.map (·.name))) :
    ((names.filter pred).filterMap (fun n => (A.find? (·.name == n)).map (Entry.strip wm))).Perm
      ((A.filter (fun e => pred e.name)).map (Entry.strip wm)) := by
  refine ((hp.filter pred).filterMap _).trans ?_
  rw [List.filter_map, List.filterMap_map]
  have : ∀ e ∈ A.filter (pred ∘ fun e => e.name),
      ((fun n => (A.find? (·.name == n)).map (Entry.strip wm)) ∘ fun e => e.name) e = (some ∘ Entry.strip wm) e := by
    intro e he
    have hm := (List.mem_filter.mp he).1
    simp only [Function.comp, find?_of_mem hA hm, Option.map_some]
  rw [filterMap_congr' this, List.filterMap_eq_map]
  exact List.Perm.refl _

/-! ### literal prefixes -/

theorem take_beq_eq_isPrefixOf (p n : Str) : (n.take p.length == p) = p.isPrefixOf n := by
  induction p generalizing n with
  | nil => simp
  | cons a p ih =>
    cases n with
    | nil => simp [List.isPrefixOf]
    | cons b n =>
      simp only [List.length_cons, List.take_succ_cons, List.isPrefixOf]
      rw [← ih n]
      by_cases h : b = a
      · subst h; simp
      · have h' : ¬ a = b := fun e => h e.symm
        have e1 : (b == a) = false := by simpa using h
        have e2 : (a == b) = false := by simpa using h'
        rw [List.cons_beq_cons, e1, e2]

/-! ### counting: `HAVING COUNT(metadata) = len(tags)` -/

/-- For duplicate-free `P` and `T`: the members of `T` that occur in `P` number `P.length` exactly when all
    of `P` occurs in `T`. -/
theorem count_eq_length_iff {P T : Tags} (hP : P.Nodup) (hT : T.Nodup) :
    (T.filter (P.contains ·)).length = P.length ↔ P.all (T.contains ·) = true := by
  have hperm : (T.filter (P.contains ·)).Perm (P.filter (T.contains ·)) := by
    rw [List.perm_ext_iff_of_nodup (List.Pairwise.filter _ hT) (List.Pairwise.filter _ hP)]
    intro a
    simp only [List.mem_filter, List.contains_iff_mem]
    exact ⟨fun h => ⟨h.2, h.1⟩, fun h => ⟨h.2, h.1⟩⟩
  rw [hperm.length_eq, List.length_filter_eq_length_iff, List.all_eq_true]

end Pyro.NS
