/-
  NSRefine.lean — the generic half of the C14 refinement:
   * results are compared up to the order of dict listings (`Res.Equiv`);
   * the abstract operations preserve the map invariant and respect permutation of the representation;
   * `StoreOK`: what a storage back-end must guarantee, method by method;
   * `ns_step_refines`: over any such back-end every `NameServer` operation either fails with a storage
     error leaving the represented map untouched, or answers as the abstract map does and moves the
     represented map accordingly.
-/
import PyroModel.NameServer
import PyroProofs.NSLists

namespace Pyro.NS

/-- equal, or both listings with the same entries in a different order -/
def Res.Equiv (r r' : Res) : Prop := r = r' ∨ ∃ a b, r = .listing a ∧ r' = .listing b ∧ a.Perm b

theorem Res.Equiv.rfl' (r : Res) : Res.Equiv r r := .inl rfl

theorem Res.Equiv.of_perm {a b : List Entry} (p : a.Perm b) : Res.Equiv (.listing a) (.listing b) :=
  .inr ⟨a, b, rfl, rfl, p⟩

theorem Res.Equiv.trans {a b c : Res} (h1 : Res.Equiv a b) (h2 : Res.Equiv b c) : Res.Equiv a c := by
  rcases h1 with rfl | ⟨x, y, rfl, rfl, p⟩
  · exact h2
  · rcases h2 with rfl | ⟨x', y', h, rfl, p'⟩
    · exact .of_perm p
    · cases h; exact .of_perm (p.trans p')

theorem Res.Equiv.symm {a b : Res} (h : Res.Equiv a b) : Res.Equiv b a := by
  rcases h with rfl | ⟨x, y, rfl, rfl, p⟩
  · exact .inl rfl
  · exact .of_perm p.symm

/-! ### the abstract operations keep the invariant -/

theorem storedTags_nodup (md : MetaArg) : (storedTags md).Nodup := by
  unfold storedTags; split
  · exact nodup_dedup _
  · exact List.nodup_nil

theorem SpecInv.put {s : Spec} (h : SpecInv s) {e : Entry} (he : e.tags.Nodup) : SpecInv (s.put e) := by
  constructor
  · unfold Spec.put NodupKeys
    rw [List.pairwise_append]
    refine ⟨h.1.filter _, List.pairwise_singleton _ _, ?_⟩
    intro a ha b hb
    have := (List.mem_filter.mp ha).2
    rw [List.mem_singleton.mp hb]
    simpa using this
  · intro a ha
    rcases List.mem_append.mp ha with h1 | h1
    · exact h.2 a (List.mem_filter.mp h1).1
    · rw [List.mem_singleton.mp h1]; exact he

theorem SpecInv.drop {s : Spec} (h : SpecInv s) (v : Str → Bool) : SpecInv (s.drop v) := h.filter _

theorem specStep_inv (env : Env) (op : Op) {s : Spec} (h : SpecInv s) : SpecInv (specStep env op s).2 := by
  cases op with
  | count => exact h
  | lookup n wm =>
    simp only [specStep]
    split
    · exact h
    · split <;> exact h
  | register n u safe md =>
    simp only [specStep]
    split; · exact h
    split; · exact h
    split; · exact h
    exact h.put (storedTags_nodup md)
  | setMeta n md =>
    simp only [specStep]
    split; · exact h
    split; · exact h
    exact h.put (storedTags_nodup md)
  | remove name pfx regex =>
    simp only [specStep]
    split
    · simp only; exact h.drop _
    · split
      · simp only [specRemoveWhere]; exact h.drop _
      · split
        · split
          · simp only [specRemoveWhere]; exact h.drop _
          · exact h
        · exact h
  | list pfx regex wm =>
    simp only [specStep]
    split <;> try exact h
    split <;> exact h
  | yplookup all any wm =>
    simp only [specStep]
    split; · exact h
    split; · split <;> exact h
    split; · split <;> exact h
    exact h

/-! ### the abstract operations do not depend on the order of the representation -/

theorem Spec.put_perm {s s' : Spec} (p : s.Perm s') (e : Entry) : (s.put e).Perm (s'.put e) :=
  (p.filter _).append_right _

theorem Spec.drop_perm {s s' : Spec} (p : s.Perm s') (v : Str → Bool) : (s.drop v).Perm (s'.drop v) :=
  p.filter _

theorem Spec.select_perm {s s' : Spec} (p : s.Perm s') (q : Entry → Bool) (wm : Bool) :
    (s.select q wm).Perm (s'.select q wm) := (p.filter _).map _

theorem specRemoveWhere_congr {s s' : Spec} (p : s.Perm s') (m : Str → Bool) :
    (specRemoveWhere m s).1 = (specRemoveWhere m s').1 ∧ (specRemoveWhere m s).2.Perm (specRemoveWhere m s').2 := by
  unfold specRemoveWhere
  simp only
  exact ⟨by rw [(p.filter _).length_eq], Spec.drop_perm p _⟩

theorem specStep_congr (env : Env) (op : Op) {s s' : Spec} (p : s.Perm s') (h : SpecInv s) :
    Res.Equiv (specStep env op s).1 (specStep env op s').1 ∧ (specStep env op s).2.Perm (specStep env op s').2 := by
  have hget : ∀ n, Spec.get s' n = Spec.get s n := fun n => (find?_perm h.1 p n).symm
  have hhas : ∀ n, Spec.has s' n = Spec.has s n := fun n => (List.Perm.any_eq p).symm
  cases op with
  | count => exact ⟨by simp only [specStep, p.length_eq]; exact .rfl' _, p⟩
  | lookup n wm =>
    simp only [specStep, hget]
    split
    · exact ⟨.rfl' _, p⟩
    · split <;> exact ⟨.rfl' _, p⟩
  | register n u safe md =>
    simp only [specStep, hhas]
    split; · exact ⟨.rfl' _, p⟩
    split; · exact ⟨.rfl' _, p⟩
    split; · exact ⟨.rfl' _, p⟩
    exact ⟨.rfl' _, Spec.put_perm p _⟩
  | setMeta n md =>
    simp only [specStep, hget]
    split; · exact ⟨.rfl' _, p⟩
    split; · exact ⟨.rfl' _, p⟩
    exact ⟨.rfl' _, Spec.put_perm p _⟩
  | remove name pfx regex =>
    have hv : s'.nameVictim name = s.nameVictim name := by simp only [Spec.nameVictim, hhas]
    simp only [specStep, hv]
    split
    · exact ⟨.rfl' _, by simp only; exact Spec.drop_perm p _⟩
    · split
      · exact ⟨.inl (specRemoveWhere_congr p _).1, (specRemoveWhere_congr p _).2⟩
      · split
        · split
          · exact ⟨.inl (specRemoveWhere_congr p _).1, (specRemoveWhere_congr p _).2⟩
          · exact ⟨.rfl' _, p⟩
        · exact ⟨.rfl' _, p⟩
  | list pfx regex wm =>
    simp only [specStep]
    split
    · exact ⟨.rfl' _, p⟩
    · exact ⟨.of_perm (Spec.select_perm p _ _), p⟩
    · split
      · exact ⟨.of_perm (Spec.select_perm p _ _), p⟩
      · exact ⟨.rfl' _, p⟩
    · exact ⟨.of_perm (Spec.select_perm p _ _), p⟩
  | yplookup all any wm =>
    simp only [specStep]
    split; · exact ⟨.rfl' _, p⟩
    split
    · split
      · exact ⟨.rfl' _, p⟩
      · exact ⟨.of_perm (Spec.select_perm p _ _), p⟩
    split
    · split
      · exact ⟨.rfl' _, p⟩
      · exact ⟨.of_perm (Spec.select_perm p _ _), p⟩
    exact ⟨.rfl' _, p⟩

/-! ### what a back-end has to guarantee -/

section
variable {σ : Type} (abs : σ → List Entry) (inv : σ → Prop) (F : Prop)

/-- a read-only storage method: the represented map is untouched, a delivered value is `good`;
    `F` says whether storage statements can fail at all -/
def RO {α : Type} (s : σ) (out : Option α × σ) (good : α → Prop) : Prop :=
  abs out.2 = abs s ∧ inv out.2 ∧ (out.1 = none → F) ∧ ∀ a, out.1 = some a → good a

/-- a mutating storage method: on failure the represented map is untouched, else it is `good` -/
def MU {α : Type} (s : σ) (out : Option α × σ) (good : α → List Entry → Prop) : Prop :=
  inv out.2 ∧ (out.1 = none → F ∧ abs out.2 = abs s) ∧ ∀ a, out.1 = some a → good a (abs out.2)

structure StoreOK (S : Store σ) : Prop where
  len : ∀ s, inv s → SpecInv (abs s) → RO abs inv F s (S.len s) (fun n => n = (abs s).length)
  contains : ∀ n s, inv s → SpecInv (abs s) → RO abs inv F s (S.contains n s) (fun b => b = (abs s).any (·.name == n))
  getItem : ∀ n s, inv s → SpecInv (abs s) → RO abs inv F s (S.getItem n s) (fun o => o = (abs s).find? (·.name == n))
  iter : ∀ s, inv s → SpecInv (abs s) → RO abs inv F s (S.iter s) (fun l => l.Perm ((abs s).map (·.name)))
  optPrefix : ∀ p wm s, inv s → SpecInv (abs s) →
    RO abs inv F s (S.optPrefix p wm s) (fun o => ∀ l, o = some l → l.Perm (Spec.select (abs s) (fun e => p.isPrefixOf e.name) wm))
  optRegex : ∀ r wm s, inv s → SpecInv (abs s) → RO abs inv F s (S.optRegex r wm s) (fun o => o = none)
  optMeta : ∀ all ts wm s, inv s → SpecInv (abs s) → ts ≠ [] →
    RO abs inv F s (S.optMeta all ts wm s)
      (fun o => ∀ l, o = some l → l.Perm (Spec.select (abs s) (if all then hasAll ts else hasAny ts) wm))
  everything : ∀ wm s, inv s → SpecInv (abs s) →
    RO abs inv F s (S.everything wm s) (fun l => l.Perm ((abs s).map (Entry.strip wm)))
  setItem : ∀ n u t s, inv s → SpecInv (abs s) → t.Nodup →
    MU abs inv F s (S.setItem n u t s) (fun _ l => l.Perm (Spec.put (abs s) ⟨n, u, t⟩))
  delItem : ∀ n s, inv s → SpecInv (abs s) →
    MU abs inv F s (S.delItem n s) (fun b l => ((abs s).any (·.name == n) = true → b = true) ∧ l.Perm ((abs s).filter (fun e => !(e.name == n))))
  removeItems : ∀ items s, inv s → SpecInv (abs s) →
    MU abs inv F s (S.removeItems items s) (fun _ l => l.Perm ((abs s).filter (fun e => !items.contains e.name)))

/-- outcome of a read-only stretch started on the map `A`: map untouched; storage error or the answer `r` -/
def GoodRO (A : List Entry) (r : Res) (out : Res × σ) : Prop :=
  inv out.2 ∧ abs out.2 = A ∧ ((F ∧ out.1 = .err .storage) ∨ Res.Equiv out.1 r)

/-- outcome of a whole operation started on the map `A` whose abstract outcome is `t` -/
def Good (A : List Entry) (t : Res × Spec) (out : Res × σ) : Prop :=
  inv out.2 ∧ ((F ∧ out.1 = .err .storage ∧ abs out.2 = A) ∨ (Res.Equiv out.1 t.1 ∧ (abs out.2).Perm t.2))

variable {abs inv F}

theorem GoodRO.good {A : List Entry} {r : Res} {out : Res × σ} (h : GoodRO abs inv F A r out) :
    Good abs inv F A (r, A) out := by
  obtain ⟨h1, h2, h3⟩ := h
  refine ⟨h1, ?_⟩
  rcases h3 with h3 | h3
  · exact .inl ⟨h3.1, h3.2, h2⟩
  · exact .inr ⟨h3, by rw [h2]⟩

theorem call_roro {α : Type} {m : σ → Option α × σ} {k : α → σ → Res × σ} {s : σ} {good : α → Prop}
    {A : List Entry} {r : Res} (h : RO abs inv F s (m s) good) (hA : abs s = A)
    (hk : ∀ a s1, good a → abs s1 = A → inv s1 → GoodRO abs inv F A r (k a s1)) :
    GoodRO abs inv F A r (call m k s) := by
  unfold call
  obtain ⟨h1, h2, hF, h3⟩ := h
  rcases hm : m s with ⟨o, s1⟩
  rw [hm] at h1 h2 h3 hF
  cases o with
  | none => exact ⟨h2, h1.trans hA, .inl ⟨hF rfl, rfl⟩⟩
  | some a => exact hk a s1 (h3 a rfl) (h1.trans hA) h2

theorem call_ro {α : Type} {m : σ → Option α × σ} {k : α → σ → Res × σ} {s : σ} {good : α → Prop}
    {A : List Entry} {t : Res × Spec} (h : RO abs inv F s (m s) good) (hA : abs s = A)
    (hk : ∀ a s1, good a → abs s1 = A → inv s1 → Good abs inv F A t (k a s1)) :
    Good abs inv F A t (call m k s) := by
  unfold call
  obtain ⟨h1, h2, hF, h3⟩ := h
  rcases hm : m s with ⟨o, s1⟩
  rw [hm] at h1 h2 h3 hF
  cases o with
  | none => exact ⟨h2, .inl ⟨hF rfl, rfl, h1.trans hA⟩⟩
  | some a => exact hk a s1 (h3 a rfl) (h1.trans hA) h2

theorem call_mu {α : Type} {m : σ → Option α × σ} {k : α → σ → Res × σ} {s : σ} {good : α → List Entry → Prop}
    {A : List Entry} {t : Res × Spec} (h : MU abs inv F s (m s) good) (hA : abs s = A)
    (hk : ∀ a s1, good a (abs s1) → inv s1 → Good abs inv F A t (k a s1)) :
    Good abs inv F A t (call m k s) := by
  unfold call
  obtain ⟨h1, h2, h3⟩ := h
  rcases hm : m s with ⟨o, s1⟩
  rw [hm] at h1 h2 h3
  cases o with
  | none => exact ⟨h1, .inl ⟨(h2 rfl).1, rfl, (h2 rfl).2.trans hA⟩⟩
  | some a => exact hk a s1 (h3 a rfl) h1

/-! ### the listing loop and `NameServer.list` -/

theorem collect_good {S : Store σ} (ok : StoreOK abs inv F S) (pred : Str → Bool) (wm : Bool)
    {A : List Entry} (hA : SpecInv A) :
    ∀ (names : List Str) (s : σ), abs s = A → inv s → (∀ n ∈ names, ∃ e ∈ A, e.name = n) →
      inv (collect S pred wm names s).2 ∧ abs (collect S pred wm names s).2 = A ∧
      ((F ∧ (collect S pred wm names s).1 = .err .storage) ∨
       (collect S pred wm names s).1 =
         .listing ((names.filter pred).filterMap fun n => (A.find? (·.name == n)).map (Entry.strip wm))) := by
  intro names
  induction names with
  | nil => intro s hs hi _; exact ⟨hi, hs, .inr rfl⟩
  | cons n ns ih =>
    intro s hs hi hall
    have hall' : ∀ m ∈ ns, ∃ e ∈ A, e.name = m := fun m hm => hall m (List.mem_cons_of_mem _ hm)
    unfold collect
    by_cases hp : pred n = true
    · rw [if_pos hp]
      obtain ⟨e, heA, hen⟩ := hall n (List.mem_cons_self ..)
      have hfind : A.find? (·.name == n) = some e := by rw [← hen]; exact find?_of_mem hA.1 heA
      obtain ⟨h1, h2, hF, h3⟩ := ok.getItem n s hi (hs ▸ hA)
      rcases hm : S.getItem n s with ⟨o, s1⟩
      rw [hm] at h1 h2 h3 hF
      cases o with
      | none => exact ⟨h2, h1.trans hs, .inl ⟨hF rfl, rfl⟩⟩
      | some o =>
        have := h3 o rfl
        rw [hs, hfind] at this
        subst this
        simp only
        obtain ⟨i1, i2, i3⟩ := ih s1 (h1.trans hs) h2 hall'
        rcases hc : collect S pred wm ns s1 with ⟨r, s2⟩
        rw [hc] at i1 i2 i3
        rcases i3 with ⟨iF, i3⟩ | i3
        · simp only at i3; subst i3; exact ⟨i1, i2, .inl ⟨iF, rfl⟩⟩
        · simp only at i3; subst i3
          refine ⟨i1, i2, .inr ?_⟩
          simp only [List.filter_cons, hp, if_true, List.filterMap_cons, hfind, Option.map_some]
    · rw [if_neg hp]
      obtain ⟨i1, i2, i3⟩ := ih s hs hi hall'
      refine ⟨i1, i2, ?_⟩
      rcases i3 with i3 | i3
      · exact .inl i3
      · refine .inr ?_
        rw [i3]
        simp only [List.filter_cons, hp, if_false, Bool.false_eq_true]

/-- the generic loop `iter` + `collect` gives the abstract selection -/
theorem loop_good {S : Store σ} (ok : StoreOK abs inv F S) (pred : Str → Bool) (wm : Bool)
    {A : List Entry} (hA : SpecInv A) (s : σ) (hs : abs s = A) (hi : inv s) :
    GoodRO abs inv F A (.listing (Spec.select A (fun e => pred e.name) wm))
      (call S.iter (fun names s2 => collect S pred wm names s2) s) := by
  refine call_roro (ok.iter s hi (hs ▸ hA)) hs ?_
  intro names s1 hn hs1 hi1
  rw [hs] at hn
  have hall : ∀ n ∈ names, ∃ e ∈ A, e.name = n := by
    intro n hn'
    have := hn.mem_iff.mp hn'
    simpa using this
  obtain ⟨i1, i2, i3⟩ := collect_good ok pred wm hA names s1 hs1 hi1 hall
  refine ⟨i1, i2, ?_⟩
  rcases i3 with i3 | i3
  · exact .inl i3
  · refine .inr ?_
    rw [i3]
    exact .of_perm (collect_pure hA.1 pred wm hn)

theorem truthy?_some {o : Option Str} {p : Str} (h : truthy? o = some p) : truthy? (some p) = some p := by
  unfold truthy? at h
  split at h
  · cases h; rfl
  · cases h

theorem truthy?_none : truthy? Option.none = Option.none := rfl

theorem nsList_good {S : Store σ} (ok : StoreOK abs inv F S) (env : Env) (pfx regex : Option Str) (wm : Bool)
    {A : List Entry} (hA : SpecInv A) (s : σ) (hs : abs s = A) (hi : inv s) :
    GoodRO abs inv F A (specStep env (.list pfx regex wm) A).1 (nsList S env pfx regex wm s) := by
  unfold nsList
  simp only [specStep]
  split
  · exact ⟨hi, hs, .inr (.rfl' _)⟩
  · -- prefix
    refine call_roro (ok.optPrefix _ wm s hi (hs ▸ hA)) hs ?_
    intro o s1 ho hs1 hi1
    cases o with
    | some l => exact ⟨hi1, hs1, .inr (.of_perm (hs ▸ ho l rfl))⟩
    | none => exact loop_good ok _ wm hA s1 hs1 hi1
  · -- regex
    refine call_roro (ok.optRegex _ wm s hi (hs ▸ hA)) hs ?_
    intro o s1 ho hs1 hi1
    subst ho
    simp only
    split
    · exact loop_good ok _ wm hA s1 hs1 hi1
    · exact ⟨hi1, hs1, .inr (.rfl' _)⟩
  · refine call_roro (ok.everything wm s hi (hs ▸ hA)) hs ?_
    intro l s1 hl hs1 hi1
    refine ⟨hi1, hs1, .inr (.of_perm ?_)⟩
    rw [hs] at hl
    have : A.filter (fun _ => true) = A := List.filter_eq_self.mpr (fun _ _ => rfl)
    simpa [Spec.select, this] using hl

/-! ### removal of a listed set -/

theorem mem_items_iff {A l : List Entry} {q : Entry → Bool} (hl : l.Perm (Spec.select A q false))
    (hq : ∀ e e' : Entry, e.name = e'.name → q e = q e') {e : Entry} (he : e ∈ A) :
    ((l.map (·.name)).filter (· != nsName)).contains e.name = (q e && e.name != nsName) := by
  rw [Bool.eq_iff_iff, List.contains_iff_mem, List.mem_filter, List.mem_map, Bool.and_eq_true]
  constructor
  · rintro ⟨⟨e', he', hn⟩, h2⟩
    refine ⟨?_, h2⟩
    have := hl.mem_iff.mp he'
    simp only [Spec.select, List.mem_map, List.mem_filter] at this
    obtain ⟨e'', ⟨_, hq''⟩, rfl⟩ := this
    rw [strip_name] at hn
    rw [← hq e'' e hn]; exact hq''
  · rintro ⟨h1, h2⟩
    refine ⟨⟨e.strip false, ?_, strip_name _ _⟩, h2⟩
    apply hl.mem_iff.mpr
    simp only [Spec.select, List.mem_map, List.mem_filter]
    exact ⟨e, ⟨he, h1⟩, rfl⟩

theorem items_length {A l : List Entry} {q : Entry → Bool} (hl : l.Perm (Spec.select A q false)) :
    ((l.map (·.name)).filter (· != nsName)).length = (A.filter (fun e => q e && e.name != nsName)).length := by
  have h1 : ((l.map (·.name)).filter (· != nsName)).Perm ((((A.filter q).map (Entry.strip false)).map (·.name)).filter (· != nsName)) :=
    ((hl.map _).filter _)
  rw [h1.length_eq, List.map_map, List.filter_map, List.length_map, List.filter_filter]
  congr 1
  apply List.filter_congr
  intro x _
  simp only [Function.comp, strip_name, Bool.and_comm]

theorem Res.Equiv.listing_right {r : Res} {b : List Entry} (h : Res.Equiv r (.listing b)) :
    ∃ a, r = .listing a ∧ a.Perm b := by
  rcases h with rfl | ⟨a, b', rfl, hb, hab⟩
  · exact ⟨b, rfl, .refl _⟩
  · cases hb; exact ⟨a, rfl, hab⟩

theorem Res.Equiv.err_right {r : Res} {e : Err} (h : Res.Equiv r (.err e)) : r = .err e := by
  rcases h with rfl | ⟨a, b', rfl, hb, hab⟩
  · rfl
  · cases hb

theorem removeItems_good {S : Store σ} (ok : StoreOK abs inv F S) {A : List Entry} (hA : SpecInv A)
    (q : Str → Bool) {l : List Entry} (hl : l.Perm (Spec.select A (fun e => q e.name) false))
    (s1 : σ) (hs1 : abs s1 = A) (hi1 : inv s1) :
    Good abs inv F A (specRemoveWhere q A)
      (call (S.removeItems ((l.map (·.name)).filter (· != nsName)))
        (fun _ s2 => (Res.num ((l.map (·.name)).filter (· != nsName)).length, s2)) s1) := by
  refine call_mu (ok.removeItems _ s1 hi1 (hs1 ▸ hA)) hs1 ?_
  intro _ s2 hg hi2
  refine ⟨hi2, .inr ⟨?_, ?_⟩⟩
  · unfold specRemoveWhere
    simp only
    rw [items_length hl]
    exact .rfl' _
  · refine hg.trans ?_
    unfold specRemoveWhere Spec.drop
    simp only
    rw [hs1]
    have : ∀ e ∈ A, (!((l.map (·.name)).filter (· != nsName)).contains e.name)
        = !(q e.name && e.name != nsName) := by
      intro e he
      rw [mem_items_iff hl (fun e e' h => by simp only [h]) he]
    rw [List.filter_congr this]

theorem nsRemoveListed_listing {S : Store σ} (ok : StoreOK abs inv F S) (env : Env) (pfx regex : Option Str)
    {A : List Entry} (hA : SpecInv A) (s : σ) (hs : abs s = A) (hi : inv s) (q : Str → Bool)
    (hspec : (specStep env (.list pfx regex false) A).1 = .listing (Spec.select A (fun e => q e.name) false)) :
    Good abs inv F A (specRemoveWhere q A) (nsRemoveListed S env pfx regex s) := by
  unfold nsRemoveListed
  obtain ⟨i1, i2, i3⟩ := nsList_good ok env pfx regex false hA s hs hi
  rcases hc : nsList S env pfx regex false s with ⟨r, s1⟩
  rw [hc] at i1 i2 i3
  simp only at i1 i2 i3
  rcases i3 with ⟨iF, rfl⟩ | i3
  · exact ⟨i1, .inl ⟨iF, rfl, i2⟩⟩
  · rw [hspec] at i3
    obtain ⟨a, rfl, ha⟩ := i3.listing_right
    exact removeItems_good ok hA q ha s1 i2 i1

theorem nsRemoveListed_err {S : Store σ} (ok : StoreOK abs inv F S) (env : Env) (pfx regex : Option Str)
    {A : List Entry} (hA : SpecInv A) (s : σ) (hs : abs s = A) (hi : inv s) (e : Err)
    (hspec : (specStep env (.list pfx regex false) A).1 = .err e) :
    Good abs inv F A (.err e, A) (nsRemoveListed S env pfx regex s) := by
  unfold nsRemoveListed
  obtain ⟨i1, i2, i3⟩ := nsList_good ok env pfx regex false hA s hs hi
  rcases hc : nsList S env pfx regex false s with ⟨r, s1⟩
  rw [hc] at i1 i2 i3
  simp only at i1 i2 i3
  rcases i3 with ⟨iF, rfl⟩ | i3
  · exact ⟨i1, .inl ⟨iF, rfl, i2⟩⟩
  · rw [hspec] at i3
    rw [i3.err_right]
    exact ⟨i1, .inr ⟨.rfl' _, by rw [i2]⟩⟩

/-! ### yplookup -/

theorem nsYp_good {S : Store σ} (ok : StoreOK abs inv F S) (all : Bool) (arg : MetaArg) (wm : Bool)
    {A : List Entry} (hA : SpecInv A) (s : σ) (hs : abs s = A) (hi : inv s) (ht : arg.truthy = true) :
    GoodRO abs inv F A
      (if arg.isStr then .err .type
       else .listing (Spec.select A (if all then hasAll arg.tags else hasAny arg.tags) wm))
      (nsYp S all arg wm s) := by
  unfold nsYp
  by_cases hstr : arg.isStr = true
  · rw [if_pos hstr, if_pos hstr]; exact ⟨hi, hs, .inr (.rfl' _)⟩
  · rw [if_neg hstr, if_neg hstr]
    have hne : arg.tags ≠ [] := by
      cases arg with
      | none => cases ht
      | str b => simp [MetaArg.isStr] at hstr
      | list l => cases l <;> simp_all [MetaArg.truthy, MetaArg.tags]
    refine call_roro (ok.optMeta all arg.tags wm s hi (hs ▸ hA) hne) hs ?_
    intro o s1 ho hs1 hi1
    cases o with
    | some l => exact ⟨hi1, hs1, .inr (.of_perm (hs ▸ ho l rfl))⟩
    | none =>
      refine call_roro (ok.everything true s1 hi1 (hs1 ▸ hA)) hs1 ?_
      intro l s2 hl hs2 hi2
      refine ⟨hi2, hs2, .inr (.of_perm ?_)⟩
      rw [hs1, map_strip_true] at hl
      exact (hl.filter _).map _

/-! ### every operation -/

theorem ns_step_refines {S : Store σ} (ok : StoreOK abs inv F S) (env : Env) (op : Op) (s : σ)
    (hi : inv s) (hs : SpecInv (abs s)) :
    Good abs inv F (abs s) (specStep env op (abs s)) (nsStep S env op s) := by
  cases op with
  | count =>
    simp only [nsStep, specStep]
    refine call_ro (ok.len s hi hs) rfl ?_
    intro n s1 hn hs1 hi1
    subst hn
    exact ⟨hi1, .inr ⟨.rfl' _, by rw [hs1]⟩⟩
  | lookup n wm =>
    simp only [nsStep, specStep, Spec.get]
    refine call_ro (ok.getItem n s hi hs) rfl ?_
    intro o s1 ho hs1 hi1
    subst ho
    cases (abs s).find? (·.name == n) with
    | none => exact ⟨hi1, .inr ⟨.rfl' _, by rw [hs1]⟩⟩
    | some e =>
      simp only
      split <;> exact ⟨hi1, .inr ⟨.rfl' _, by rw [hs1]⟩⟩
  | register n u safe md =>
    simp only [nsStep, specStep]
    split
    · exact ⟨hi, .inr ⟨.rfl' _, .refl _⟩⟩
    split
    · exact ⟨hi, .inr ⟨.rfl' _, .refl _⟩⟩
    cases safe with
    | true =>
      simp only [if_true, Bool.true_and, Spec.has]
      refine call_ro (ok.contains n s hi hs) rfl ?_
      intro b s1 hb hs1 hi1
      subst hb
      split
      · exact ⟨hi1, .inr ⟨.rfl' _, by rw [hs1]⟩⟩
      · refine call_mu (ok.setItem n u _ s1 hi1 (hs1 ▸ hs) (storedTags_nodup md)) hs1 ?_
        intro _ s2 hg hi2
        exact ⟨hi2, .inr ⟨.rfl' _, hs1 ▸ hg⟩⟩
    | false =>
      simp only [Bool.false_eq_true, if_false, Bool.false_and]
      refine call_mu (ok.setItem n u _ s hi hs (storedTags_nodup md)) rfl ?_
      intro _ s2 hg hi2
      exact ⟨hi2, .inr ⟨.rfl' _, hg⟩⟩
  | setMeta n md =>
    simp only [nsStep, specStep, Spec.get]
    split
    · exact ⟨hi, .inr ⟨.rfl' _, .refl _⟩⟩
    refine call_ro (ok.getItem n s hi hs) rfl ?_
    intro o s1 ho hs1 hi1
    subst ho
    cases (abs s).find? (·.name == n) with
    | none => exact ⟨hi1, .inr ⟨.rfl' _, by rw [hs1]⟩⟩
    | some e =>
      simp only
      refine call_mu (ok.setItem n e.uri _ s1 hi1 (hs1 ▸ hs) (storedTags_nodup md)) hs1 ?_
      intro _ s2 hg hi2
      exact ⟨hi2, .inr ⟨.rfl' _, hs1 ▸ hg⟩⟩
  | remove name pfx regex =>
    -- the prefix / regex tail, from any state representing the same map
    have rest : ∀ s1, abs s1 = abs s → inv s1 →
        Good abs inv F (abs s)
          (match truthy? pfx with
           | some p => specRemoveWhere (fun n => p.isPrefixOf n) (abs s)
           | Option.none =>
             match truthy? regex with
             | some r => if env.reOk r then specRemoveWhere (env.reMatch r) (abs s) else (.err .naming, abs s)
             | Option.none => (.num 0, abs s))
          (match truthy? pfx with
           | some p => nsRemoveListed S env (some p) Option.none s1
           | Option.none =>
             match truthy? regex with
             | some r => nsRemoveListed S env Option.none (some r) s1
             | Option.none => (.num 0, s1)) := by
      intro s1 hs1 hi1
      cases hp : truthy? pfx with
      | some p =>
        simp only
        refine nsRemoveListed_listing ok env (some p) Option.none hs s1 hs1 hi1 _ ?_
        simp only [specStep, truthy?_some hp, truthy?_none]
      | none =>
        simp only
        cases hr : truthy? regex with
        | some r =>
          simp only
          by_cases hok : env.reOk r = true
          · rw [if_pos hok]
            refine nsRemoveListed_listing ok env Option.none (some r) hs s1 hs1 hi1 _ ?_
            simp only [specStep, truthy?_some hr, truthy?_none, hok, if_true]
          · rw [if_neg hok]
            refine nsRemoveListed_err ok env Option.none (some r) hs s1 hs1 hi1 .naming ?_
            simp only [specStep, truthy?_some hr, truthy?_none, hok]
            rfl
        | none => exact ⟨hi1, .inr ⟨.rfl' _, by rw [hs1]⟩⟩
    simp only [nsStep, specStep, Spec.nameVictim]
    cases hn : truthy? name with
    | none => exact rest s rfl hi
    | some n =>
      simp only
      refine call_ro (ok.contains n s hi hs) rfl ?_
      intro b s1 hb hs1 hi1
      have hb' : b = Spec.has (abs s) n := hb
      subst hb'
      by_cases hc : (Spec.has (abs s) n && n != nsName) = true
      · rw [if_pos hc, if_pos hc]
        simp only
        refine call_mu (ok.delItem n s1 hi1 (hs1 ▸ hs)) hs1 ?_
        intro b s2 hg hi2
        rw [hs1] at hg
        have hb : b = true := hg.1 ((Bool.and_eq_true _ _).mp hc).1
        subst hb
        exact ⟨hi2, .inr ⟨.rfl' _, hg.2⟩⟩
      · rw [if_neg hc, if_neg hc]
        exact rest s1 hs1 hi1
  | list pfx regex wm =>
    simp only [nsStep]
    have := (nsList_good ok env pfx regex wm hs s rfl hi).good
    have h2 : (specStep env (.list pfx regex wm) (abs s)).2 = abs s := by
      simp only [specStep]
      split <;> try rfl
      split <;> rfl
    have h3 : specStep env (.list pfx regex wm) (abs s) = ((specStep env (.list pfx regex wm) (abs s)).1, abs s) := by
      exact Prod.ext rfl h2
    rw [h3]
    exact this
  | yplookup all any wm =>
    simp only [nsStep, specStep]
    split
    · exact ⟨hi, .inr ⟨.rfl' _, .refl _⟩⟩
    split
    · rename_i h1 h2
      have := (nsYp_good ok true all wm hs s rfl hi h2).good
      simp only [if_true] at this
      split <;> simp_all
    split
    · rename_i h1 h2 h3
      have := (nsYp_good ok false any wm hs s rfl hi h3).good
      simp only [Bool.false_eq_true, if_false] at this
      split <;> simp_all
    · exact ⟨hi, .inr ⟨.rfl' _, .refl _⟩⟩

end

end Pyro.NS
