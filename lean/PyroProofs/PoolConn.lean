/-
  PoolConn: decoding of the connection-life tables obtained by RUNNING the real ClientConnectionJob /
  SocketServer_Threadpool.events on fakes (harness/props/c18_conn.py), and the lemmas about `serve`.
-/
import PyroModel.PoolConn

namespace Pyro.PoolConn

def hsOf : Nat → Option Hs
  | 0 => some .ok | 1 => some .refused | 2 => some .raises | _ => none

def reqOf : Nat → Option Req
  | 0 => some .served | 1 => some .connClosed | 2 => some .sockError | 3 => some .security
  | 4 => some .timeout | 5 => some .otherError | _ => none

/-- job row: [[handshake outcome, hook raises, COMMTIMEOUT set, something came out of __call__], requests, observed effects] -/
def checkJobRow : List (List Nat) → Bool
  | [[hs, hook, _ct, raised], reqs, trace] =>
    match hsOf hs, reqs.mapM reqOf with
    | some h, some rs =>
      let p := jobCall h rs (hook != 0)
      raised == 0 && p.2 == false && p.1.map Eff.code == trace
    | _, _ => false
  | _ => false

/-- deny row: [[refusing handshake raises, COMMTIMEOUT set, something came out], [], observed effects] -/
def checkDenyRow : List (List Nat) → Bool
  | [[r, _ct, raised], [], trace] => raised == 0 && (deny (r != 0)).map Eff.code == trace
  | _ => false

/-- accept row: [[COMMTIMEOUT set, pool full, refusing handshake raises, something came out,
    the socket had its timeout when the refusing handshake started to read], [], observed effects] -/
def checkAcceptRow : List (List Nat) → Bool
  | [[ct, full, r, raised, tOk], [], trace] =>
    raised == 0 && tOk == 1 && (acceptStep (ct != 0) (full != 0) (r != 0)).map Eff.code == trace
  | _ => false

theorem serve_still (h : Bool) (reqs : List Req) :
    (serve h reqs).2 = true → (∀ r ∈ reqs, r = .served) ∧ Eff.close ∉ (serve h reqs).1 ∧ Eff.hook ∉ (serve h reqs).1 := by
  induction reqs with
  | nil => intro _; simp [serve]
  | cons r rest ih =>
    intro hs
    unfold serve at hs ⊢
    by_cases hr : r = .served
    · rw [if_pos hr] at hs ⊢
      obtain ⟨h1, h2, h3⟩ := ih hs
      refine ⟨?_, ?_, ?_⟩
      · intro x hx; simp only [List.mem_cons] at hx; rcases hx with rfl | hx
        · exact hr
        · exact h1 x hx
      · simp only [List.mem_cons, not_or]; exact ⟨by decide, h2⟩
      · simp only [List.mem_cons, not_or]; exact ⟨by decide, h3⟩
    · rw [if_neg hr] at hs; cases hs

theorem serve_done (h : Bool) (reqs : List Req) :
    (serve h reqs).2 = false →
      (∃ r ∈ reqs, r ≠ .served) ∧ (serve h reqs).1.count .close = 1 ∧ (serve h reqs).1.count .hook = 1 ∧
      (serve h reqs).1.getLast? = some .close ∧
      ∃ pre, (serve h reqs).1 = pre ++ [.hook, .close] ∧ ∀ e ∈ pre, e = .request := by
  induction reqs with
  | nil => intro hs; simp [serve] at hs
  | cons r rest ih =>
    intro hs
    unfold serve at hs ⊢
    by_cases hr : r = .served
    · rw [if_pos hr] at hs ⊢
      obtain ⟨⟨x, hx, hne⟩, h2, h3, h4, pre, h5, h6⟩ := ih hs
      refine ⟨⟨x, List.mem_cons_of_mem _ hx, hne⟩, ?_, ?_, ?_, .request :: pre, ?_, ?_⟩
      · simp only [List.count_cons]; rw [h2]; decide
      · simp only [List.count_cons]; rw [h3]; decide
      · show (Eff.request :: (serve h rest).1).getLast? = some .close
        rw [List.getLast?_cons, h4]; rfl
      · show Eff.request :: (serve h rest).1 = Eff.request :: pre ++ [.hook, .close]
        rw [h5]; rfl
      · intro e he; simp only [List.mem_cons] at he; rcases he with rfl | he
        · rfl
        · exact h6 e he
    · rw [if_neg hr]
      refine ⟨⟨r, List.mem_cons_self, hr⟩, by decide, by decide, by decide, [.request], rfl, ?_⟩
      intro e he; simp only [List.mem_singleton] at he; exact he

end Pyro.PoolConn
