/-
  Helper lemmas about `PyroModel.Batch` (used by PyroProps/C11.lean).
  All are for an arbitrary object `o`, state and call list; induction on the call list.
-/
import PyroModel.Batch

namespace Pyro.Batch

variable {St Name Arg Val Exc : Type}

theorem sequential_cons (o : Obj St Name Arg Val Exc) (s : St) (c : Name × Arg) (rest : List (Name × Arg)) :
    sequential o s (c :: rest) =
      match serverCall o s c with
      | (s', .gateErr e) => (s', [], some (.gate e))
      | (s', .raised e) => (s', [], some (.raised e))
      | (s', .ok v) =>
        match sequential o s' rest with
        | (s'', vs, f) => (s'', v :: vs, f) := by
  conv => lhs; unfold sequential
  cases serverCall o s c with
  | mk s' r => cases r <;> rfl

/-- What the server loop must produce, given the sequential outcome and the `data` collected before. -/
def loopOf (data : List (Item Val Exc)) : List Val × Option (Fail Exc) → LoopResult Val Exc
  | (vs, none) => .data (data ++ vs.map .val)
  | (vs, some (.raised e)) => .data (data ++ vs.map .val ++ [.wrapped e])
  | (_, some (.gate e)) => .escaped e

/-- The server loop computes exactly the sequential run: same final state, and the `data` list is the
    sequential values (then the wrapper of the method's exception), or the gate's exception escapes. -/
theorem batchLoop_sequential (o : Obj St Name Arg Val Exc) :
    ∀ (cs : List (Name × Arg)) (s : St) (data : List (Item Val Exc)),
      batchLoop o s cs data = ((sequential o s cs).1, loopOf data (sequential o s cs).2) := by
  intro cs
  induction cs with
  | nil => intro s data; simp [batchLoop, sequential, loopOf]
  | cons c rest ih =>
    intro s data
    obtain ⟨n, a⟩ := c
    unfold batchLoop sequential serverCall
    cases hg : o.gate s n with
    | some e => simp [loopOf]
    | none =>
      simp only
      cases ha : o.apply s n a with
      | mk s' r =>
        cases r with
        | exc e => simp [loopOf]
        | ok v =>
          simp only
          rw [ih s' (data ++ [Item.val v])]
          generalize sequential o s' rest = q
          obtain ⟨s'', vs, f⟩ := q
          cases f with
          | none => simp [loopOf]
          | some f => cases f <;> simp [loopOf]

/-- The results generator yields the leading plain values and then behaves as on the rest. -/
theorem resultsGen_vals (vs : List Val) (rest : List (Item Val Exc)) :
    resultsGen (vs.map Item.val ++ rest) = (vs ++ (resultsGen rest).1, (resultsGen rest).2) := by
  induction vs with
  | nil => simp
  | cons v vs ih => simp [resultsGen, ih]

/-- A sequential run over `pre ++ post` whose `pre` part does not fail continues from the state reached. -/
theorem sequential_append (o : Obj St Name Arg Val Exc) :
    ∀ (pre post : List (Name × Arg)) (s s1 : St) (vs : List Val),
      sequential o s pre = (s1, vs, none) →
      sequential o s (pre ++ post) =
        ((sequential o s1 post).1, vs ++ (sequential o s1 post).2.1, (sequential o s1 post).2.2) := by
  intro pre
  induction pre with
  | nil =>
    intro post s s1 vs h
    simp only [sequential, Prod.mk.injEq] at h
    obtain ⟨rfl, rfl, -⟩ := h
    simp
  | cons c pre ih =>
    intro post s s1 vs h
    simp only [List.cons_append]
    rw [sequential_cons] at h ⊢
    cases hc : serverCall o s c with
    | mk s' r =>
      rw [hc] at h
      cases r with
      | gateErr e => simp at h
      | raised e => simp at h
      | ok v =>
        simp only at h ⊢
        generalize hq : sequential o s' pre = q at h
        obtain ⟨s'', vs', f⟩ := q
        simp only [Prod.mk.injEq] at h
        obtain ⟨rfl, rfl, rfl⟩ := h
        rw [ih post s' s'' vs' hq]
        simp

/-- A sequential run that fails stops there: whatever follows the failing call is irrelevant. -/
theorem sequential_stops (o : Obj St Name Arg Val Exc) (s : St) (c : Name × Arg) (post : List (Name × Arg))
    (h : ∀ v, (serverCall o s c).2 ≠ .ok v) :
    sequential o s (c :: post) = sequential o s [c] := by
  unfold sequential
  cases hc : serverCall o s c with
  | mk s' r =>
    cases r with
    | gateErr e => rfl
    | raised e => rfl
    | ok v => exact absurd (by rw [hc]) (h v)

/-- Number of calls that reached their method in a sequential run over `total` calls: all of them, or
    the ones that returned plus the one whose method raised, or only the ones that returned when the
    gate refused the next name. -/
def ranCount (total : Nat) : List Val × Option (Fail Exc) → Nat
  | (_, none) => total
  | (vs, some (.raised _)) => vs.length + 1
  | (vs, some (.gate _)) => vs.length

@[simp] theorem withLog_gate (o : Obj St Name Arg Val Exc) (s : St) (l : List (Name × Arg)) (n : Name) :
    (withLog o).gate (s, l) n = o.gate s n := rfl

@[simp] theorem withLog_apply (o : Obj St Name Arg Val Exc) (s : St) (l : List (Name × Arg)) (n : Name) (a : Arg) :
    (withLog o).apply (s, l) n a = (((o.apply s n a).1, l ++ [(n, a)]), (o.apply s n a).2) := rfl

/-- Sequential execution on the logging object: the wrapped object runs exactly as before and the log
    grows by a prefix of the calls: all calls that returned, plus the call whose method raised. -/
theorem sequential_withLog (o : Obj St Name Arg Val Exc) :
    ∀ (cs : List (Name × Arg)) (s : St) (l : List (Name × Arg)),
      sequential (withLog o) (s, l) cs =
        (((sequential o s cs).1, l ++ cs.take (ranCount cs.length (sequential o s cs).2)),
         (sequential o s cs).2) := by
  intro cs
  induction cs with
  | nil => intro s l; simp [sequential, ranCount]
  | cons c rest ih =>
    intro s l
    obtain ⟨n, a⟩ := c
    unfold sequential serverCall
    simp only [withLog_gate, withLog_apply]
    cases hg : o.gate s n with
    | some e => simp [ranCount]
    | none =>
      simp only
      cases ha : o.apply s n a with
      | mk s' r =>
        cases r with
        | exc e => simp [ranCount]
        | ok v =>
          simp only
          rw [ih s' (l ++ [(n, a)])]
          generalize sequential o s' rest = q
          obtain ⟨s'', vs, f⟩ := q
          cases f with
          | none => simp [ranCount]
          | some f => cases f <;> simp [ranCount]

/-- The values returned by a sequential run are never more than the calls made, and a failing run
    returned strictly fewer. -/
theorem sequential_length (o : Obj St Name Arg Val Exc) :
    ∀ (cs : List (Name × Arg)) (s : St),
      (sequential o s cs).2.1.length ≤ cs.length ∧
      ((sequential o s cs).2.2 = none → (sequential o s cs).2.1.length = cs.length) ∧
      ((sequential o s cs).2.2 ≠ none → (sequential o s cs).2.1.length < cs.length) := by
  intro cs
  induction cs with
  | nil => intro s; simp [sequential]
  | cons c rest ih =>
    intro s
    unfold sequential
    cases hc : serverCall o s c with
    | mk s' r =>
      cases r with
      | gateErr e => simp
      | raised e => simp
      | ok v =>
        simp only
        have := ih s'
        generalize sequential o s' rest = q at this
        obtain ⟨s'', vs, f⟩ := q
        cases f with
        | none => simp at this ⊢; omega
        | some f => simp at this ⊢; omega

end Pyro.Batch
