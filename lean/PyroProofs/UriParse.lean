/-
  PyroProofs/UriParse.lean — the invariant `Valid` that `URI.__init__` establishes, and the two halves of
  the round trip for the URI model (C19):
    parse_valid  : parse Guards.on p s = .ok u → Valid u
    parse_render : Valid u → OrderOK u π → parse Guards.on p (render u π) = .ok u
-/
import PyroModel.Uri
import PyroProofs.UriLemmas

namespace Pyro.Uri

/-! ### the invariant -/

def NoSpace (t : Text) : Prop := ∀ c ∈ t, isSpace c = false

/-- an object name that the regular expression splits off again: non-empty, no white space, and an `@`
    after the first character only where the pattern cannot take it for the location separator
    (nowhere if a location follows; else only as the very last character) -/
def ObjOK (hasLoc : Bool) (o : Text) : Prop :=
  o ≠ [] ∧ NoSpace o ∧ (if hasLoc = true then 64 ∉ o.tail else 64 ∉ o.tail.dropLast)

def LocOK : Loc → Prop
  | .none => True
  | .sock n => n ≠ [] ∧ 58 ∉ n ∧ 10 ∉ n
  | .tcp h p => h ≠ [] ∧ 10 ∉ h ∧
      (58 ∈ h → (∀ c ∈ h, isV6Char c = true) ∧ 0 ≤ p) ∧
      (58 ∉ h → h ≠ sDotSlashU ∧ h.head? ≠ some 91)

def TagsOK (ts : List Text) : Prop :=
  Sorted ts ∧ ts ≠ [] ∧ ts ≠ [[]] ∧ ∀ t ∈ ts, ∀ c ∈ t, isSpace c = false ∧ c ≠ 44 ∧ c ≠ 64

def Loc.isSome : Loc → Bool
  | .none => false
  | _ => true

/-- what `URI(s)` guarantees about the state it builds (with both guards of fixes/C19-reparse.patch) -/
def Valid (u : Uri) : Prop :=
  LocOK u.loc ∧
  match u.kind with
  | .pyro o => ObjOK true o ∧ u.loc.isSome = true
  | .pyroname o => ObjOK u.loc.isSome o
  | .pyrometa ts => TagsOK ts

/-! ### generic list facts -/

theorem takeWhile_append_stop (p : Nat → Bool) (a : Text) (c : Nat) (r : Text)
    (ha : ∀ x ∈ a, p x = true) (hc : p c = false) : (a ++ c :: r).takeWhile p = a := by
  induction a with
  | nil => simp [hc]
  | cons x xs ih =>
    have hx : p x = true := ha x (by simp)
    simp only [List.cons_append, List.takeWhile, hx]
    rw [ih (fun y hy => ha y (by simp [hy]))]

theorem dropWhile_append_stop (p : Nat → Bool) (a : Text) (c : Nat) (r : Text)
    (ha : ∀ x ∈ a, p x = true) (hc : p c = false) : (a ++ c :: r).dropWhile p = c :: r := by
  induction a with
  | nil => simp [hc]
  | cons x xs ih =>
    have hx : p x = true := ha x (by simp)
    simp only [List.cons_append, List.dropWhile, hx]
    exact ih (fun y hy => ha y (by simp [hy]))

theorem takeWhile_all (p : Nat → Bool) (a : Text) (ha : ∀ x ∈ a, p x = true) : a.takeWhile p = a := by
  induction a with
  | nil => rfl
  | cons x xs ih =>
    have hx : p x = true := ha x (by simp)
    simp only [List.takeWhile, hx]
    rw [ih (fun y hy => ha y (by simp [hy]))]

theorem dropWhile_all (p : Nat → Bool) (a : Text) (ha : ∀ x ∈ a, p x = true) : a.dropWhile p = [] := by
  induction a with
  | nil => rfl
  | cons x xs ih =>
    have hx : p x = true := ha x (by simp)
    simp only [List.dropWhile, hx]
    exact ih (fun y hy => ha y (by simp [hy]))

theorem mem_takeWhile_sat (p : Nat → Bool) : ∀ (l : Text) (x : Nat), x ∈ l.takeWhile p → p x = true ∧ x ∈ l := by
  intro l
  induction l with
  | nil => intro x hx; simp at hx
  | cons c r ih =>
    intro x hx
    by_cases hc : p c = true
    · simp only [List.takeWhile, hc, List.mem_cons] at hx
      cases hx with
      | inl h => subst h; exact ⟨hc, by simp⟩
      | inr h => exact ⟨(ih x h).1, by simp [(ih x h).2]⟩
    · have hc' : p c = false := by simpa using hc
      simp [List.takeWhile, hc'] at hx

theorem nospace_ne_nl (c : Nat) (h : isSpace c = false) : c ≠ 10 := by
  intro e; subst e; simp [isSpace] at h

theorem NoSpace.no_nl {t : Text} (h : NoSpace t) : 10 ∉ t := fun hm => nospace_ne_nl 10 (h 10 hm) rfl

/-! ### `.+$` and the tail of the pattern -/

theorem stripNL_clean (L : Text) (h : 10 ∉ L) : stripNL L = L := by
  unfold stripNL
  by_cases hl : L.getLast? = some 10
  · exact absurd (List.mem_of_getLast? hl) h
  · rw [if_neg hl]

theorem stripNL_concat (L : Text) : stripNL (L ++ [10]) = L := by
  unfold stripNL
  rw [if_pos List.getLast?_concat, List.dropLast_concat]

theorem locBody_clean (L : Text) (hne : L ≠ []) (h : 10 ∉ L) : locBody L = some L := by
  unfold locBody
  rw [stripNL_clean L h, if_pos ⟨hne, h⟩]

theorem locBody_concat_nl (L : Text) (hne : L ≠ []) (h : 10 ∉ L) : locBody (L ++ [10]) = some L := by
  unfold locBody
  rw [stripNL_concat, if_pos ⟨hne, h⟩]

theorem locBody_some (l L : Text) (h : locBody l = some L) :
    L ≠ [] ∧ 10 ∉ L ∧ (l = L ∨ l = L ++ [10]) := by
  unfold locBody at h
  by_cases hc : stripNL l ≠ [] ∧ 10 ∉ stripNL l
  · rw [if_pos hc] at h
    simp only [Option.some.injEq] at h
    subst h
    refine ⟨hc.1, hc.2, ?_⟩
    unfold stripNL
    by_cases hl : l.getLast? = some 10
    · rw [if_pos hl]
      obtain ⟨ys, hys⟩ := List.getLast?_eq_some_iff.mp hl
      right
      rw [hys, List.dropLast_concat]
    · rw [if_neg hl]; exact Or.inl rfl
  · rw [if_neg hc] at h; cases h

/-- a location still matches when LF-free text is put in front of it -/
theorem locBody_prepend (a l L : Text) (ha : 10 ∉ a) (h : locBody l = some L) :
    locBody (a ++ l) = some (a ++ L) := by
  obtain ⟨h1, h2, h3⟩ := locBody_some l L h
  have hne : a ++ L ≠ [] := by simp [h1]
  have hcl : 10 ∉ a ++ L := by simp [ha, h2]
  cases h3 with
  | inl e => rw [e]; exact locBody_clean _ hne hcl
  | inr e => rw [e, ← List.append_assoc]; exact locBody_concat_nl _ hne hcl

theorem tailMatch_some_some (r L : Text) (h : tailMatch r = some (some L)) :
    ∃ l, r = 64 :: l ∧ locBody l = some L := by
  cases r with
  | nil => simp [tailMatch] at h
  | cons c l =>
    simp only [tailMatch] at h
    by_cases hc : c = 64
    · rw [if_pos hc] at h
      cases hb : locBody l with
      | none => rw [hb] at h; simp at h
      | some L' =>
        rw [hb] at h
        simp only [Option.map_some, Option.some.injEq] at h
        exact ⟨l, by rw [hc], by rw [← h]; exact hb⟩
    · rw [if_neg hc] at h
      by_cases hn : c = 10 ∧ l = []
      · rw [if_pos hn] at h; simp at h
      · rw [if_neg hn] at h; cases h

theorem tailMatch_some_none (r : Text) (h : tailMatch r = some none) : r = [] ∨ r = [10] := by
  cases r with
  | nil => exact Or.inl rfl
  | cons c l =>
    simp only [tailMatch] at h
    by_cases hc : c = 64
    · rw [if_pos hc] at h
      cases hb : locBody l with
      | none => rw [hb] at h; simp at h
      | some L' => rw [hb] at h; simp at h
    · rw [if_neg hc] at h
      by_cases hn : c = 10 ∧ l = []
      · exact Or.inr (by rw [hn.1, hn.2])
      · rw [if_neg hn] at h; cases h

/-- after an `@`, white-space-free text followed by an accepted tail is itself an accepted location -/
theorem locBody_before_tail (q rest : Text) (loc : Option Text) (hq : NoSpace q)
    (ht : tailMatch rest = some loc) (hne : q ≠ [] ∨ loc ≠ none) : (locBody (q ++ rest)).isSome = true := by
  cases loc with
  | some L =>
    obtain ⟨l, hr, hb⟩ := tailMatch_some_some rest L ht
    have : q ++ rest = (q ++ [64]) ++ l := by rw [hr]; simp
    rw [this, locBody_prepend (q ++ [64]) l L (by simp [hq.no_nl]) hb]; rfl
  | none =>
    have hq' : q ≠ [] := by
      cases hne with
      | inl h => exact h
      | inr h => exact absurd rfl h
    cases tailMatch_some_none rest ht with
    | inl e => rw [e, List.append_nil, locBody_clean q hq' hq.no_nl]; rfl
    | inr e => rw [e, locBody_concat_nl q hq' hq.no_nl]; rfl

/-! ### the object: what the split establishes -/

def AtOK (loc : Option Text) (o : Text) : Prop :=
  match loc with
  | some _ => 64 ∉ o.tail
  | none => 64 ∉ o.tail.dropLast

theorem splitObj_spec : ∀ (s o : Text) (loc : Option Text), splitObj s = some (o, loc) →
    ∃ rest, s = o ++ rest ∧ tailMatch rest = some loc ∧ o ≠ [] ∧ NoSpace o ∧ AtOK loc o := by
  intro s
  induction s with
  | nil => intro o loc h; simp [splitObj] at h
  | cons c r ih =>
    intro o loc h
    simp only [splitObj] at h
    by_cases hsp : isSpace c = true
    · rw [if_pos hsp] at h; cases h
    · rw [if_neg hsp] at h
      have hc : isSpace c = false := by simpa using hsp
      cases htm : tailMatch r with
      | some loc' =>
        rw [htm] at h
        simp only [Option.some.injEq, Prod.mk.injEq] at h
        obtain ⟨ho, hl⟩ := h
        subst ho; subst hl
        refine ⟨r, rfl, htm, by simp, ?_, ?_⟩
        · intro x hx
          simp only [List.mem_singleton] at hx
          subst hx; exact hc
        · cases loc' <;> simp [AtOK]
      | none =>
        rw [htm] at h
        cases hs : splitObj r with
        | none => rw [hs] at h; simp at h
        | some x =>
          obtain ⟨o', loc'⟩ := x
          rw [hs] at h
          simp only [Option.map_some, Option.some.injEq, Prod.mk.injEq] at h
          obtain ⟨ho, hl⟩ := h
          subst ho; subst hl
          obtain ⟨rest, hr, ht, hne, hns, hat⟩ := ih o' loc' hs
          refine ⟨rest, by rw [hr]; rfl, ht, by simp, ?_, ?_⟩
          · intro x hx
            simp only [List.mem_cons] at hx
            cases hx with
            | inl e => subst e; exact hc
            | inr e => exact hns x e
          · -- the `@` condition: o' = c' :: t ; r = c' :: (t ++ rest) and tailMatch r = none
            cases o' with
            | nil => exact absurd rfl hne
            | cons c' t =>
              have hnt : NoSpace t := fun x hx => hns x (by simp [hx])
              have hr' : r = c' :: (t ++ rest) := by rw [hr]; rfl
              have key : c' = 64 → (t ≠ [] ∨ loc' ≠ none) → False := by
                intro e hh
                have h1 := locBody_before_tail t rest loc' hnt ht hh
                rw [hr', e] at htm
                simp only [tailMatch, if_true] at htm
                cases hb : locBody (t ++ rest) with
                | none => rw [hb] at h1; simp at h1
                | some L => rw [hb] at htm; simp at htm
              cases loc' with
              | some L =>
                simp only [AtOK, List.tail_cons] at hat ⊢
                intro hm
                simp only [List.mem_cons] at hm
                cases hm with
                | inl e => exact key e.symm (Or.inr (by simp))
                | inr e => exact hat e
              | none =>
                simp only [AtOK, List.tail_cons] at hat ⊢
                cases t with
                | nil => simp
                | cons d t' =>
                  rw [List.dropLast_cons_of_ne_nil (by simp)]
                  intro hm
                  simp only [List.mem_cons] at hm
                  cases hm with
                  | inl e => exact key e.symm (Or.inl (by simp))
                  | inr e => exact hat e

/-! ### the object: what makes the split come back -/

theorem tailMatch_cons_none (c : Nat) (l : Text) (h64 : c ≠ 64) (h10 : c ≠ 10) : tailMatch (c :: l) = none := by
  simp only [tailMatch, if_neg h64]
  rw [if_neg (fun h => h10 h.1)]

theorem splitObj_cons (c : Nat) (r : Text) : splitObj (c :: r) =
    if isSpace c then none
    else match tailMatch r with
      | some loc => some ([c], loc)
      | none => (splitObj r).map (fun x => (c :: x.1, x.2)) := rfl

/-- with a location behind it -/
theorem splitObj_with_loc (L : Text) (hL : L ≠ []) (hnl : 10 ∉ L) : ∀ (t : Text) (c : Nat),
    isSpace c = false → NoSpace t → 64 ∉ t → splitObj (c :: t ++ 64 :: L) = some (c :: t, some L) := by
  intro t
  induction t with
  | nil =>
    intro c hc _ _
    simp only [List.cons_append, List.nil_append, splitObj, hc]
    have : tailMatch (64 :: L) = some (some L) := by
      simp only [tailMatch, if_true]
      rw [locBody_clean L hL hnl]; rfl
    rw [this]; rfl
  | cons d t ih =>
    intro c hc hns h64
    have hd : isSpace d = false := hns d (by simp)
    have hd64 : d ≠ 64 := fun e => h64 (by simp [e])
    have hnone : tailMatch (d :: (t ++ 64 :: L)) = none := tailMatch_cons_none d _ hd64 (nospace_ne_nl d hd)
    have ih' := ih d hd (fun x hx => hns x (by simp [hx])) (fun hm => h64 (by simp [hm]))
    simp only [List.cons_append] at ih' ⊢
    rw [splitObj_cons, hc, hnone]
    simp only [Bool.false_eq_true, if_false]
    rw [ih']; rfl

/-- without a location -/
theorem splitObj_no_loc : ∀ (t : Text) (c : Nat),
    isSpace c = false → NoSpace t → 64 ∉ t.dropLast → splitObj (c :: t) = some (c :: t, none) := by
  intro t
  induction t with
  | nil =>
    intro c hc _ _
    simp only [splitObj, hc]
    have : tailMatch [] = some none := rfl
    rw [this]; rfl
  | cons d t ih =>
    intro c hc hns h64
    have hd : isSpace d = false := hns d (by simp)
    have hnt : NoSpace t := fun x hx => hns x (by simp [hx])
    have hnone : tailMatch (d :: t) = none := by
      by_cases e : d = 64
      · cases t with
        | nil =>
          rw [e]
          simp only [tailMatch, if_true]
          have : locBody [] = none := by simp [locBody, stripNL]
          rw [this]; rfl
        | cons d' t' =>
          rw [List.dropLast_cons_of_ne_nil (by simp)] at h64
          exact absurd (by simp [e]) h64
      · exact tailMatch_cons_none d _ e (nospace_ne_nl d hd)
    have h64' : 64 ∉ t.dropLast := by
      cases t with
      | nil => simp
      | cons d' t' =>
        rw [List.dropLast_cons_of_ne_nil (by simp)] at h64
        exact fun hm => h64 (by simp [hm])
    have ih' := ih d hd hnt h64'
    rw [splitObj_cons, hc, hnone]
    simp only [Bool.false_eq_true, if_false]
    rw [ih']; rfl

/-! ### `_parseLocation` -/

theorem startsWith_iff (p l : Text) : startsWith p l = true ↔ ∃ r, l = p ++ r := by
  unfold startsWith
  rw [List.isPrefixOf_iff_prefix]
  constructor
  · rintro ⟨r, h⟩; exact ⟨r, h.symm⟩
  · rintro ⟨r, h⟩; exact ⟨r, h.symm⟩

theorem v6_facts (c : Nat) (h : isV6Char c = true) : c ≠ 10 ∧ c ≠ 91 ∧ c ≠ 93 ∧ c ≠ 46 := by
  simp only [isV6Char, isDigit, Bool.or_eq_true, Bool.and_eq_true, decide_eq_true_eq, beq_iff_eq] at h
  omega

theorem ipv6Match_some (l h : Text) (p : Option Text) (hm : ipv6Match l = some (h, p)) :
    h ≠ [] ∧ (∀ c ∈ h, isV6Char c = true) ∧ (∀ d, p = some d → d ≠ [] ∧ ∀ c ∈ d, isDigit c = true) := by
  unfold ipv6Match at hm
  split at hm
  · rename_i r
    simp only at hm
    by_cases hh : List.takeWhile isV6Char r = []
    · rw [if_pos hh] at hm; cases hm
    · rw [if_neg hh] at hm
      have hv : ∀ c ∈ List.takeWhile isV6Char r, isV6Char c = true := fun c hc => (mem_takeWhile_sat _ _ c hc).1
      split at hm
      · split at hm
        · split at hm
          · simp only [Option.some.injEq, Prod.mk.injEq] at hm
            obtain ⟨e1, e2⟩ := hm
            subst e1; subst e2
            exact ⟨hh, hv, fun d hd => by cases hd⟩
          · rename_i hd
            simp only [Option.some.injEq, Prod.mk.injEq] at hm
            obtain ⟨e1, e2⟩ := hm
            subst e1; subst e2
            refine ⟨hh, hv, fun d hd' => ?_⟩
            simp only [Option.some.injEq] at hd'
            subst hd'
            exact ⟨hd, fun c hc => (mem_takeWhile_sat _ _ c hc).1⟩
        · simp only [Option.some.injEq, Prod.mk.injEq] at hm
          obtain ⟨e1, e2⟩ := hm
          subst e1; subst e2
          exact ⟨hh, hv, fun d hd => by cases hd⟩
      · cases hm
  · cases hm

theorem ipv6Match_render (h d : Text) (hne : h ≠ []) (hv : ∀ c ∈ h, isV6Char c = true)
    (hd : d ≠ []) (hdd : ∀ c ∈ d, isDigit c = true) :
    ipv6Match (91 :: h ++ 93 :: 58 :: d) = some (h, some d) := by
  have h93 : isV6Char 93 = false := by decide
  simp only [List.cons_append, ipv6Match]
  rw [takeWhile_append_stop isV6Char h 93 _ hv h93, dropWhile_append_stop isV6Char h 93 _ hv h93]
  simp only [hne, if_false]
  rw [takeWhile_all isDigit d hdd]
  simp only [hd, if_false]

theorem partition_host (l : Text) :
    58 ∉ (partitionColon l).1 ∧ (∀ c ∈ (partitionColon l).1, c ∈ l) ∧
    ((partitionColon l).1 ≠ [] → (partitionColon l).1.head? = l.head?) := by
  refine ⟨?_, ?_, ?_⟩
  · intro hm
    have := (mem_takeWhile_sat (fun x => x != 58) l 58 hm).1
    simp at this
  · intro c hc
    exact (mem_takeWhile_sat (fun x => x != 58) l c hc).2
  · intro hne
    cases l with
    | nil => simp [partitionColon] at hne
    | cons c r =>
      by_cases hc : (c != 58) = true
      · simp [partitionColon, List.takeWhile, hc]
      · have hc' : (c != 58) = false := by simpa using hc
        simp [partitionColon, List.takeWhile, hc'] at hne

theorem partition_render (h r : Text) (hh : 58 ∉ h) : partitionColon (h ++ 58 :: r) = (h, r) := by
  have hp : ∀ x ∈ h, (fun x => x != 58) x = true := by
    intro x hx
    simp only [bne_iff_ne, ne_eq]
    intro e; subst e; exact hh hx
  have h58 : (fun x => x != 58) 58 = false := by decide
  unfold partitionColon
  rw [takeWhile_append_stop (fun x => x != 58) h 58 r hp h58, dropWhile_append_stop (fun x => x != 58) h 58 r hp h58]
  rfl

theorem portValue_digits_nonneg (ds : Option Text) (d : Option Nat) (n : Int)
    (hds : ∀ x, ds = some x → x ≠ [] ∧ ∀ c ∈ x, isDigit c = true)
    (h : portValue ds d = some n) : 0 ≤ n := by
  unfold portValue at h
  cases ds with
  | none =>
    cases d with
    | none => simp at h
    | some k => simp only [Option.map_some, Option.some.injEq] at h; rw [← h]; exact Int.natCast_nonneg k
  | some x =>
    obtain ⟨h1, h2⟩ := hds x rfl
    simp only [h1, if_false] at h
    rw [pyInt_digits x h1 h2] at h
    simp only [Option.some.injEq] at h
    rw [← h]; exact Int.natCast_nonneg _

/-- what `_parseLocation` establishes for a location the pattern delivered -/
theorem parseLocation_valid (L : Text) (d : Option Nat) (loc : Loc) (hne : L ≠ []) (hnl : 10 ∉ L)
    (h : parseLocation Guards.on (some L) d = .ok loc) : LocOK loc ∧ loc.isSome = true := by
  unfold parseLocation at h
  simp only [hne, if_false] at h
  by_cases hs : startsWith sSockPrefix L = true
  · rw [if_pos hs] at h
    by_cases hbad : List.drop 4 L = [] ∨ 58 ∈ List.drop 4 L
    · rw [if_pos hbad] at h; cases h
    · rw [if_neg hbad] at h
      simp only [Except.ok.injEq] at h
      subst h
      simp only [not_or] at hbad
      exact ⟨⟨hbad.1, hbad.2, fun hm => hnl (List.mem_of_mem_drop hm)⟩, rfl⟩
  · rw [if_neg hs] at h
    by_cases hb : L.head? = some 91
    · rw [if_pos hb] at h
      by_cases hbb : startsWith [91, 91] L = true
      · rw [if_pos hbb] at h; cases h
      · rw [if_neg hbb] at h
        cases hm : ipv6Match L with
        | none => rw [hm] at h; cases h
        | some x =>
          obtain ⟨host, p⟩ := x
          rw [hm] at h
          simp only at h
          obtain ⟨h1, h2, h3⟩ := ipv6Match_some L host p hm
          cases hp : portValue p d with
          | none => rw [hp] at h; cases h
          | some n =>
            rw [hp] at h
            simp only [Except.ok.injEq] at h
            subst h
            have hn := portValue_digits_nonneg p d n h3 hp
            refine ⟨⟨h1, fun hm => (v6_facts 10 (h2 10 hm)).1 rfl, fun _ => ⟨h2, hn⟩, fun _ => ⟨?_, ?_⟩⟩, rfl⟩
            · intro e
              have : (46 : Nat) ∈ host := by rw [e]; simp [sDotSlashU]
              exact (v6_facts 46 (h2 46 this)).2.2.2 rfl
            · cases host with
              | nil => exact absurd rfl h1
              | cons c r =>
                simp only [List.head?_cons, ne_eq, Option.some.injEq]
                exact (v6_facts c (h2 c (by simp))).2.1
    · rw [if_neg hb] at h
      obtain ⟨q1, q2, q3⟩ := partition_host L
      by_cases hg : Guards.on.host = true ∧ ((partitionColon L).1 = [] ∨ (partitionColon L).1 = sDotSlashU)
      · rw [if_pos hg] at h; cases h
      · rw [if_neg hg] at h
        have hg' : (partitionColon L).1 ≠ [] ∧ (partitionColon L).1 ≠ sDotSlashU := by
          have : Guards.on.host = true := rfl
          simp only [this, true_and, not_or] at hg
          exact hg
        cases hp : portValue (some (partitionColon L).2) d with
        | none => rw [hp] at h; cases h
        | some n =>
          rw [hp] at h
          simp only [Except.ok.injEq] at h
          subst h
          refine ⟨⟨hg'.1, fun hm => hnl (q2 10 hm), fun hm => absurd hm q1, fun _ => ⟨hg'.2, ?_⟩⟩, rfl⟩
          rw [q3 hg'.1]; exact hb

theorem parseLocation_none (g : Guards) (d : Option Nat) : parseLocation g none d = .ok .none := rfl

/-- the `location` property of a valid location is a non-empty LF-free string (or None) that
    `_parseLocation` maps back to the same location, whatever the default port and the guards -/
theorem parseLocation_render (g : Guards) (d : Option Nat) (loc : Loc) (h : LocOK loc) :
    parseLocation g (renderLoc loc) d = .ok loc ∧
    (∀ L, renderLoc loc = some L → L ≠ [] ∧ 10 ∉ L) ∧
    ((renderLoc loc).isSome = loc.isSome) := by
  cases loc with
  | none => exact ⟨rfl, (fun L hL => by cases hL), rfl⟩
  | sock n =>
    obtain ⟨h1, h2, h3⟩ := h
    have hr : renderLoc (.sock n) = some (sSockPrefix ++ n) := by simp [renderLoc, h1]
    rw [hr]
    refine ⟨?_, ?_, rfl⟩
    · unfold parseLocation
      have hne : sSockPrefix ++ n ≠ [] := by simp [sSockPrefix]
      have hs : startsWith sSockPrefix (sSockPrefix ++ n) = true := (startsWith_iff _ _).2 ⟨n, rfl⟩
      have hd : List.drop 4 (sSockPrefix ++ n) = n := rfl
      simp only [hne, if_false, hs, if_true, hd]
      rw [if_neg (by simp [h1, h2])]
    · intro L hL
      simp only [Option.some.injEq] at hL
      subst hL
      refine ⟨by simp [sSockPrefix], ?_⟩
      simp only [List.mem_append, not_or]
      exact ⟨by decide, h3⟩
  | tcp host p =>
    obtain ⟨h1, h2, h3, h4⟩ := h
    have hrnl : 10 ∉ renderInt p := by
      intro hm
      cases renderInt_chars p 10 hm with
      | inl h => exact absurd h (by decide)
      | inr h => exact absurd h (by decide)
    by_cases hc : 58 ∈ host
    · obtain ⟨hv, hp⟩ := h3 hc
      obtain ⟨hd1, hd2⟩ := renderInt_nonneg_digits p hp
      have hr : renderLoc (.tcp host p) = some (91 :: host ++ 93 :: 58 :: renderInt p) := by
        simp [renderLoc, h1, hc]
      rw [hr]
      refine ⟨?_, ?_, rfl⟩
      · unfold parseLocation
        have hne : (91 :: host ++ 93 :: 58 :: renderInt p) ≠ [] := by simp
        have hs : startsWith sSockPrefix (91 :: host ++ 93 :: 58 :: renderInt p) = false := by
          simp [startsWith, sSockPrefix, List.isPrefixOf]
        have hhd : (91 :: host ++ 93 :: 58 :: renderInt p).head? = some 91 := rfl
        have hbb : startsWith [91, 91] (91 :: host ++ 93 :: 58 :: renderInt p) = false := by
          cases host with
          | nil => exact absurd rfl h1
          | cons c r =>
            have : c ≠ 91 := (v6_facts c (hv c (by simp))).2.1
            simp only [startsWith, List.cons_append, List.isPrefixOf, Bool.and_eq_false_iff, beq_eq_false_iff_ne]
            simp [Ne.symm this]
        simp only [hne, if_false, hs, Bool.false_eq_true, hhd, if_true, hbb]
        rw [ipv6Match_render host (renderInt p) h1 hv hd1 hd2]
        simp only [portValue, hd1, if_false]
        rw [pyInt_renderInt]
      · intro L hL
        simp only [Option.some.injEq] at hL
        subst hL
        refine ⟨by simp, ?_⟩
        simp only [List.cons_append, List.mem_cons, List.mem_append, not_or]
        exact ⟨by decide, h2, by decide, by decide, hrnl⟩
    · obtain ⟨hnu, hhd⟩ := h4 hc
      have hr : renderLoc (.tcp host p) = some (host ++ 58 :: renderInt p) := by
        simp [renderLoc, h1, hc]
      rw [hr]
      refine ⟨?_, ?_, rfl⟩
      · unfold parseLocation
        have hne : (host ++ 58 :: renderInt p) ≠ [] := by simp
        have hs : startsWith sSockPrefix (host ++ 58 :: renderInt p) = false := by
          cases hst : startsWith sSockPrefix (host ++ 58 :: renderInt p) with
          | false => rfl
          | true =>
            exfalso
            obtain ⟨r, hr⟩ := (startsWith_iff _ _).1 hst
            -- host has no ':' and is not "./u": compare the first four characters
            match host, h1, hc, hnu, hr with
            | [a], _, hc, _, hr =>
              simp [sSockPrefix] at hr
            | [a, b], _, hc, _, hr =>
              simp [sSockPrefix] at hr
            | [a, b, c], _, hc, hnu, hr =>
              simp only [sSockPrefix, List.cons_append, List.nil_append, List.cons.injEq] at hr
              obtain ⟨e1, e2, e3, _⟩ := hr
              subst e1; subst e2; subst e3
              exact hnu rfl
            | a :: b :: c :: e :: t, _, hc, _, hr =>
              simp only [sSockPrefix, List.cons_append, List.cons.injEq] at hr
              exact hc (by simp [hr.2.2.2.1])
        have hhd' : (host ++ 58 :: renderInt p).head? ≠ some 91 := by
          cases host with
          | nil => exact absurd rfl h1
          | cons c r => simpa using hhd
        simp only [hne, if_false, hs, Bool.false_eq_true, hhd']
        rw [partition_render host (renderInt p) hc]
        have hg : ¬ (g.host = true ∧ (host = [] ∨ host = sDotSlashU)) := fun hh => by
          cases hh.2 with
          | inl e => exact h1 e
          | inr e => exact hnu e
        simp only [hg, if_false, portValue, renderInt_ne_nil p]
        rw [pyInt_renderInt]
      · intro L hL
        simp only [Option.some.injEq] at hL
        subst hL
        refine ⟨by simp, ?_⟩
        simp only [List.mem_cons, List.mem_append, not_or]
        exact ⟨h2, by decide, hrnl⟩

/-! ### `URI.__init__` establishes `Valid` -/

theorem map_ok {α β : Type} (x : Except Err α) (f : α → β) (y : β) (h : x.map f = .ok y) :
    ∃ a, x = .ok a ∧ y = f a := by
  cases x with
  | error e => cases h
  | ok a =>
    simp only [Except.map, Except.ok.injEq] at h
    exact ⟨a, rfl, h.symm⟩

theorem parseLocation_ok (location : Option Text) (d : Option Nat) (l : Loc)
    (hloc : ∀ L, location = some L → L ≠ [] ∧ 10 ∉ L)
    (h : parseLocation Guards.on location d = .ok l) : LocOK l ∧ l.isSome = location.isSome := by
  cases location with
  | none =>
    rw [parseLocation_none] at h
    simp only [Except.ok.injEq] at h
    subst h
    exact ⟨trivial, rfl⟩
  | some L =>
    obtain ⟨h1, h2⟩ := hloc L rfl
    exact parseLocation_valid L d l h1 h2 h

theorem objOK_of_split (o : Text) (location : Option Text) (hne : o ≠ []) (hns : NoSpace o)
    (hat : AtOK location o) : ObjOK location.isSome o := by
  refine ⟨hne, hns, ?_⟩
  cases location with
  | none => simpa [AtOK] using hat
  | some L => simpa [AtOK] using hat

theorem tags_valid (o : Text) (hns : NoSpace o)
    (hg : ¬ (((mkSet ((splitOn 44 o).map (strip isSpace))).all (·.isEmpty)) = true ∨
             ((mkSet ((splitOn 44 o).map (strip isSpace))).any (·.contains 64)) = true)) :
    TagsOK (mkSet ((splitOn 44 o).map (strip isSpace))) := by
  simp only [not_or] at hg
  obtain ⟨hg1, hg2⟩ := hg
  have hpieces : ∀ t ∈ splitOn 44 o, ∀ c ∈ t, isSpace c = false ∧ c ≠ 44 := by
    intro t ht c hc
    obtain ⟨a, b⟩ := mem_splitAux 44 o [] t ht c hc
    constructor
    · cases a with
      | inl a => simp at a
      | inr a => exact hns c a
    · intro e; have := b e; simp at this
  have hmap : (splitOn 44 o).map (strip isSpace) = splitOn 44 o := by
    rw [List.map_congr_left (g := id)]
    · simp
    · intro t ht
      exact strip_id isSpace t (fun c hc => (hpieces t ht c hc).1)
  rw [hmap] at hg1 hg2 ⊢
  refine ⟨sorted_mkSet _, ?_, ?_, ?_⟩
  · intro e
    have hne := splitAux_ne_nil 44 o []
    cases hsp : splitOn 44 o with
    | nil => exact hne hsp
    | cons t ts =>
      have : t ∈ mkSet (splitOn 44 o) := by rw [mem_mkSet, hsp]; simp
      rw [e] at this; simp at this
  · intro e
    rw [e] at hg1
    exact hg1 (by simp)
  · intro t ht c hc
    rw [mem_mkSet] at ht
    refine ⟨(hpieces t ht c hc).1, (hpieces t ht c hc).2, ?_⟩
    intro e
    apply hg2
    rw [List.any_eq_true]
    exact ⟨t, by rw [mem_mkSet]; exact ht, by rw [List.contains_iff_mem]; exact e ▸ hc⟩

theorem parse_valid (p : Nat) (s : Text) (u : Uri) (h : parse Guards.on p s = .ok u) : Valid u := by
  unfold parse at h
  cases hm : matchProtocol s with
  | none => rw [hm] at h; cases h
  | some x =>
    obtain ⟨ptxt, rest⟩ := x
    rw [hm] at h
    simp only at h
    cases hs : splitObj rest with
    | none => rw [hs] at h; cases h
    | some y =>
      obtain ⟨o, location⟩ := y
      rw [hs] at h
      simp only at h
      obtain ⟨rest', _, ht, hne, hns, hat⟩ := splitObj_spec rest o location hs
      have hloc : ∀ L, location = some L → L ≠ [] ∧ 10 ∉ L := by
        intro L hL
        subst hL
        obtain ⟨l, _, hb⟩ := tailMatch_some_some rest' L ht
        obtain ⟨a, b, _⟩ := locBody_some l L hb
        exact ⟨a, b⟩
      have hobj := objOK_of_split o location hne hns hat
      by_cases h1 : ptxt.map upper = sPYRONAME
      · rw [if_pos h1] at h
        obtain ⟨l, hl, hu⟩ := map_ok _ _ _ h
        subst hu
        obtain ⟨a, b⟩ := parseLocation_ok location _ l hloc hl
        refine ⟨a, ?_⟩
        show ObjOK l.isSome o
        rw [b]; exact hobj
      · rw [if_neg h1] at h
        by_cases h2 : ptxt.map upper = sPYRO
        · rw [if_pos h2] at h
          by_cases hf : falsy location = true
          · rw [if_pos hf] at h; cases h
          · rw [if_neg hf] at h
            obtain ⟨l, hl, hu⟩ := map_ok _ _ _ h
            subst hu
            obtain ⟨a, b⟩ := parseLocation_ok location _ l hloc hl
            have hsome : location.isSome = true := by
              cases location with
              | none => simp [falsy] at hf
              | some L => rfl
            refine ⟨a, ?_⟩
            show ObjOK true o ∧ l.isSome = true
            rw [b, hsome]
            rw [hsome] at hobj
            exact ⟨hobj, rfl⟩
        · rw [if_neg h2] at h
          by_cases h3 : ptxt.map upper = sPYROMETA
          · rw [if_pos h3] at h
            by_cases hg : Guards.on.tags = true ∧
                (((mkSet ((splitOn 44 o).map (strip isSpace))).all (·.isEmpty)) = true ∨
                 ((mkSet ((splitOn 44 o).map (strip isSpace))).any (·.contains 64)) = true)
            · rw [if_pos hg] at h; cases h
            · rw [if_neg hg] at h
              obtain ⟨l, hl, hu⟩ := map_ok _ _ _ h
              subst hu
              obtain ⟨a, _⟩ := parseLocation_ok location _ l hloc hl
              refine ⟨a, ?_⟩
              show TagsOK _
              apply tags_valid o hns
              intro hh
              exact hg ⟨rfl, hh⟩
          · rw [if_neg h3] at h; cases h

/-! ### the text form of a valid URI parses back -/

/-- what `__str__` appends for the location -/
def locSuffix (loc : Loc) : Text :=
  match renderLoc loc with
  | some l => if l = [] then [] else 64 :: l
  | none => []

def objText (u : Uri) (order : List Text) : Text :=
  match u.kind with
  | .pyro o => o
  | .pyroname o => o
  | .pyrometa _ => joinWith 44 order

theorem render_eq (u : Uri) (order : List Text) :
    render u order = u.kind.protoText ++ 58 :: (objText u order ++ locSuffix u.loc) := by
  unfold render locSuffix objText
  cases hk : u.kind <;> cases hr : renderLoc u.loc <;> simp only [Kind.protoText, List.append_nil]
  all_goals (split <;> simp_all)

theorem matchProtocol_pyro (rest : Text) : matchProtocol (sPYRO ++ 58 :: rest) = some (sPYRO, rest) := rfl
theorem matchProtocol_pyroname (rest : Text) : matchProtocol (sPYRONAME ++ 58 :: rest) = some (sPYRONAME, rest) := rfl
theorem matchProtocol_pyrometa (rest : Text) : matchProtocol (sPYROMETA ++ 58 :: rest) = some (sPYROMETA, rest) := rfl

theorem splitObj_render (o : Text) (loc : Loc) (hl : LocOK loc) (ho : ObjOK loc.isSome o) :
    splitObj (o ++ locSuffix loc) = some (o, renderLoc loc) := by
  obtain ⟨_, h2, h3⟩ := parseLocation_render Guards.on none loc hl
  obtain ⟨hne, hns, hat⟩ := ho
  cases o with
  | nil => exact absurd rfl hne
  | cons c t =>
    have hc : isSpace c = false := hns c (by simp)
    have hnt : NoSpace t := fun x hx => hns x (by simp [hx])
    unfold locSuffix
    cases hr : renderLoc loc with
    | none =>
      rw [hr] at h3
      have : loc.isSome = false := by rw [← h3]; rfl
      rw [this] at hat
      simp only [Bool.false_eq_true, if_false, List.tail_cons] at hat
      simp only [List.append_nil]
      exact splitObj_no_loc t c hc hnt hat
    | some L =>
      rw [hr] at h3
      obtain ⟨hL1, hL2⟩ := h2 L hr
      have : loc.isSome = true := by rw [← h3]; rfl
      rw [this] at hat
      simp only [if_true, List.tail_cons] at hat
      simp only [hL1, if_false]
      exact splitObj_with_loc L hL1 hL2 t c hc hnt hat

theorem objOK_of_no_at (b : Bool) (o : Text) (hne : o ≠ []) (hns : NoSpace o) (h64 : 64 ∉ o) : ObjOK b o := by
  refine ⟨hne, hns, ?_⟩
  cases b
  · simp only [Bool.false_eq_true, if_false]
    exact fun hm => h64 (List.mem_of_mem_tail (List.dropLast_subset _ hm))
  · simp only [if_true]
    exact fun hm => h64 (List.mem_of_mem_tail hm)

theorem falsy_render (loc : Loc) (hl : LocOK loc) (hs : loc.isSome = true) : falsy (renderLoc loc) = false := by
  obtain ⟨_, h2, h3⟩ := parseLocation_render Guards.on none loc hl
  cases hr : renderLoc loc with
  | none => rw [hr, hs] at h3; cases h3
  | some L =>
    have := (h2 L hr).1
    cases L with
    | nil => exact absurd rfl this
    | cons a b => rfl

theorem parse_render (p : Nat) (u : Uri) (order : List Text) (hv : Valid u) (ho : OrderOK u order) :
    parse Guards.on p (render u order) = .ok u := by
  obtain ⟨kind, loc⟩ := u
  obtain ⟨hl, hk⟩ := hv
  rw [render_eq]
  cases kind with
  | pyro o =>
    simp only at hk
    obtain ⟨hobj, hsome⟩ := hk
    have h1 := splitObj_render o loc hl (by rw [hsome]; exact hobj)
    have h2 := (parseLocation_render Guards.on none loc hl).1
    have h3 := falsy_render loc hl hsome
    simp only [Kind.protoText, objText]
    unfold parse
    rw [matchProtocol_pyro]
    simp only [h1]
    rw [if_neg (by decide), if_pos (by decide), h3]
    simp only [Bool.false_eq_true, if_false, h2]
    rfl
  | pyroname o =>
    simp only at hk
    have h1 := splitObj_render o loc hl hk
    have h2 := (parseLocation_render Guards.on (some p) loc hl).1
    simp only [Kind.protoText, objText]
    unfold parse
    rw [matchProtocol_pyroname]
    simp only [h1]
    rw [if_pos (by decide), h2]
    rfl
  | pyrometa tags =>
    simp only at hk
    obtain ⟨hsorted, hne, hne1, htags⟩ := hk
    have hperm : order.Perm tags := ho
    have hmem : ∀ x, x ∈ order ↔ x ∈ tags := fun x => hperm.mem_iff
    have hone : order ≠ [] := by
      intro e; rw [e] at hperm
      exact hne (List.Perm.nil_eq hperm).symm
    have hone1 : order ≠ [[]] := by
      intro e; rw [e] at hperm
      exact hne1 (List.Perm.singleton_eq hperm).symm
    have hchars : ∀ c ∈ joinWith 44 order, isSpace c = false ∧ c ≠ 64 := by
      intro c hc
      cases mem_joinWith 44 order c hc with
      | inl e => subst e; exact ⟨by decide, by decide⟩
      | inr e =>
        obtain ⟨t, ht, hct⟩ := e
        have := htags t ((hmem t).1 ht) c hct
        exact ⟨this.1, this.2.2⟩
    have hobj : ObjOK loc.isSome (joinWith 44 order) :=
      objOK_of_no_at _ _ (joinWith_ne_nil 44 order hone hone1) (fun c hc => (hchars c hc).1)
        (fun hm => (hchars 64 hm).2 rfl)
    have h1 := splitObj_render _ loc hl hobj
    have h2 := (parseLocation_render Guards.on (some p) loc hl).1
    have hsplit : splitOn 44 (joinWith 44 order) = order :=
      splitOn_join 44 order hone (fun x hx hm => (htags x ((hmem x).1 hx) 44 hm).2.1 rfl)
    have hmap : order.map (strip isSpace) = order := by
      rw [List.map_congr_left (g := id)]
      · simp
      · intro t ht
        exact strip_id isSpace t (fun c hc => (htags t ((hmem t).1 ht) c hc).1)
    have hset : mkSet order = tags := mkSet_of_mem_iff order tags hsorted hmem
    have hguard : ¬ (Guards.on.tags = true ∧ ((tags.all (·.isEmpty)) = true ∨ (tags.any (·.contains 64)) = true)) := by
      rintro ⟨_, hh | hh⟩
      · rw [List.all_eq_true] at hh
        have : ∀ x ∈ tags, x = [] := fun x hx => by simpa using hh x hx
        cases sorted_all_nil tags hsorted this with
        | inl e => exact hne e
        | inr e => exact hne1 e
      · rw [List.any_eq_true] at hh
        obtain ⟨t, ht, hc⟩ := hh
        rw [List.contains_iff_mem] at hc
        exact (htags t ht 64 hc).2.2 rfl
    simp only [Kind.protoText, objText]
    unfold parse
    rw [matchProtocol_pyrometa]
    simp only [h1]
    rw [if_neg (by decide), if_neg (by decide), if_pos (by decide)]
    simp only [hsplit, hmap, hset]
    rw [if_neg hguard, h2]
    rfl

end Pyro.Uri
