/-
  Helper lemmas for C06_reencode: what the decoder accepts can be encoded again.
-/
import PyroModel.Wire
import PyroProofs.Wire
import PyroProofs.WireStages

namespace Pyro.Wire

open Pyro

theorem mem_dictSet (d : List Ann) (k : List Nat) (v : Bytes) (a : Ann) (h : a ∈ dictSet d k v) :
    a ∈ d ∨ a = (k, v) := by
  induction d with
  | nil => simp [dictSet] at h; exact Or.inr h
  | cons e d ih =>
    obtain ⟨k', v'⟩ := e
    simp only [dictSet] at h
    by_cases hk : k' = k
    · rw [if_pos hk] at h
      simp only [List.mem_cons] at h
      rcases h with h | h
      · exact Or.inr h
      · exact Or.inl (List.mem_cons_of_mem _ h)
    · rw [if_neg hk] at h
      simp only [List.mem_cons] at h
      rcases h with h | h
      · exact Or.inl (by rw [h]; exact List.mem_cons_self)
      · rcases ih h with h' | h'
        · exact Or.inl (List.mem_cons_of_mem _ h')
        · exact Or.inr h'

theorem annSize_dictSet (d : List Ann) (k : List Nat) (v : Bytes) :
    annSize (dictSet d k v) ≤ annSize d + 8 + v.length := by
  induction d with
  | nil => simp [dictSet, annSize]
  | cons e d ih =>
    obtain ⟨k', v'⟩ := e
    simp only [dictSet]
    by_cases hk : k' = k
    · rw [if_pos hk]
      simp only [annSize, List.map_cons, List.sum_cons]
      omega
    · rw [if_neg hk]
      simp only [annSize, List.map_cons, List.sum_cons] at ih ⊢
      omega

/-- an annotation the encoder accepts -/
def AnnOK (a : Ann) : Prop := KeyOK a.1 ∧ a.2.length < 2 ^ 32

theorem encodeAnns_ok (anns : List Ann) (h : ∀ a ∈ anns, AnnOK a) : ∃ bs, encodeAnns anns = .ok bs := by
  induction anns with
  | nil => exact ⟨[], rfl⟩
  | cons a rest ih =>
    obtain ⟨k, v⟩ := a
    obtain ⟨⟨hk4, hka⟩, hv⟩ := h (k, v) List.mem_cons_self
    obtain ⟨bs, hbs⟩ := ih (fun x hx => h x (List.mem_cons_of_mem _ hx))
    simp only [encodeAnns]
    rw [if_neg (by simpa using hk4)]
    have hany : k.any (· ≥ 128) = false := by
      rw [List.any_eq_false]
      intro c hc
      have := hka c hc
      simp only [ge_iff_le, decide_eq_true_eq]; omega
    rw [hany]
    simp only [Bool.false_eq_true, if_false]
    rw [if_neg (by simp only [ge_iff_le] at *; omega), hbs]
    exact ⟨_, rfl⟩

/-- invariant of the decoder's annotation walk: every stored annotation could be encoded again, keys
    stay distinct, and the stored annotations never need more room than the area walked so far -/
theorem walk_reencodable (fuel : Nat) :
    ∀ (rest : Bytes) (remaining : Nat) (acc anns : List Ann) (B : Nat),
      walkAnns fuel rest remaining acc = .ok anns → remaining ≤ rest.length →
      (keysOf acc).Nodup → (∀ a ∈ acc, AnnOK a) → annSize acc + remaining ≤ B →
      (keysOf anns).Nodup ∧ (∀ a ∈ anns, AnnOK a) ∧ annSize anns ≤ B := by
  induction fuel with
  | zero =>
    intro rest remaining acc anns B h _ hnd hok hb
    simp only [walkAnns] at h
    by_cases h0 : remaining = 0
    · subst h0
      simp only [if_true, Except.ok.injEq] at h; subst h
      exact ⟨hnd, hok, by omega⟩
    · rw [if_neg h0] at h; cases h
  | succ fuel ih =>
    intro rest remaining acc anns B h hlen hnd hok hb
    simp only [walkAnns] at h
    by_cases h0 : remaining = 0
    · subst h0
      simp only [if_true, Except.ok.injEq] at h; subst h
      exact ⟨hnd, hok, by omega⟩
    · rw [if_neg h0] at h
      by_cases h1 : (List.take 4 rest).any (· ≥ 128) = true
      · rw [if_pos h1] at h; cases h
      · rw [if_neg h1] at h
        by_cases h2 : 8 + fromBE (List.take 4 (List.drop 4 rest)) > remaining
        · rw [if_pos h2] at h; cases h
        · rw [if_neg h2] at h
          have hl4 : (List.take 4 (List.drop 4 rest)).length = 4 := by
            simp only [List.length_take, List.length_drop]; omega
          have hlt := fromBE_lt (List.take 4 (List.drop 4 rest))
          rw [hl4] at hlt
          have hvlen : (List.take (fromBE (List.take 4 (List.drop 4 rest))) (List.drop 8 rest)).length
              = fromBE (List.take 4 (List.drop 4 rest)) := by
            simp only [List.length_take, List.length_drop]; omega
          have hnew : AnnOK ((List.take 4 rest).map UInt8.toNat,
              List.take (fromBE (List.take 4 (List.drop 4 rest))) (List.drop 8 rest)) := by
            refine ⟨⟨?_, ?_⟩, ?_⟩
            · simp only [List.length_map, List.length_take]; omega
            · intro c hc
              simp only [List.mem_map] at hc
              obtain ⟨b, hb', rfl⟩ := hc
              simp only [Bool.not_eq_true, List.any_eq_false, ge_iff_le, decide_eq_true_eq] at h1
              have := h1 b hb'
              simp only [UInt8.le_iff_toNat_le, Nat.not_le] at this
              simpa using this
            · rw [hvlen]; simpa using hlt
          apply ih _ _ _ _ B h (by simp only [List.length_drop]; omega) (dictSet_nodup _ _ _ hnd)
          · intro a ha
            rcases mem_dictSet _ _ _ _ ha with h' | h'
            · exact hok a h'
            · rw [h']; exact hnew
          · have := annSize_dictSet acc ((List.take 4 rest).map UInt8.toNat)
              (List.take (fromBE (List.take 4 (List.drop 4 rest))) (List.drop 8 rest))
            rw [hvlen] at this
            omega

theorem setBit64_lt (f : Nat) (h : f < 65536) : setBit f 64 < 65536 := by
  unfold setBit; split <;> omega

theorem clearBit_le (f b : Nat) : clearBit f b ≤ f := by
  unfold clearBit; split <;> omega

end Pyro.Wire
