/-
  Helper lemmas for the exception model (C07): the codec law, attribute dictionaries, the dictionaries built for
  exceptions and wrappers, the class-name dispatch, and the concrete tree codec.
-/
import PyroModel.Exceptions

namespace Pyro.Exceptions

open Pyro.Gen.C07 (Kind Flags)

/-! ### the lossless-core law of a serializer library (hypothesis of the round-trip theorems; C01 establishes it
    for the four serializers, here it is a parameter) -/

/-- `dumps` then `loads` of a tree inside the library's domain `dom` yields `norm` of the tree, where `norm` is the
    library's type mapping: structure preserving, strings and booleans unchanged, a tuple comes back as a tuple or as
    a list (json, msgpack).  `dom` is closed under building lists, tuples and dicts with text keys. -/
structure CodecLaw {W : Type} (c : Codec W) (norm : Val → Val) (dom : Val → Prop) : Prop where
  roundtrip : ∀ v, dom v → ∃ w, c.dumps v = some w ∧ c.loads w = some (norm v)
  dom_str : ∀ s, dom (.str s)
  dom_bool : ∀ b, dom (.bool b)
  dom_list : ∀ xs, (∀ x ∈ xs, dom x) → dom (.list xs)
  dom_tuple : ∀ xs, (∀ x ∈ xs, dom x) → dom (.tuple xs)
  dom_dict : ∀ kv : Dict, (∀ p ∈ kv, dom p.2) → dom (.dict kv)
  norm_str : ∀ s, norm (.str s) = .str s
  norm_bool : ∀ b, norm (.bool b) = .bool b
  norm_list : ∀ xs, norm (.list xs) = .list (xs.map norm)
  norm_tuple : ∀ xs, norm (.tuple xs) = .list (xs.map norm) ∨ norm (.tuple xs) = .tuple (xs.map norm)
  norm_dict : ∀ kv : Dict, norm (.dict kv) = .dict (kv.map fun p => (p.1, norm p.2))

/-- a value of the serializer's lossless domain: accepted, and returned unchanged -/
def Lossless (norm : Val → Val) (dom : Val → Prop) (v : Val) : Prop := dom v ∧ norm v = v

/-! ### lists and dictionaries -/

theorem map_fix {α : Type} (f : α → α) (xs : List α) (h : ∀ a ∈ xs, f a = a) : xs.map f = xs := by
  induction xs with
  | nil => rfl
  | cons x xs ih =>
    simp only [List.map_cons]
    rw [h x (List.mem_cons_self), ih (fun a ha => h a (List.mem_cons_of_mem _ ha))]

theorem map_snd_fix (f : Val → Val) (kv : Dict) (h : ∀ p ∈ kv, f p.2 = p.2) :
    kv.map (fun p => (p.1, f p.2)) = kv := by
  apply map_fix
  intro p hp
  rw [h p hp]

theorem keys_setKey (k : Str) (v : Val) (d : Dict) :
    keys (setKey k v d) = if k ∈ keys d then keys d else keys d ++ [k] := by
  induction d with
  | nil => simp [setKey, keys]
  | cons p rest ih =>
    obtain ⟨n, w⟩ := p
    unfold setKey
    by_cases hn : n = k
    · subst hn; simp [keys]
    · rw [if_neg hn]
      have hk : ¬ k = n := fun e => hn e.symm
      simp only [keys, List.map_cons, List.mem_cons, hk, false_or] at ih ⊢
      rw [ih]
      split <;> rename_i hm <;> simp [hm]

theorem setKey_fresh (k : Str) (v : Val) (d : Dict) (h : k ∉ keys d) : setKey k v d = d ++ [(k, v)] := by
  induction d with
  | nil => rfl
  | cons p rest ih =>
    obtain ⟨n, w⟩ := p
    simp only [keys, List.map_cons, List.mem_cons, not_or] at h
    unfold setKey
    rw [if_neg (fun e => h.1 e.symm)]
    rw [ih (by simpa [keys] using h.2)]
    rfl

theorem nodup_keys_setKey (k : Str) (v : Val) (d : Dict) (h : (keys d).Nodup) : (keys (setKey k v d)).Nodup := by
  rw [keys_setKey]
  split
  · exact h
  · rename_i hk
    rw [List.nodup_append]
    refine ⟨h, by simp, ?_⟩
    intro a ha b hb
    simp only [List.mem_singleton] at hb
    subst hb
    intro e; subst e; exact hk ha

/-- `setattr` in a loop over a dict with distinct keys rebuilds exactly that dict -/
theorem setAttrs_append (acc kv : Dict) (hd : (keys (acc ++ kv)).Nodup) : setAttrs acc kv = acc ++ kv := by
  induction kv generalizing acc with
  | nil => simp [setAttrs]
  | cons p rest ih =>
    obtain ⟨k, v⟩ := p
    unfold setAttrs
    have hk : k ∉ keys acc := by
      intro hmem
      simp only [keys, List.map_append, List.map_cons] at hd
      rw [List.nodup_append] at hd
      exact hd.2.2 k (by simpa [keys] using hmem) k (List.mem_cons_self) rfl
    rw [setKey_fresh k v acc hk]
    rw [ih (acc ++ [(k, v)]) (by simpa [List.append_assoc] using hd)]
    simp [List.append_assoc]

theorem setAttrs_nodup (kv : Dict) (hd : (keys kv).Nodup) : setAttrs [] kv = kv := by
  have := setAttrs_append [] kv (by simpa using hd)
  simpa using this

/-! ### the dictionaries built for exceptions -/

/-- the shape in which an exception dict arrives: `args` as a list or as a tuple -/
def arrivedDict (cls : Str) (argsVal : Val) (attrs : Dict) : Dict :=
  [(kClass, .str cls), (kException, .bool true), (kArgs, argsVal), (kAttributes, .dict attrs)]

theorem dom_excToDict {W : Type} {c : Codec W} {norm : Val → Val} {dom : Val → Prop} (law : CodecLaw c norm dom)
    (e : Exc) (hargs : ∀ a ∈ e.args, dom a) (hattrs : ∀ p ∈ e.attrs, dom p.2) : dom (excToDict e) := by
  unfold excToDict
  apply law.dom_dict
  intro p hp
  simp only [List.mem_cons, List.not_mem_nil, or_false] at hp
  rcases hp with rfl | rfl | rfl | rfl
  · exact law.dom_str _
  · exact law.dom_bool _
  · exact law.dom_tuple _ hargs
  · exact law.dom_dict _ hattrs

theorem norm_excToDict {W : Type} {c : Codec W} {norm : Val → Val} {dom : Val → Prop} (law : CodecLaw c norm dom)
    (e : Exc) (hargs : ∀ a ∈ e.args, norm a = a) (hattrs : ∀ p ∈ e.attrs, norm p.2 = p.2) :
    ∃ A, (A = .list e.args ∨ A = .tuple e.args) ∧ norm (excToDict e) = .dict (arrivedDict e.cls A e.attrs) := by
  have hd : norm (.dict e.attrs) = .dict e.attrs := by rw [law.norm_dict, map_snd_fix norm e.attrs hattrs]
  rcases law.norm_tuple e.args with ht | ht
  · refine ⟨.list e.args, Or.inl rfl, ?_⟩
    unfold excToDict arrivedDict
    rw [law.norm_dict]
    simp only [List.map_cons, List.map_nil, law.norm_str, law.norm_bool, ht, hd, map_fix norm e.args hargs]
  · refine ⟨.tuple e.args, Or.inr rfl, ?_⟩
    unfold excToDict arrivedDict
    rw [law.norm_dict]
    simp only [List.map_cons, List.map_nil, law.norm_str, law.norm_bool, ht, hd, map_fix norm e.args hargs]

theorem kClass_ne_kException : ¬ kClass = kException := by decide
theorem kClass_ne_kArgs : ¬ kClass = kArgs := by decide
theorem kClass_ne_kAttributes : ¬ kClass = kAttributes := by decide
theorem kException_ne_kArgs : ¬ kException = kArgs := by decide
theorem kException_ne_kAttributes : ¬ kException = kAttributes := by decide
theorem kArgs_ne_kAttributes : ¬ kArgs = kAttributes := by decide
theorem kClass_ne_kWrapped : ¬ kClass = kWrapped := by decide

theorem lookup_arrived_class (cls : Str) (A : Val) (attrs : Dict) :
    lookup kClass (arrivedDict cls A attrs) = some (.str cls) := by
  simp [arrivedDict, lookup]

theorem lookup_arrived_exception (cls : Str) (A : Val) (attrs : Dict) :
    lookup kException (arrivedDict cls A attrs) = some (.bool true) := by
  simp [arrivedDict, lookup, kClass_ne_kException]

theorem lookup_arrived_args (cls : Str) (A : Val) (attrs : Dict) :
    lookup kArgs (arrivedDict cls A attrs) = some A := by
  simp [arrivedDict, lookup, kClass_ne_kArgs, kException_ne_kArgs]

theorem lookup_arrived_attributes (cls : Str) (A : Val) (attrs : Dict) :
    lookup kAttributes (arrivedDict cls A attrs) = some (.dict attrs) := by
  simp [arrivedDict, lookup, kClass_ne_kAttributes, kException_ne_kAttributes, kArgs_ne_kAttributes]

/-- `make_exception` on an arrived exception dict rebuilds the exception: the constructor is called with the
    arguments (list or tuple alike), every attribute is set again -/
theorem makeException_arrived (K : ClientEnv) (q cls : Str) (A : Val) (args : List Val) (attrs : Dict)
    (hA : A = .list args ∨ A = .tuple args) (hctor : K.ctor q args = .ok (q, args)) (hnd : (keys attrs).Nodup) :
    makeException K q (arrivedDict cls A attrs) = .ok (.exc ⟨q, args, attrs⟩) := by
  unfold makeException
  rw [lookup_arrived_args, lookup_arrived_attributes]
  rcases hA with rfl | rfl <;> simp only [hctor, setAttrs_nodup attrs hnd]

/-! ### the class-name dispatch -/

theorem viaModule_of_table (K : ClientEnv) (table : List (Str × Kind)) (name : Str) (data : Dict)
    (unsupported : Except DErr PyObj) (q : Str)
    (h : (match assoc name table with | some (.exc q) => some q | _ => none) = some q) :
    viaModule K table name data unsupported = makeException K q data := by
  unfold viaModule
  cases hA : assoc name table with
  | none => rw [hA] at h; cases h
  | some k =>
    rw [hA] at h
    cases k with
    | exc q' => simp only [Option.some.injEq] at h; subst h; rfl
    | cls => cases h
    | other => cases h

theorem dictToClass_resolves (K : ClientEnv) (fuel : Nat) (data : Dict) (cn q : Str)
    (hc : lookup kClass data = some (.str cn)) (hx : lookup kException data = some (.bool true))
    (hr : resolves K.names cn = some q) : dictToClass K (fuel + 1) data = makeException K q data := by
  unfold dictToClass
  simp only [hc]
  unfold resolves at hr
  by_cases h1 : cn ∈ K.names.registry
  · rw [if_pos h1] at hr; cases hr
  rw [if_neg h1] at hr ⊢
  by_cases h2 : hasDunder cn = true
  · rw [if_pos h2] at hr; cases hr
  rw [if_neg h2] at hr ⊢
  by_cases h3 : cn ∈ fixedPyroClasses
  · rw [if_pos h3] at hr; cases hr
  rw [if_neg h3] at hr ⊢
  by_cases h4 : utilPrefix.isPrefixOf cn = true
  · rw [if_pos h4] at hr; cases hr
  rw [if_neg h4] at hr ⊢
  by_cases h5 : errorsPrefix.isPrefixOf cn = true
  · rw [if_pos h5] at hr ⊢
    exact viaModule_of_table K _ _ _ _ q hr
  rw [if_neg h5] at hr ⊢
  by_cases h6 : cn = qStructError
  · rw [if_pos h6] at hr ⊢; simp only [Option.some.injEq] at hr; subst hr; rfl
  rw [if_neg h6] at hr ⊢
  by_cases h7 : cn = wrapperTag
  · rw [if_pos h7] at hr; cases hr
  rw [if_neg h7] at hr ⊢
  simp only [hx, truthy, if_true]
  cases hA : assoc cn K.names.allExceptions with
  | some q' => rw [hA] at hr; simp only [Option.some.injEq] at hr; subst hr; rfl
  | none =>
    rw [hA] at hr
    simp only at hr ⊢
    cases hS : splitDot cn with
    | none => rw [hS] at hr; cases hr
    | some p =>
      obtain ⟨ns, short⟩ := p
      rw [hS] at hr
      simp only at hr ⊢
      by_cases h8 : ns = cs "builtins" ∨ ns = cs "exceptions"
      · rw [if_pos h8] at hr ⊢
        exact viaModule_of_table K _ _ _ _ q hr
      · rw [if_neg h8] at hr ⊢
        by_cases h9 : ns = cs "sqlite3" ∧ (cs "Error").isSuffixOf short = true
        · rw [if_pos h9] at hr ⊢
          exact viaModule_of_table K _ _ _ _ q hr
        · rw [if_neg h9] at hr; cases hr

theorem assoc_mem {β : Type} (k : Str) (v : β) (l : List (Str × β)) (h : assoc k l = some v) : (k, v) ∈ l := by
  induction l with
  | nil => cases h
  | cons p rest ih =>
    obtain ⟨n, g⟩ := p
    unfold assoc at h
    by_cases hn : n = k
    · rw [if_pos hn] at h
      simp only [Option.some.injEq] at h
      subst hn; subst h
      exact List.mem_cons_self
    · rw [if_neg hn] at h
      exact List.mem_cons_of_mem _ (ih h)

/-! ### sender side -/

theorem mem_setKey (k : Str) (v : Val) (d : Dict) (p : Str × Val) (h : p ∈ setKey k v d) : p = (k, v) ∨ p ∈ d := by
  induction d with
  | nil => simp only [setKey, List.mem_singleton] at h; exact Or.inl h
  | cons x rest ih =>
    obtain ⟨n, w⟩ := x
    unfold setKey at h
    by_cases hn : n = k
    · rw [if_pos hn] at h
      simp only [List.mem_cons] at h ⊢
      rcases h with h | h
      · subst hn; exact Or.inl h
      · exact Or.inr (Or.inr h)
    · rw [if_neg hn] at h
      simp only [List.mem_cons] at h ⊢
      rcases h with h | h
      · exact Or.inr (Or.inl h)
      · rcases ih h with h | h
        · exact Or.inl h
        · exact Or.inr (Or.inr h)

/-- the hypotheses of the round-trip theorems about the content of an exception: every argument, every attribute
    value and the traceback lines lie in the serializer's lossless domain; attribute names are distinct -/
structure Content (norm : Val → Val) (dom : Val → Prop) (e : Exc) (tb : Val) : Prop where
  args : ∀ a ∈ e.args, Lossless norm dom a
  attrs : ∀ p ∈ e.attrs, Lossless norm dom p.2
  tb : Lossless norm dom tb
  nodup : (keys e.attrs).Nodup

theorem Content.withTraceback {norm : Val → Val} {dom : Val → Prop} {e : Exc} {tb : Val}
    (h : Content norm dom e tb) : Content norm dom (withTraceback tb e) tb := by
  refine ⟨h.args, ?_, h.tb, nodup_keys_setKey _ _ _ h.nodup⟩
  intro p hp
  rcases mem_setKey _ _ _ _ hp with rfl | hp
  · exact h.tb
  · exact h.attrs p hp

/-- an exception with lossless content is serialised as it is, and what the library returns on the other side is
    its dict with `args` as a list or a tuple -/
theorem dumps_exc {W : Type} {c : Codec W} {norm : Val → Val} {dom : Val → Prop} (law : CodecLaw c norm dom)
    (e : Exc) (tb : Val) (h : Content norm dom e tb) :
    ∃ w A, c.dumps (excToDict e) = some w ∧ (A = .list e.args ∨ A = .tuple e.args) ∧
      c.loads w = some (.dict (arrivedDict e.cls A e.attrs)) := by
  obtain ⟨w, hw, hl⟩ := law.roundtrip _ (dom_excToDict law e (fun a ha => (h.args a ha).1) (fun p hp => (h.attrs p hp).1))
  obtain ⟨A, hA, hn⟩ := norm_excToDict law e (fun a ha => (h.args a ha).2) (fun p hp => (h.attrs p hp).2)
  exact ⟨w, A, hw, hA, by rw [hl, hn]⟩

theorem serializeException_ok {W : Type} {c : Codec W} {norm : Val → Val} {dom : Val → Prop} (law : CodecLaw c norm dom)
    (R : Render) (e : Exc) (tb : Val) (h : Content norm dom e tb) :
    ∃ w A, serializeException c R e tb = .ok (withTraceback tb e, w) ∧
      (A = .list e.args ∨ A = .tuple e.args) ∧
      c.loads w = some (.dict (arrivedDict e.cls A (withTraceback tb e).attrs)) := by
  obtain ⟨w, A, hw, hA, hl⟩ := dumps_exc law (withTraceback tb e) tb h.withTraceback
  refine ⟨w, A, ?_, hA, hl⟩
  unfold serializeException
  simp only [hw]

/-- the generic error always has lossless content: a text and the traceback lines -/
theorem content_fallback {W : Type} {c : Codec W} {norm : Val → Val} {dom : Val → Prop} (law : CodecLaw c norm dom)
    (msg : Str) (tb : Val) (htb : Lossless norm dom tb) : Content norm dom ⟨qPyroError, [.str msg], []⟩ tb := by
  refine ⟨?_, ?_, htb, ?_⟩
  · intro a ha
    simp only [List.mem_singleton] at ha
    subst ha
    exact ⟨law.dom_str _, law.norm_str _⟩
  · intro p hp; cases hp
  · simp [keys]

theorem serializeException_fallback {W : Type} {c : Codec W} {norm : Val → Val} {dom : Val → Prop}
    (law : CodecLaw c norm dom) (R : Render) (e : Exc) (tb : Val) (htb : Lossless norm dom tb)
    (hun : c.dumps (excToDict (withTraceback tb e)) = none) :
    ∃ w A, serializeException c R e tb = .ok (fallbackExc R c.unserErr tb (withTraceback tb e), w) ∧
      (A = .list [.str (fallbackMsg R c.unserErr (withTraceback tb e))] ∨
        A = .tuple [.str (fallbackMsg R c.unserErr (withTraceback tb e))]) ∧
      c.loads w = some (.dict (arrivedDict qPyroError A [(kTraceback, tb)])) := by
  have hc := content_fallback law (fallbackMsg R c.unserErr (withTraceback tb e)) tb htb
  obtain ⟨w, A, hw, hA, hl⟩ := dumps_exc law _ tb hc.withTraceback
  refine ⟨w, A, ?_, hA, hl⟩
  unfold serializeException
  simp only [hun, fallbackExc, hw]

/-! ### receiver side -/

theorem dictFuel_eq : dictFuel = 7 + 1 := rfl

theorem recreate_arrived (K : ClientEnv) (cls : Str) (A : Val) (args : List Val) (attrs : Dict)
    (hA : A = .list args ∨ A = .tuple args) (hres : resolves K.names cls = some cls)
    (hctor : K.ctor cls args = .ok (cls, args)) (hnd : (keys attrs).Nodup) :
    recreateItem K (.dict (arrivedDict cls A attrs)) = .ok (.exc ⟨cls, args, attrs⟩) := by
  unfold recreateItem
  simp only [lookup_arrived_class, Option.isSome_some, if_true]
  rw [dictFuel_eq, dictToClass_resolves K 7 _ cls cls (lookup_arrived_class _ _ _) (lookup_arrived_exception _ _ _) hres]
  exact makeException_arrived K cls cls A args attrs hA hctor hnd

/-- the caller's side of an exception reply that holds an arrived exception dict -/
theorem clientInvoke_arrived {W : Type} (K : ClientEnv) (c : Codec W) (batch bflag : Bool) (w : W) (cls : Str) (A : Val)
    (args : List Val) (attrs : Dict) (hl : c.loads w = some (.dict (arrivedDict cls A attrs)))
    (hA : A = .list args ∨ A = .tuple args) (hres : resolves K.names cls = some cls)
    (hctor : K.ctor cls args = .ok (cls, args)) (hnd : (keys attrs).Nodup) :
    clientInvoke K c batch (some ⟨true, bflag, w⟩) = raisedBy K ⟨cls, args, attrs⟩ := by
  unfold clientInvoke
  simp only [hl]
  unfold recreate
  simp only [arrivedDict]
  have := recreate_arrived K cls A args attrs hA hres hctor hnd
  simp only [arrivedDict] at this
  simp only [this, Except.map, if_true, raiseData]

/-! ### batch -/

theorem batchLoop_rets {W : Type} (S : ServerEnv) (c : Codec W) (R : Render) (bf : Bool) (tb : Val)
    (before : List Val) (rest : List Step) :
    batchLoop S c R bf tb (before.map .ret ++ rest) =
      match batchLoop S c R bf tb rest with
      | .done items => .done (before.map .ok ++ items)
      | .escaped x => .escaped x := by
  induction before with
  | nil => simp only [List.map_nil, List.nil_append]; cases batchLoop S c R bf tb rest <;> rfl
  | cons v vs ih =>
    simp only [List.map_cons, List.cons_append, batchLoop, ih]
    cases batchLoop S c R bf tb rest <;> rfl

theorem batchLoop_raise_indep {W : Type} (S : ServerEnv) (c : Codec W) (R : Render) (bf : Bool) (tb : Val)
    (e : Exc) (after : List Step) :
    batchLoop S c R bf tb (.raise e :: after) = batchLoop S c R bf tb [.raise e] := by
  simp only [batchLoop]

theorem map_itemLit_oks (before : List Val) (items : List BatchItem) :
    (before.map BatchItem.ok ++ items).map itemLit = before ++ items.map itemLit := by
  induction before with
  | nil => rfl
  | cons v vs ih => simp only [List.map_cons, List.cons_append, itemLit, ih]

theorem recreateItem_plain (K : ClientEnv) (v : Val) (h : hasClassDict v = false) : recreateItem K v = .ok (.data v) := by
  unfold recreateItem
  cases v with
  | dict kv =>
    unfold hasClassDict at h
    simp only [Bool.or_eq_false_iff] at h
    simp only [h.1, h.2, Bool.false_eq_true, if_false]
  | list xs => simp only [h, Bool.false_eq_true, if_false]
  | tuple xs => simp only [h, Bool.false_eq_true, if_false]
  | none => simp only [h, Bool.false_eq_true, if_false]
  | bool b => simp only [h, Bool.false_eq_true, if_false]
  | int i => simp only [h, Bool.false_eq_true, if_false]
  | str s => simp only [h, Bool.false_eq_true, if_false]
  | atom t g => simp only [h, Bool.false_eq_true, if_false]
  | obj q => simp only [h, Bool.false_eq_true, if_false]

theorem recreateItems_plain_then (K : ClientEnv) (before : List Val) (last : Val) (o : PyObj)
    (hb : ∀ v ∈ before, hasClassDict v = false) (hl : recreateItem K last = .ok o) :
    recreateItems K (before ++ [last]) = .ok (before.map .data ++ [o]) := by
  induction before with
  | nil => simp only [List.nil_append, recreateItems, hl, List.map_nil]
  | cons v vs ih =>
    simp only [List.cons_append, recreateItems, recreateItem_plain K v (hb v List.mem_cons_self),
      ih (fun x hx => hb x (List.mem_cons_of_mem _ hx)), List.map_cons]

theorem batchResults_datas (K : ClientEnv) (before : List Val) (rest : List PyObj) :
    batchResults K (before.map .data ++ rest) =
      { batchResults K rest with yielded := before ++ (batchResults K rest).yielded } := by
  induction before with
  | nil => rfl
  | cons v vs ih => simp only [List.map_cons, List.cons_append, batchResults, ih]

/-- the arrived form of a wrapper dict -/
def arrivedWrapper (inner : Dict) : Dict := [(kClass, .str wrapperTag), (kWrapped, .dict inner)]

theorem norm_wrapperToDict {W : Type} {c : Codec W} {norm : Val → Val} {dom : Val → Prop} (law : CodecLaw c norm dom)
    (e : Exc) (hargs : ∀ a ∈ e.args, norm a = a) (hattrs : ∀ p ∈ e.attrs, norm p.2 = p.2) :
    ∃ A, (A = .list e.args ∨ A = .tuple e.args) ∧
      norm (wrapperToDict e) = .dict (arrivedWrapper (arrivedDict e.cls A e.attrs)) := by
  obtain ⟨A, hA, hn⟩ := norm_excToDict law e hargs hattrs
  refine ⟨A, hA, ?_⟩
  unfold wrapperToDict arrivedWrapper
  rw [law.norm_dict]
  simp only [List.map_cons, List.map_nil, law.norm_str, hn]

theorem dom_wrapperToDict {W : Type} {c : Codec W} {norm : Val → Val} {dom : Val → Prop} (law : CodecLaw c norm dom)
    (e : Exc) (hargs : ∀ a ∈ e.args, dom a) (hattrs : ∀ p ∈ e.attrs, dom p.2) : dom (wrapperToDict e) := by
  unfold wrapperToDict
  apply law.dom_dict
  intro p hp
  simp only [List.mem_cons, List.not_mem_nil, or_false] at hp
  rcases hp with rfl | rfl
  · exact law.dom_str _
  · exact dom_excToDict law e hargs hattrs

theorem wrapperTag_facts : hasDunder wrapperTag = false ∧ wrapperTag ∉ fixedPyroClasses ∧
    utilPrefix.isPrefixOf wrapperTag = false ∧ errorsPrefix.isPrefixOf wrapperTag = false ∧
    ¬ wrapperTag = qStructError := by decide

theorem recreate_wrapper (K : ClientEnv) (cls : Str) (A : Val) (args : List Val) (attrs : Dict)
    (hreg : wrapperTag ∉ K.names.registry)
    (hA : A = .list args ∨ A = .tuple args) (hres : resolves K.names cls = some cls)
    (hctor : K.ctor cls args = .ok (cls, args)) (hnd : (keys attrs).Nodup) :
    recreateItem K (.dict (arrivedWrapper (arrivedDict cls A attrs))) = .ok (.wrapper ⟨cls, args, attrs⟩) := by
  obtain ⟨w1, w2, w3, w4, w5⟩ := wrapperTag_facts
  have hk : lookup kClass (arrivedWrapper (arrivedDict cls A attrs)) = some (.str wrapperTag) := by
    simp [arrivedWrapper, lookup]
  have hw : lookup kWrapped (arrivedWrapper (arrivedDict cls A attrs)) = some (.dict (arrivedDict cls A attrs)) := by
    simp [arrivedWrapper, lookup, kClass_ne_kWrapped]
  unfold recreateItem
  simp only [hk, Option.isSome_some, if_true]
  rw [dictFuel_eq]
  unfold dictToClass
  simp only [hk, hreg, if_false, w1, Bool.false_eq_true, w2, w3, w4, w5, if_true, hw, lookup_arrived_class,
    Option.isSome_some]
  rw [dictToClass_resolves K 6 _ cls cls (lookup_arrived_class _ _ _) (lookup_arrived_exception _ _ _) hres,
    makeException_arrived K cls cls A args attrs hA hctor hnd]

/-! ### the server's decision to reply -/

/-- the class relations under which handleRequest's handler catches the exception and sends it back:
    an `Exception`, not a ConnectionClosedError, and a SerializeError or no CommunicationError at all -/
structure Sendable (f : Flags) : Prop where
  exc : f.isException = true
  notClosed : f.isConnClosed = false
  serOrNotComm : f.isSerialize = true ∨ f.isComm = false

/-- the connection's fate after an error reply: kept, unless the method is a callback or the exception is a
    CommunicationError / SecurityError (re-raised after the reply) -/
def fateAfter (f : Flags) (isCallback : Bool) : ConnFate :=
  if (isCallback || f.isComm || f.isSecurity) = true then .dropped else .active

theorem errorPath_sent {W : Type} (S : ServerEnv) (c : Codec W) (R : Render) (xv : Exc) (tb : Val) (cb : Bool)
    (hs : Sendable (S.info xv.cls)) (sent : Exc) (w : W) (h : serializeException c R xv tb = .ok (sent, w)) :
    errorPath S c R xv tb cb = ⟨some ⟨true, false, w⟩, fateAfter (S.info xv.cls) cb⟩ := by
  unfold errorPath fateAfter
  have hcond : repliesTo (S.info xv.cls) = true := by
    unfold repliesTo
    rw [hs.notClosed]
    rcases hs.serOrNotComm with h1 | h1 <;> simp [h1]
  simp only [hcond, if_true, h, reraisesAfter]
  rfl

/-! ### the concrete tree codec satisfies the law -/

theorem relistL_eq_map (f : Bool) (xs : List Val) : relistL f xs = xs.map (relist f) := by
  induction xs with
  | nil => rfl
  | cons x xs ih => simp only [relistL, ih, List.map_cons]

theorem relistD_eq_map (f : Bool) (kv : Dict) : relistD f kv = kv.map (fun p => (p.1, relist f p.2)) := by
  induction kv with
  | nil => rfl
  | cons p r ih => obtain ⟨k, v⟩ := p; simp only [relistD, ih, List.map_cons]

theorem hasObjL_false (xs : List Val) (h : ∀ x ∈ xs, hasObj x = false) : hasObjL xs = false := by
  induction xs with
  | nil => rfl
  | cons x xs ih =>
    simp only [hasObjL, h x List.mem_cons_self, ih (fun y hy => h y (List.mem_cons_of_mem _ hy)), Bool.or_false]

theorem hasObjD_false (kv : Dict) (h : ∀ p ∈ kv, hasObj p.2 = false) : hasObjD kv = false := by
  induction kv with
  | nil => rfl
  | cons p r ih =>
    obtain ⟨k, v⟩ := p
    simp only [hasObjD, h (k, v) List.mem_cons_self, ih (fun y hy => h y (List.mem_cons_of_mem _ hy)), Bool.or_false]

theorem treeCodec_law (seqOut : Bool) (err : Exc) :
    CodecLaw (treeCodec seqOut err) (relist seqOut) (fun v => hasObj v = false) where
  roundtrip := by
    intro v hv
    refine ⟨v, ?_, rfl⟩
    simp only [treeCodec, hv, Bool.false_eq_true, if_false]
  dom_str := fun _ => rfl
  dom_bool := fun _ => rfl
  dom_list := fun xs h => by unfold hasObj; exact hasObjL_false xs h
  dom_tuple := fun xs h => by unfold hasObj; exact hasObjL_false xs h
  dom_dict := fun kv h => by unfold hasObj; exact hasObjD_false kv h
  norm_str := fun _ => rfl
  norm_bool := fun _ => rfl
  norm_list := fun xs => by simp only [relist, relistL_eq_map]
  norm_tuple := fun xs => by
    cases seqOut
    · right; simp only [relist, relistL_eq_map, Bool.false_eq_true, if_false]
    · left; simp only [relist, relistL_eq_map, if_true]
  norm_dict := fun kv => by simp only [relist, relistD_eq_map]

end Pyro.Exceptions
