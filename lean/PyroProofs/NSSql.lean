/-
  NSSql.lean — `SqlStorage` meets the storage contract `StoreOK`.
   * `run_eval`: a program under a failure counter either fails, or does what it does without a counter;
   * the relational effect of every method (`eval`) on the map the tables stand for (`Db.abs`);
   * `sql_storeOK`.
-/
import PyroModel.Sql
import PyroProofs.NSMem

namespace Pyro.NS.Sql

open Pyro.NS

/-! ### failure counter -/

theorem run_eval {α : Type} (p : Prog α) : ∀ (db : Db) (f : Fuel),
    run p db f = none ∨ ∃ a db' f', run p db f = some (a, db', f') ∧ eval p db = some (a, db') := by
  induction p with
  | ret a => intro db f; exact .inr ⟨a, db, f, rfl, rfl⟩
  | step st k ih =>
    intro db f
    have key : ∀ f', (match st.run db with
        | none => (none : Option (α × Db × Fuel))
        | some (b, db') => run (k b) db' f') = none ∨
        ∃ a db' f'', (match st.run db with
          | none => (none : Option (α × Db × Fuel))
          | some (b, db') => run (k b) db' f') = some (a, db', f'') ∧ eval (.step st k) db = some (a, db') := by
      intro f'
      unfold eval
      cases st.run db with
      | none => exact .inl rfl
      | some r => obtain ⟨b, db'⟩ := r; exact ih b db' f'
    cases f with
    | none => simp only [run]; exact key _
    | some n =>
      cases n with
      | zero => exact .inl rfl
      | succ n => simp only [run]; exact key _

theorem run_none {α : Type} (p : Prog α) : ∀ (db : Db),
    run p db none = (eval p db).map fun r => (r.1, r.2, none) := by
  induction p with
  | ret a => intro db; rfl
  | step st k ih =>
    intro db
    unfold run eval
    cases st.run db with
    | none => rfl
    | some r => obtain ⟨b, db'⟩ := r; exact ih b db'

theorem transaction_cases {α : Type} (p : Prog α) (s : SqlState) :
    transaction p s = (none, s) ∨
    ∃ a db' f', transaction p s = (some a, ⟨db', f'⟩) ∧ eval p s.db = some (a, db') := by
  unfold transaction
  rcases run_eval p s.db s.fuel with h | ⟨a, db', f', h, he⟩
  · rw [h]; exact .inl rfl
  · rw [h]; exact .inr ⟨a, db', f', rfl, he⟩

/-! ### invariant of the tables -/

/-- ids are a key; every metadata row references an existing name row (FOREIGN KEY) -/
def SqlInv (db : Db) : Prop :=
  db.names.Pairwise (fun a b => a.id ≠ b.id) ∧ ∀ m ∈ db.metas, ∃ r ∈ db.names, r.id = m.object

/-- UNIQUE(name) -/
def NodupNames (db : Db) : Prop := db.names.Pairwise (fun a b => a.name ≠ b.name)

theorem nodupNames_of_abs {db : Db} (h : NodupKeys db.abs) : NodupNames db := by
  unfold NodupKeys Db.abs at h
  rw [List.pairwise_map] at h
  exact h

theorem entryOf_name (db : Db) (r : NameRow) : (db.entryOf r).name = r.name := rfl

theorem eq_of_pairwise {α β : Type} {f : α → β} {l : List α} (h : l.Pairwise (fun a b => f a ≠ f b))
    {a b : α} (ha : a ∈ l) (hb : b ∈ l) (hf : f a = f b) : a = b := by
  induction l with
  | nil => cases ha
  | cons x l ih =>
    rw [List.pairwise_cons] at h
    rcases List.mem_cons.mp ha with rfl | ha'
    · rcases List.mem_cons.mp hb with rfl | hb'
      · rfl
      · exact absurd hf (h.1 b hb')
    · rcases List.mem_cons.mp hb with rfl | hb'
      · exact absurd hf.symm (h.1 a ha')
      · exact ih h.2 ha' hb'

/-! ### evaluation of the building blocks -/

theorem eval_query {α β : Type} (tag : Stmt) (args : List Arg) (f : Db → β) (k : β → Prog α) (db : Db) :
    eval (.step (query tag args f) k) db = eval (k (f db)) db := rfl

theorem eval_withMetaRows {α : Type} : ∀ (rs : List NameRow) (k : List Entry → Prog α) (db : Db),
    eval (withMetaRows rs k) db = eval (k (rs.map db.entryOf)) db
  | [], k, db => rfl
  | r :: rs, k, db => by
    unfold withMetaRows
    rw [selMetaByObj, eval_query, eval_withMetaRows rs]
    rfl

theorem rowsNoMeta_eq (db : Db) (rs : List NameRow) : rowsNoMeta rs = (rs.map db.entryOf).map (Entry.strip false) := by
  unfold rowsNoMeta
  rw [List.map_map]
  rfl

theorem eval_listRows {α : Type} (t1 t2 : Stmt) (a1 a2 : List Arg) (f : Db → List NameRow) (wm : Bool) (k : List Entry → Prog α) (db : Db) :
    eval (listRows (query t1 a1 f) (query t2 a2 f) wm k) db = eval (k (((f db).map db.entryOf).map (Entry.strip wm))) db := by
  unfold listRows
  cases wm with
  | true => simp only [if_true, eval_query, eval_withMetaRows, map_strip_true]
  | false => simp only [Bool.false_eq_true, if_false, eval_query, rowsNoMeta_eq db]

theorem filter_rows_entries (db : Db) (q : Entry → Bool) :
    (db.names.filter (fun r => q (db.entryOf r))).map db.entryOf = db.abs.filter q := by
  unfold Db.abs
  rw [List.filter_map]
  rfl

/-! ### deleting and inserting one entry -/

def Db.del (db : Db) (i : Nat) : Db := ⟨db.names.filter (·.id != i), db.metas.filter (·.object != i)⟩

def Db.delName (db : Db) (n : Str) : Db :=
  match db.names.find? (·.name == n) with
  | some r => db.del r.id
  | none => db

def Db.ins (db : Db) (n u : Str) (t : Tags) : Db :=
  ⟨db.names ++ [⟨db.newId, n, u⟩], db.metas ++ t.map (fun m => ⟨db.newId, m⟩)⟩

theorem eval_deleteIfFound_some {α : Type} (i : Nat) (k : Prog α) (db : Db) :
    eval (deleteIfFound (some i) k) db = eval k (db.del i) := by
  have h : (db.metas.filter (·.object != i)).any (·.object == i) = false := by
    rw [Bool.eq_false_iff]
    intro hc
    obtain ⟨m, hm, he⟩ := List.any_eq_true.mp hc
    have h2 : (m.object != i) = true := (List.mem_filter.mp hm).2
    rw [bne, he] at h2; cases h2
  simp only [deleteIfFound, eval, delMetaByObj, delNameById, h, Bool.false_eq_true, if_false]
  rfl

theorem eval_selDel {α : Type} (n : Str) (k : Prog α) (db : Db) :
    eval (.step (selIdByName n) fun o => deleteIfFound o k) db = eval k (db.delName n) := by
  rw [selIdByName, eval_query]
  unfold Db.delName
  cases db.names.find? (·.name == n) with
  | none => rfl
  | some r => exact eval_deleteIfFound_some r.id k db

theorem tagsOf_del {db : Db} {i j : Nat} (h : j ≠ i) : (db.del i).tagsOf j = db.tagsOf j := by
  unfold Db.tagsOf Db.del
  simp only [List.filter_filter]
  congr 1
  apply List.filter_congr
  intro m _
  by_cases hm : m.object = j
  · subst hm; simp [h]
  · simp [hm]

theorem abs_del {db : Db} (hi : SqlInv db) (hn : NodupNames db) {r0 : NameRow} (hr : r0 ∈ db.names) :
    (db.del r0.id).abs = db.abs.filter (fun e => !(e.name == r0.name)) ∧ SqlInv (db.del r0.id) ∧
      NodupNames (db.del r0.id) ∧ (db.del r0.id).names.any (·.name == r0.name) = false := by
  have hfilt : db.names.filter (·.id != r0.id) = db.names.filter (fun r => !((db.entryOf r).name == r0.name)) := by
    apply List.filter_congr
    intro r hrm
    simp only [entryOf_name]
    by_cases h : r.id = r0.id
    · have := eq_of_pairwise hi.1 hrm hr h
      subst this; simp
    · have : r.name ≠ r0.name := fun hc => h (congrArg _ (eq_of_pairwise hn hrm hr hc))
      have e1 : (r.id != r0.id) = true := by rw [bne_iff_ne]; exact h
      have e2 : (r.name == r0.name) = false := by rw [beq_eq_false_iff_ne]; exact this
      rw [e1, e2]; rfl
  refine ⟨?_, ⟨?_, ?_⟩, ?_, ?_⟩
  · rw [← filter_rows_entries db, ← hfilt]
    unfold Db.abs
    show List.map (db.del r0.id).entryOf (db.names.filter (·.id != r0.id)) = _
    apply List.map_congr_left
    intro r hrm
    have hne : r.id ≠ r0.id := by simpa using (List.mem_filter.mp hrm).2
    unfold Db.entryOf
    rw [tagsOf_del hne]
  · exact List.Pairwise.filter _ hi.1
  · intro m hm
    obtain ⟨hm1, hm2⟩ := List.mem_filter.mp hm
    obtain ⟨r, hrm, hre⟩ := hi.2 m hm1
    refine ⟨r, List.mem_filter.mpr ⟨hrm, ?_⟩, hre⟩
    rw [hre]; exact hm2
  · exact List.Pairwise.filter _ hn
  · rw [Bool.eq_false_iff]
    intro hc
    obtain ⟨r, hrm, hre⟩ := List.any_eq_true.mp hc
    obtain ⟨h1, h2⟩ := List.mem_filter.mp hrm
    have : r = r0 := eq_of_pairwise hn h1 hr (by simpa using hre)
    subst this
    simp at h2

theorem abs_delName {db : Db} (hi : SqlInv db) (hn : NodupNames db) (n : Str) :
    (db.delName n).abs = db.abs.filter (fun e => !(e.name == n)) ∧ SqlInv (db.delName n) ∧
      NodupNames (db.delName n) ∧ (db.delName n).names.any (·.name == n) = false := by
  unfold Db.delName
  cases hf : db.names.find? (·.name == n) with
  | some r =>
    have hr : r ∈ db.names := List.mem_of_find?_eq_some hf
    have hrn : r.name = n := by simpa using List.find?_some hf
    subst hrn
    exact abs_del hi hn hr
  | none =>
    have hnone : db.names.any (·.name == n) = false := by
      rw [Bool.eq_false_iff]
      intro hc
      obtain ⟨r, hrm, hre⟩ := List.any_eq_true.mp hc
      exact (List.find?_eq_none.mp hf) r hrm hre
    refine ⟨?_, hi, hn, hnone⟩
    have : db.abs.any (·.name == n) = false := by
      unfold Db.abs
      rw [List.any_map]
      exact hnone
    exact (filter_ne_of_not_any this).symm

theorem le_foldr_max : ∀ (l : List Nat) (x : Nat), x ∈ l → x ≤ l.foldr max 0
  | [], _, h => by cases h
  | a :: l, x, h => by
    simp only [List.foldr_cons]
    rcases List.mem_cons.mp h with rfl | h'
    · exact Nat.le_max_left _ _
    · exact Nat.le_trans (le_foldr_max l x h') (Nat.le_max_right _ _)

theorem lt_newId {db : Db} {r : NameRow} (h : r ∈ db.names) : r.id < db.newId := by
  unfold Db.newId
  exact Nat.lt_succ_of_le (le_foldr_max _ _ (List.mem_map_of_mem h))

theorem eval_insMetaAll {α : Type} (oid : Nat) : ∀ (t : Tags) (k : Prog α) (db : Db),
    db.names.any (·.id == oid) = true →
    eval (insMetaAll oid t k) db = eval k ⟨db.names, db.metas ++ t.map (fun m => ⟨oid, m⟩)⟩
  | [], k, db, _ => by simp [insMetaAll]
  | m :: ms, k, db, h => by
    unfold insMetaAll
    simp only [eval, insMeta, h, if_true]
    rw [eval_insMetaAll oid ms k (⟨db.names, db.metas ++ [(⟨oid, m⟩ : MetaRow)]⟩ : Db) h]
    simp

theorem eval_insert {α : Type} (n u : Str) (t : Tags) (k : Prog α) (db : Db) (h : db.names.any (·.name == n) = false) :
    eval (.step (insName n u) fun oid => insMetaAll oid t k) db = eval k (db.ins n u t) := by
  simp only [eval, insName, h, Bool.false_eq_true, if_false]
  rw [eval_insMetaAll]
  · rfl
  · simp

theorem abs_ins {db : Db} (hi : SqlInv db) (n u : Str) (t : Tags) :
    (db.ins n u t).abs = db.abs ++ [⟨n, u, t⟩] ∧ SqlInv (db.ins n u t) := by
  have hold : ∀ r ∈ db.names, (db.ins n u t).tagsOf r.id = db.tagsOf r.id := by
    intro r hr
    have hlt := lt_newId hr
    unfold Db.tagsOf Db.ins
    simp only [List.filter_append, List.map_append]
    have : (t.map (fun m => (⟨db.newId, m⟩ : MetaRow))).filter (·.object == r.id) = [] := by
      rw [List.filter_eq_nil_iff]
      intro m hm
      obtain ⟨x, _, rfl⟩ := List.mem_map.mp hm
      simp only [beq_iff_eq]
      omega
    rw [this]; simp
  have hnew : (db.ins n u t).tagsOf db.newId = t := by
    unfold Db.tagsOf Db.ins
    simp only [List.filter_append, List.map_append]
    have h1 : db.metas.filter (·.object == db.newId) = [] := by
      rw [List.filter_eq_nil_iff]
      intro m hm
      obtain ⟨r, hr, hre⟩ := hi.2 m hm
      have := lt_newId hr
      simp only [beq_iff_eq]
      omega
    have h2 : (t.map (fun m => (⟨db.newId, m⟩ : MetaRow))).filter (·.object == db.newId) = t.map (fun m => ⟨db.newId, m⟩) := by
      rw [List.filter_eq_self]
      intro m hm
      obtain ⟨x, _, rfl⟩ := List.mem_map.mp hm
      simp
    rw [h1, h2, List.map_map]
    have : ((fun (x : MetaRow) => x.tag) ∘ fun m => (⟨db.newId, m⟩ : MetaRow)) = id := rfl
    rw [this, List.map_id]
    rfl
  constructor
  · unfold Db.abs
    show List.map (db.ins n u t).entryOf (db.names ++ [⟨db.newId, n, u⟩]) = _
    rw [List.map_append]
    congr 1
    · apply List.map_congr_left
      intro r hr
      unfold Db.entryOf
      rw [hold r hr]
    · simp only [List.map_cons, List.map_nil, Db.entryOf, hnew]
  · constructor
    · show List.Pairwise _ (db.names ++ [⟨db.newId, n, u⟩])
      rw [List.pairwise_append]
      refine ⟨hi.1, List.pairwise_singleton _ _, ?_⟩
      intro a ha b hb
      rw [List.mem_singleton.mp hb]
      have := lt_newId ha
      simp only [ne_eq]
      omega
    · intro m hm
      rcases List.mem_append.mp hm with h1 | h1
      · obtain ⟨r, hr, hre⟩ := hi.2 m h1
        exact ⟨r, List.mem_append_left _ hr, hre⟩
      · obtain ⟨x, _, rfl⟩ := List.mem_map.mp h1
        exact ⟨⟨db.newId, n, u⟩, List.mem_append_right _ (List.mem_singleton.mpr rfl), rfl⟩

/-! ### the methods -/

theorem eval_pSetItem {db : Db} (hi : SqlInv db) (hn : NodupNames db) (n u : Str) (t : Tags) :
    ∃ db', eval (pSetItem n u t) db = some ((), db') ∧ db'.abs = Spec.put db.abs ⟨n, u, t⟩ ∧ SqlInv db' := by
  obtain ⟨h1, h2, _, h4⟩ := abs_delName hi hn n
  obtain ⟨h5, h6⟩ := abs_ins h2 n u t
  refine ⟨(db.delName n).ins n u t, ?_, ?_, h6⟩
  · unfold pSetItem
    rw [pragmaFk, eval_query, eval_selDel, eval_insert n u t _ _ h4, commit, eval_query]
    rfl
  · rw [h5, h1]; rfl

theorem eval_pDelItem {db : Db} (hi : SqlInv db) (hn : NodupNames db) (n : Str) :
    ∃ db', eval (pDelItem n) db = some (true, db') ∧ db'.abs = db.abs.filter (fun e => !(e.name == n)) ∧ SqlInv db' := by
  obtain ⟨h1, h2, _, _⟩ := abs_delName hi hn n
  refine ⟨db.delName n, ?_, h1, h2⟩
  unfold pDelItem
  rw [pragmaFk, eval_query, eval_selDel, commit, eval_query]
  rfl

def Db.removeAll : List Str → Db → Db
  | [], db => db
  | n :: ns, db => Db.removeAll ns (db.delName n)

theorem eval_removeLoop {α : Type} : ∀ (items : List Str) (k : Prog α) (db : Db),
    eval (removeLoop items k) db = eval k (Db.removeAll items db)
  | [], k, db => rfl
  | n :: ns, k, db => by
    unfold removeLoop
    rw [eval_selDel, eval_removeLoop ns]
    rfl

theorem abs_removeAll : ∀ (items : List Str) {db : Db}, SqlInv db → NodupNames db →
    (Db.removeAll items db).abs = db.abs.filter (fun e => !items.contains e.name) ∧ SqlInv (Db.removeAll items db)
  | [], db, hi, _ => by
    refine ⟨?_, hi⟩
    simp only [Db.removeAll, List.contains_nil, Bool.not_false]
    exact (List.filter_eq_self.mpr fun _ _ => rfl).symm
  | n :: ns, db, hi, hn => by
    obtain ⟨h1, h2, h3, _⟩ := abs_delName hi hn n
    obtain ⟨h5, h6⟩ := abs_removeAll ns h2 h3
    refine ⟨?_, h6⟩
    unfold Db.removeAll
    rw [h5, h1, List.filter_filter]
    apply List.filter_congr
    intro e _
    simp only [List.contains_cons, Bool.not_or, Bool.and_comm]

theorem eval_pRemoveItems {db : Db} (hi : SqlInv db) (hn : NodupNames db) (items : List Str) :
    ∃ db', eval (pRemoveItems items) db = some ((), db') ∧
      db'.abs = db.abs.filter (fun e => !items.contains e.name) ∧ SqlInv db' := by
  obtain ⟨h1, h2⟩ := abs_removeAll items hi hn
  refine ⟨Db.removeAll items db, ?_, h1, h2⟩
  unfold pRemoveItems
  rw [pragmaFk, eval_query, eval_removeLoop, commit, eval_query]
  rfl

theorem eval_pGetItem (db : Db) (n : Str) :
    eval (pGetItem n) db = some (db.abs.find? (·.name == n), db) := by
  unfold pGetItem
  rw [selIdUriByName, eval_query]
  have : db.abs.find? (·.name == n) = (db.names.find? (·.name == n)).map db.entryOf := by
    unfold Db.abs
    rw [List.find?_map]
    rfl
  rw [this]
  cases hf : db.names.find? (·.name == n) with
  | none => rfl
  | some r =>
    have hrn : r.name = n := by simpa using List.find?_some hf
    subst hrn
    rfl

theorem eval_pOptPrefix (db : Db) (p : Str) (wm : Bool) :
    eval (pOptPrefix p wm) db = some (some (Spec.select db.abs (fun e => p.isPrefixOf e.name) wm), db) := by
  unfold pOptPrefix selPrefix
  rw [eval_listRows]
  have : (fun (r : NameRow) => r.name.take p.length == p) = fun r => p.isPrefixOf (db.entryOf r).name := by
    funext r; exact take_beq_eq_isPrefixOf p r.name
  rw [this, filter_rows_entries db (fun e => p.isPrefixOf e.name)]
  rfl

theorem eval_pEverything (db : Db) (wm : Bool) :
    eval (pEverything wm) db = some (db.abs.map (Entry.strip wm), db) := by
  unfold pEverything selAll
  rw [eval_listRows]
  rfl

/-- the `IN (…) GROUP BY object HAVING COUNT(metadata)=?` test on one row is "has all the tags" -/
theorem metaAll_row (db : Db) (r : NameRow) (ts : Tags) (hne : ts ≠ []) (hnd : (db.tagsOf r.id).Nodup) :
    (decide (0 < (db.metas.filter fun m => m.object == r.id && (dedup ts).contains m.tag).length) &&
      (db.metas.filter fun m => m.object == r.id && (dedup ts).contains m.tag).length == (dedup ts).length)
    = hasAll ts (db.entryOf r) := by
  have hlen : (db.metas.filter fun m => m.object == r.id && (dedup ts).contains m.tag).length
      = ((db.tagsOf r.id).filter ((dedup ts).contains ·)).length := by
    unfold Db.tagsOf
    rw [List.filter_map, List.length_map, List.filter_filter]
    congr 1
    apply List.filter_congr
    intro m _
    simp only [Function.comp, Bool.and_comm]
  have hpos : 0 < (dedup ts).length := by
    cases h : dedup ts with
    | nil => exact absurd (dedup_eq_nil.mp h) hne
    | cons _ _ => simp
  have hall : hasAll ts (db.entryOf r) = (dedup ts).all ((db.tagsOf r.id).contains ·) := by
    unfold hasAll Db.entryOf
    rw [Bool.eq_iff_iff, List.all_eq_true, List.all_eq_true]
    exact ⟨fun h x hx => h x (mem_dedup.mp hx), fun h x hx => h x (mem_dedup.mpr hx)⟩
  rw [hlen, hall]
  have key := count_eq_length_iff (nodup_dedup ts) hnd
  rw [Bool.eq_iff_iff, Bool.and_eq_true, decide_eq_true_eq, beq_iff_eq]
  constructor
  · intro h; exact key.mp h.2
  · intro h
    have := key.mpr h
    exact ⟨by omega, this⟩

theorem metaAny_row (db : Db) (r : NameRow) (ts : Tags) :
    (db.metas.any fun m => m.object == r.id && ts.contains m.tag) = hasAny ts (db.entryOf r) := by
  unfold hasAny Db.entryOf Db.tagsOf
  rw [Bool.eq_iff_iff, List.any_eq_true, List.any_eq_true]
  constructor
  · rintro ⟨m, hm, hc⟩
    rw [Bool.and_eq_true] at hc
    refine ⟨m.tag, List.contains_iff_mem.mp hc.2, ?_⟩
    simp only [List.contains_iff_mem, List.mem_map, List.mem_filter]
    exact ⟨m, ⟨hm, hc.1⟩, rfl⟩
  · rintro ⟨x, hx, hc⟩
    simp only [List.contains_iff_mem, List.mem_map, List.mem_filter] at hc
    obtain ⟨m, ⟨hm, ho⟩, rfl⟩ := hc
    exact ⟨m, hm, by rw [Bool.and_eq_true]; exact ⟨ho, List.contains_iff_mem.mpr hx⟩⟩

theorem eval_pOptMeta {db : Db} (hs : SpecInv db.abs) (all : Bool) (ts : Tags) (hne : ts ≠ []) (wm : Bool) :
    eval (pOptMeta all ts wm) db
      = some (some (Spec.select db.abs (if all then hasAll ts else hasAny ts) wm), db) := by
  have htags : ∀ r ∈ db.names, (db.tagsOf r.id).Nodup := by
    intro r hr
    exact hs.2 (db.entryOf r) (List.mem_map_of_mem hr)
  have hrows : ∀ rs : List NameRow,
      eval (if wm = true then withMetaRows rs fun l => Prog.ret (some l) else Prog.ret (some (rowsNoMeta rs))) db
        = some (some ((rs.map db.entryOf).map (Entry.strip wm)), db) := by
    intro rs
    cases wm with
    | true => simp only [if_true, eval_withMetaRows, map_strip_true]; rfl
    | false => simp only [Bool.false_eq_true, if_false, rowsNoMeta_eq db]; rfl
  unfold pOptMeta
  cases all with
  | true =>
    simp only [if_true, selMetaAll, eval_query, hrows]
    have : db.names.filter (fun r =>
        decide (0 < (db.metas.filter fun m => m.object == r.id && (dedup ts).contains m.tag).length) &&
          (db.metas.filter fun m => m.object == r.id && (dedup ts).contains m.tag).length == (dedup ts).length)
        = db.names.filter (fun r => hasAll ts (db.entryOf r)) :=
      List.filter_congr fun r hr => metaAll_row db r ts hne (htags r hr)
    rw [this, filter_rows_entries]
    rfl
  | false =>
    simp only [Bool.false_eq_true, if_false, selMetaAny, eval_query, hrows]
    have : db.names.filter (fun r => db.metas.any fun m => m.object == r.id && ts.contains m.tag)
        = db.names.filter (fun r => hasAny ts (db.entryOf r)) :=
      List.filter_congr fun r _ => metaAny_row db r ts
    rw [this, filter_rows_entries]
    rfl

/-! ### the contract -/

def absS (s : SqlState) : List Entry := s.db.abs

/-- `F` = "storage statements may fail"; when they may not, no failure is scheduled -/
def invS (F : Prop) (s : SqlState) : Prop := SqlInv s.db ∧ (¬F → s.fuel = none)

theorem transaction_nofuel {α : Type} (p : Prog α) (s : SqlState) (h : s.fuel = none) {a : α} {db' : Db}
    (he : eval p s.db = some (a, db')) : transaction p s = (some a, ⟨db', none⟩) := by
  unfold transaction
  rw [h, run_none, he]
  rfl

theorem ro_of_eval {α : Type} {p : Prog α} {good : α → Prop} (F : Prop) (s : SqlState) (hi : invS F s)
    (h : ∃ a, eval p s.db = some (a, s.db) ∧ good a) :
    RO absS (invS F) F s (transaction p s) good := by
  obtain ⟨a, he, hg⟩ := h
  rcases transaction_cases p s with ht | ⟨a', db', f', ht, he'⟩
  · rw [ht]
    refine ⟨rfl, hi, ?_, fun a ha => by cases ha⟩
    intro _
    apply Classical.byContradiction
    intro hF
    have := transaction_nofuel p s (hi.2 hF) he
    rw [ht] at this; cases this
  · rw [he] at he'; cases he'
    rw [ht]
    refine ⟨rfl, ⟨hi.1, ?_⟩, (fun h => by cases h), fun a' ha => by cases ha; exact hg⟩
    intro hF
    have := transaction_nofuel p s (hi.2 hF) he
    rw [ht] at this; cases this; rfl

theorem mu_of_eval {α : Type} {p : Prog α} {good : α → List Entry → Prop} (F : Prop) (s : SqlState) (hi : invS F s)
    (h : ∃ a db', eval p s.db = some (a, db') ∧ SqlInv db' ∧ good a db'.abs) :
    MU absS (invS F) F s (transaction p s) good := by
  obtain ⟨a, db', he, h1, h2⟩ := h
  rcases transaction_cases p s with ht | ⟨a', db'', f', ht, he'⟩
  · rw [ht]
    refine ⟨hi, ?_, fun a ha => by cases ha⟩
    intro _
    refine ⟨?_, rfl⟩
    apply Classical.byContradiction
    intro hF
    have := transaction_nofuel p s (hi.2 hF) he
    rw [ht] at this; cases this
  · rw [he] at he'; cases he'
    rw [ht]
    refine ⟨⟨h1, ?_⟩, (fun hc => by cases hc), fun a' ha => by cases ha; exact h2⟩
    intro hF
    have := transaction_nofuel p s (hi.2 hF) he
    rw [ht] at this; cases this; rfl

theorem sql_storeOK (F : Prop) : StoreOK absS (invS F) F sqlStore where
  len s hi _ := ro_of_eval F s hi ⟨_, rfl, by simp [absS, Db.abs]⟩
  contains n s hi _ := ro_of_eval F s hi ⟨_, rfl, by simp only [absS, Db.abs, List.any_map]; rfl⟩
  getItem n s hi _ := ro_of_eval F s hi ⟨_, eval_pGetItem s.db n, rfl⟩
  iter s hi _ := ro_of_eval F s hi ⟨_, rfl, by simp only [absS, Db.abs, List.map_map]; exact .refl _⟩
  optPrefix p wm s hi _ := ro_of_eval F s hi ⟨_, eval_pOptPrefix s.db p wm, fun l hl => by cases hl; exact .refl _⟩
  optRegex r wm s hi _ := ⟨rfl, hi, (fun h => by cases h), fun o h => by cases h; rfl⟩
  optMeta all ts wm s hi hs hne :=
    ro_of_eval F s hi ⟨_, eval_pOptMeta hs all ts hne wm, fun l hl => by cases hl; exact .refl _⟩
  everything wm s hi _ := ro_of_eval F s hi ⟨_, eval_pEverything s.db wm, .refl _⟩
  setItem n u t s hi hs _ := by
    obtain ⟨db', h1, h2, h3⟩ := eval_pSetItem hi.1 (nodupNames_of_abs hs.1) n u t
    exact mu_of_eval F s hi ⟨(), db', h1, h3, by rw [h2]; exact .refl _⟩
  delItem n s hi hs := by
    obtain ⟨db', h1, h2, h3⟩ := eval_pDelItem hi.1 (nodupNames_of_abs hs.1) n
    exact mu_of_eval F s hi ⟨true, db', h1, h3, fun _ => rfl, by rw [h2]; exact .refl _⟩
  removeItems items s hi hs := by
    obtain ⟨db', h1, h2, h3⟩ := eval_pRemoveItems hi.1 (nodupNames_of_abs hs.1) items
    exact mu_of_eval F s hi ⟨(), db', h1, h3, by rw [h2]; exact .refl _⟩

end Pyro.NS.Sql
