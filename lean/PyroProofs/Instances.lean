/-
  Helper lemmas for C09 (PyroModel/Instances.lean): the shape of one `_getInstance` step, the
  well-formedness invariant of the instance tables, and the trace-level lemmas the property theorems
  are assembled from.
-/
import PyroModel.Instances
import PyroProofs.Lock

namespace Pyro.Inst

open Pyro.Lock

/-! ### tables -/

theorem setSlot_same (tab : Table) (sl : Slot) (v : Option Instance) : setSlot tab sl v sl = v := by
  simp [setSlot]

theorem setSlot_ne (tab : Table) (sl x : Slot) (v : Option Instance) (h : x ≠ sl) :
    setSlot tab sl v x = tab x := by
  simp [setSlot, h]

theorem clearConn_some (tab : Table) (c : Nat) (sl : Slot) (b : Instance)
    (h : clearConn tab c sl = some b) : tab sl = some b := by
  cases sl with
  | single k => simpa [clearConn] using h
  | sess c' k =>
    simp only [clearConn] at h
    split at h
    · cases h
    · exact h

theorem clearConn_none (tab : Table) (c : Nat) (sl : Slot) (h : tab sl = none) :
    clearConn tab c sl = none := by
  cases sl with
  | single k => simpa [clearConn] using h
  | sess c' k =>
    simp only [clearConn]
    split
    · rfl
    · exact h

theorem clearConn_own (tab : Table) (c k : Nat) : clearConn tab c (.sess c k) = none := by
  simp [clearConn]

/-- does the event throw away the content of the slot? (only `open`/`close` of the slot's connection) -/
def clears : Event → Slot → Bool
  | .openConn c _, .sess c' _ => c == c'
  | .close c, .sess c' _ => c == c'
  | _, _ => false

theorem clearConn_keep (tab : Table) (c : Nat) (sl : Slot) (e : Event)
    (he : e = .close c ∨ ∃ k, e = .openConn c k) (h : clears e sl = false) :
    clearConn tab c sl = tab sl := by
  cases sl with
  | single k => simp [clearConn]
  | sess c' k =>
    have hne : ¬ c' = c := by
      intro heq
      rcases he with rfl | ⟨_, rfl⟩ <;> simp [clears, heq] at h
    simp [clearConn, hne]

/-! ### the shape of one call -/

theorem createInstance_idx {cr : Creator} {o : Outcome} {n : Nat} {i : Instance} {c : Bool}
    (h : createInstance cr o n = .inst i c) : i.idx = n := by
  cases cr <;> cases o <;> simp [createInstance] at h <;> (obtain ⟨rfl, _⟩ := h; rfl)

/-- What a call can do: fail and change nothing; hand out the instance found in its slot and change
    nothing; or create instance number `s.next` and store it in its slot (if it has one). -/
def CallShape (ts : Tests) (slot : Option Slot) (s s1 : State) (r : Res) : Prop :=
  (s1 = s ∧ ∀ i c d, r ≠ .served i c d) ∨
  (s1 = s ∧ ∃ sl i, slot = some sl ∧ s.tab sl = some i ∧ reuse (testOf ts sl) i = true ∧
      r = .served i false false) ∨
  (∃ i called, i.idx = s.next ∧
      (∀ sl a, slot = some sl → s.tab sl = some a → reuse (testOf ts sl) a = false) ∧
      s1 = { s with next := s.next + 1, tab := storeIn s.tab slot i } ∧ r = .served i true called)

theorem createIn_shape (ts : Tests) (cr : Creator) (slot : Option Slot) (o : Outcome) (s : State)
    (h2 : ∀ sl a, slot = some sl → s.tab sl = some a → reuse (testOf ts sl) a = false) :
    CallShape ts slot s (createIn cr slot o s).1 (createIn cr slot o s).2 := by
  unfold createIn
  cases h : createInstance cr o s.next with
  | inst i called => exact Or.inr (Or.inr ⟨i, called, createInstance_idx h, h2, rfl, rfl⟩)
  | typeError => exact Or.inl ⟨rfl, by intros; simp⟩
  | raised c => exact Or.inl ⟨rfl, by intros; simp⟩

theorem findOrCreate_shape (ts : Tests) (cr : Creator) (sl : Slot) (o : Outcome) (s : State) :
    CallShape ts (some sl) s (findOrCreate (testOf ts sl) cr sl o s).1
      (findOrCreate (testOf ts sl) cr sl o s).2 := by
  unfold findOrCreate
  cases h : s.tab sl with
  | none =>
    exact createIn_shape ts cr (some sl) o s
      (by intro sl' a h1 h2; cases h1; rw [h] at h2; cases h2)
  | some i =>
    cases hr : reuse (testOf ts sl) i with
    | true =>
      simp only [hr, if_true]
      exact Or.inr (Or.inl ⟨rfl, sl, i, rfl, h, hr, rfl⟩)
    | false =>
      simp only [hr, Bool.false_eq_true, if_false]
      exact createIn_shape ts cr (some sl) o s
        (by intro sl' a h1 h2; cases h1; rw [h] at h2; cases h2; exact hr)

theorem getInstance_shape (ts : Tests) (spec : ClassSpec) (c k : Nat) (o : Outcome) (s : State) :
    CallShape ts (slotOf spec.mode c k) s (getInstance ts spec c k o s).1 (getInstance ts spec c k o s).2 := by
  unfold getInstance
  cases spec.mode with
  | single => exact findOrCreate_shape ts spec.creator (.single k) o s
  | session => exact findOrCreate_shape ts spec.creator (.sess c k) o s
  | percall => exact createIn_shape ts spec.creator none o s (by intro sl a h; cases h)
  | invalid => exact Or.inl ⟨rfl, by intros; simp⟩

/-- a slot that holds a reusable instance hands it out -/
theorem getInstance_hit (ts : Tests) (spec : ClassSpec) (c k : Nat) (o : Outcome) (s : State) (sl : Slot)
    (a : Instance) (hsl : slotOf spec.mode c k = some sl) (h : s.tab sl = some a)
    (hr : reuse (testOf ts sl) a = true) :
    getInstance ts spec c k o s = (s, .served a false false) := by
  unfold getInstance
  cases hm : spec.mode with
  | single =>
    rw [hm] at hsl; simp only [slotOf, Option.some.injEq] at hsl; subst hsl
    simp only [findOrCreate, h]
    simp only [testOf] at hr; rw [hr]; rfl
  | session =>
    rw [hm] at hsl; simp only [slotOf, Option.some.injEq] at hsl; subst hsl
    simp only [findOrCreate, h]
    simp only [testOf] at hr; rw [hr]; rfl
  | percall => rw [hm] at hsl; cases hsl
  | invalid => rw [hm] at hsl; cases hsl

/-- an empty slot and a constructor/creator that succeeds: a new instance is made -/
theorem getInstance_miss (ts : Tests) (spec : ClassSpec) (c k : Nat) (t : Bool) (e : Nat) (s : State) (sl : Slot)
    (hsl : slotOf spec.mode c k = some sl) (h : s.tab sl = none) :
    (getInstance ts spec c k (.ok t e) s).2 = .served ⟨s.next, t, e⟩ true (spec.creator == .callable) := by
  unfold getInstance
  cases hm : spec.mode with
  | single =>
    rw [hm] at hsl; simp only [slotOf, Option.some.injEq] at hsl; subst hsl
    simp only [findOrCreate, h, createIn]
    cases spec.creator <;> rfl
  | session =>
    rw [hm] at hsl; simp only [slotOf, Option.some.injEq] at hsl; subst hsl
    simp only [findOrCreate, h, createIn]
    cases spec.creator <;> rfl
  | percall => rw [hm] at hsl; cases hsl
  | invalid => rw [hm] at hsl; cases hsl

/-- who called the creator: never on re-use; on a creation attempt exactly when the class has a
    (truthy) creator; a TypeError can only come from a creator -/
def creatorOk (cr : Creator) : Res → Prop
  | .served _ false cc => cc = false
  | .served _ true cc => cc = (cr == .callable)
  | .typeError => cr = .callable
  | .raised cc => cc = (cr == .callable)
  | _ => True

theorem getInstance_creator (ts : Tests) (spec : ClassSpec) (c k : Nat) (o : Outcome) (s : State) :
    creatorOk spec.creator (getInstance ts spec c k o s).2 := by
  have hc : ∀ sl, creatorOk spec.creator (createIn spec.creator sl o s).2 := by
    intro sl
    unfold createIn createInstance
    cases spec.creator <;> cases o <;> simp [creatorOk]
  have hf : ∀ t sl, creatorOk spec.creator (findOrCreate t spec.creator sl o s).2 := by
    intro t sl
    unfold findOrCreate
    cases s.tab sl with
    | none => exact hc _
    | some i =>
      simp only
      cases reuse t i with
      | true => simp [creatorOk]
      | false => simpa using hc _
  unfold getInstance
  cases spec.mode with
  | single => exact hf _ _
  | session => exact hf _ _
  | percall => exact hc _
  | invalid => simp [creatorOk]

/-! ### one event -/

theorem stepEv_served {ts : Tests} {spec : Nat → ClassSpec} {s : State} {e : Event} {a : Instance} {x y : Bool}
    (h : (stepEv ts spec s e).2 = .served a x y) : ∃ c k o, e = .call c k o := by
  cases e with
  | call c k o => exact ⟨c, k, o, rfl⟩
  | openConn c kp => simp [stepEv] at h
  | close c =>
    simp only [stepEv] at h
    split at h <;> simp at h

theorem storeIn_none (tab : Table) (i : Instance) : storeIn tab none i = tab := rfl

theorem storeIn_some (tab : Table) (sl : Slot) (i : Instance) :
    storeIn tab (some sl) i = setSlot tab sl (some i) := rfl

theorem next_mono (ts : Tests) (spec : Nat → ClassSpec) (s : State) (e : Event) :
    s.next ≤ (stepEv ts spec s e).1.next := by
  cases e with
  | openConn c kp => simp [stepEv]
  | close c => simp only [stepEv]; split <;> simp
  | call c k o =>
    simp only [stepEv]
    rcases getInstance_shape ts (spec k) c k o s with ⟨hs, _⟩ | ⟨hs, _⟩ | ⟨i, called, h1, h2, hs, hr⟩
    · rw [hs]; exact Nat.le_refl _
    · rw [hs]; exact Nat.le_refl _
    · rw [hs]; exact Nat.le_succ _

/-- Well-formed tables: every stored instance was created before now, and no instance sits in two
    slots. -/
structure WF (s : State) : Prop where
  bound : ∀ sl a, s.tab sl = some a → a.idx < s.next
  inj : ∀ sl sl' a b, s.tab sl = some a → s.tab sl' = some b → a.idx = b.idx → sl = sl'

theorem wf_init : WF State.init := by
  refine ⟨?_, ?_⟩
  · intro sl a h; simp [State.init] at h
  · intro sl sl' a b h; simp [State.init] at h

theorem wf_sub {s s' : State} (h : WF s) (hn : s'.next = s.next)
    (ht : ∀ sl b, s'.tab sl = some b → s.tab sl = some b) : WF s' :=
  ⟨fun sl a ha => hn ▸ h.bound sl a (ht sl a ha),
   fun sl sl' a b ha hb => h.inj sl sl' a b (ht sl a ha) (ht sl' b hb)⟩

theorem wf_store (s : State) (slot : Option Slot) (i : Instance) (h : WF s) (h1 : i.idx = s.next) :
    WF { s with next := s.next + 1, tab := storeIn s.tab slot i } := by
  cases slot with
  | none =>
    refine ⟨?_, ?_⟩
    · intro sl a ha; exact Nat.lt_succ_of_lt (h.bound sl a ha)
    · intro sl sl' a b ha hb; exact h.inj sl sl' a b ha hb
  | some sl0 =>
    refine ⟨?_, ?_⟩
    · intro sl a ha
      simp only [storeIn_some] at ha
      by_cases hx : sl = sl0
      · subst hx; rw [setSlot_same] at ha; cases ha; simp only; omega
      · rw [setSlot_ne _ _ _ _ hx] at ha; exact Nat.lt_succ_of_lt (h.bound sl a ha)
    · intro sl sl' a b ha hb hab
      simp only [storeIn_some] at ha hb
      by_cases hx : sl = sl0 <;> by_cases hy : sl' = sl0
      · rw [hx, hy]
      · subst hx; rw [setSlot_same] at ha; cases ha
        rw [setSlot_ne _ _ _ _ hy] at hb
        have := h.bound sl' b hb; omega
      · subst hy; rw [setSlot_same] at hb; cases hb
        rw [setSlot_ne _ _ _ _ hx] at ha
        have := h.bound sl a ha; omega
      · rw [setSlot_ne _ _ _ _ hx] at ha; rw [setSlot_ne _ _ _ _ hy] at hb
        exact h.inj sl sl' a b ha hb hab

theorem wf_step (ts : Tests) (spec : Nat → ClassSpec) (s : State) (e : Event) (h : WF s) :
    WF (stepEv ts spec s e).1 := by
  cases e with
  | openConn c kp => exact wf_sub h rfl (fun sl b hb => clearConn_some _ _ _ _ hb)
  | close c =>
    simp only [stepEv]
    split
    · exact h
    · exact wf_sub h rfl (fun sl b hb => clearConn_some _ _ _ _ hb)
  | call c k o =>
    simp only [stepEv]
    rcases getInstance_shape ts (spec k) c k o s with ⟨hs, _⟩ | ⟨hs, _⟩ | ⟨i, called, h1, h2, hs, hr⟩
    · rw [hs]; exact h
    · rw [hs]; exact h
    · rw [hs]; exact wf_store s _ i h h1

/-- an index that no `P`-slot holds, and that is already used up, never enters a `P`-slot -/
theorem avoid_step (ts : Tests) (spec : Nat → ClassSpec) (s : State) (e : Event) (P : Slot → Prop) (x : Nat)
    (hx : x < s.next) (h : ∀ sl, P sl → ∀ b, s.tab sl = some b → b.idx ≠ x) :
    ∀ sl, P sl → ∀ b, (stepEv ts spec s e).1.tab sl = some b → b.idx ≠ x := by
  cases e with
  | openConn c kp => intro sl hp b hb; exact h sl hp b (clearConn_some _ _ _ _ hb)
  | close c =>
    simp only [stepEv]
    split
    · exact h
    · intro sl hp b hb; exact h sl hp b (clearConn_some _ _ _ _ hb)
  | call c k o =>
    simp only [stepEv]
    rcases getInstance_shape ts (spec k) c k o s with ⟨hs, _⟩ | ⟨hs, _⟩ | ⟨i, called, h1, h2, hs, hr⟩
    · rw [hs]; exact h
    · rw [hs]; exact h
    · rw [hs]
      intro sl hp b hb
      cases hsl : slotOf (spec k).mode c k with
      | none => rw [hsl] at hb; exact h sl hp b hb
      | some sl0 =>
        rw [hsl] at hb
        simp only [storeIn_some] at hb
        by_cases hxx : sl = sl0
        · subst hxx; rw [setSlot_same] at hb; cases hb; omega
        · rw [setSlot_ne _ _ _ _ hxx] at hb; exact h sl hp b hb

/-- a slot holding a reusable instance keeps it until its connection is opened anew or closed -/
theorem stable_step (ts : Tests) (spec : Nat → ClassSpec) (s : State) (e : Event) (sl : Slot) (a : Instance)
    (h : s.tab sl = some a) (hr : reuse (testOf ts sl) a = true) (hc : clears e sl = false) :
    (stepEv ts spec s e).1.tab sl = some a := by
  cases e with
  | openConn c kp =>
    simp only [stepEv]
    rw [clearConn_keep _ _ _ (.openConn c kp) (Or.inr ⟨kp, rfl⟩) hc]; exact h
  | close c =>
    simp only [stepEv]
    split
    · exact h
    · simp only; rw [clearConn_keep _ _ _ (.close c) (Or.inl rfl) hc]; exact h
  | call c k o =>
    simp only [stepEv]
    rcases getInstance_shape ts (spec k) c k o s with ⟨hs, _⟩ | ⟨hs, _⟩ | ⟨i, called, h1, h2, hs, hr'⟩
    · rw [hs]; exact h
    · rw [hs]; exact h
    · rw [hs]
      cases hsl : slotOf (spec k).mode c k with
      | none => exact h
      | some sl0 =>
        simp only [storeIn_some]
        by_cases hx : sl = sl0
        · subst hx
          have := h2 sl a hsl h
          rw [hr] at this; cases this
        · rw [setSlot_ne _ _ _ _ hx]; exact h

/-- an empty slot stays empty until a call addresses it -/
theorem none_step (ts : Tests) (spec : Nat → ClassSpec) (s : State) (e : Event) (sl : Slot)
    (h : s.tab sl = none)
    (hc : ∀ c k o, e = .call c k o → slotOf (spec k).mode c k ≠ some sl) :
    (stepEv ts spec s e).1.tab sl = none := by
  cases e with
  | openConn c kp => exact clearConn_none _ _ _ h
  | close c =>
    simp only [stepEv]
    split
    · exact h
    · exact clearConn_none _ _ _ h
  | call c k o =>
    simp only [stepEv]
    rcases getInstance_shape ts (spec k) c k o s with ⟨hs, _⟩ | ⟨hs, _⟩ | ⟨i, called, h1, h2, hs, hr'⟩
    · rw [hs]; exact h
    · rw [hs]; exact h
    · rw [hs]
      cases hsl : slotOf (spec k).mode c k with
      | none => exact h
      | some sl0 =>
        simp only [storeIn_some]
        have hx : sl ≠ sl0 := by
          intro heq; subst heq; exact hc c k o rfl hsl
        rw [setSlot_ne _ _ _ _ hx]; exact h

/-- after a call was served from a slot, the slot holds the instance that served it -/
theorem served_stored (ts : Tests) (spec : Nat → ClassSpec) (s : State) (c k : Nat) (o : Outcome) (sl : Slot)
    (a : Instance) (x y : Bool) (hsl : slotOf (spec k).mode c k = some sl)
    (hr : (stepEv ts spec s (.call c k o)).2 = .served a x y) :
    (stepEv ts spec s (.call c k o)).1.tab sl = some a := by
  simp only [stepEv] at hr ⊢
  rcases getInstance_shape ts (spec k) c k o s with ⟨hs, hf⟩ | ⟨hs, sl', i, h1, h2, h3, hr'⟩ |
      ⟨i, called, h1, h2, hs, hr'⟩
  · exact absurd hr (hf a x y)
  · rw [hs]; rw [hr'] at hr; cases hr
    rw [hsl] at h1; cases h1; exact h2
  · rw [hs]; rw [hr'] at hr; cases hr
    simp only [hsl, storeIn_some, setSlot_same]

theorem served_bound (ts : Tests) (spec : Nat → ClassSpec) (s : State) (e : Event) (a : Instance) (x y : Bool)
    (hwf : WF s) (hr : (stepEv ts spec s e).2 = .served a x y) :
    a.idx < (stepEv ts spec s e).1.next := by
  obtain ⟨c, k, o, rfl⟩ := stepEv_served hr
  simp only [stepEv] at hr ⊢
  rcases getInstance_shape ts (spec k) c k o s with ⟨hs, hf⟩ | ⟨hs, sl', i, h1, h2, h3, hr'⟩ |
      ⟨i, called, h1, h2, hs, hr'⟩
  · exact absurd hr (hf a x y)
  · rw [hs]; rw [hr'] at hr; cases hr; exact hwf.bound _ _ h2
  · rw [hs]; rw [hr'] at hr; cases hr; simp only; omega

/-- after a call was served by `a`, no slot other than the call's own holds `a` -/
theorem absent_after (ts : Tests) (spec : Nat → ClassSpec) (s : State) (c k : Nat) (o : Outcome)
    (a : Instance) (x y : Bool) (hwf : WF s)
    (hr : (stepEv ts spec s (.call c k o)).2 = .served a x y) :
    ∀ sl, slotOf (spec k).mode c k ≠ some sl →
      ∀ b, (stepEv ts spec s (.call c k o)).1.tab sl = some b → b.idx ≠ a.idx := by
  simp only [stepEv] at hr ⊢
  rcases getInstance_shape ts (spec k) c k o s with ⟨hs, hf⟩ | ⟨hs, sl', i, h1, h2, h3, hr'⟩ |
      ⟨i, called, h1, h2, hs, hr'⟩
  · exact absurd hr (hf a x y)
  · rw [hs]; rw [hr'] at hr; cases hr
    intro sl hne b hb heq
    have := hwf.inj sl sl' b a hb h2 heq
    rw [this] at hne; exact hne h1
  · rw [hs]; rw [hr'] at hr; cases hr
    intro sl hne b hb
    cases hsl : slotOf (spec k).mode c k with
    | none =>
      rw [hsl] at hb
      have := hwf.bound sl b hb; omega
    | some sl0 =>
      rw [hsl] at hb hne
      simp only [storeIn_some] at hb
      have hx : sl ≠ sl0 := fun heq => hne (by rw [heq])
      rw [setSlot_ne _ _ _ _ hx] at hb
      have := hwf.bound sl b hb; omega

/-- how `next` moves: by one exactly when an instance was created -/
def isCreated : Res → Bool
  | .served _ true _ => true
  | _ => false

theorem next_step (ts : Tests) (spec : Nat → ClassSpec) (s : State) (e : Event) :
    (stepEv ts spec s e).1.next = s.next + (isCreated (stepEv ts spec s e).2).toNat := by
  cases e with
  | openConn c kp => simp [stepEv, isCreated]
  | close c => simp only [stepEv]; split <;> simp [isCreated]
  | call c k o =>
    show (getInstance ts (spec k) c k o s).1.next = s.next + (isCreated (getInstance ts (spec k) c k o s).2).toNat
    rcases getInstance_shape ts (spec k) c k o s with ⟨hs, hf⟩ | ⟨hs, sl', i, h1, h2, h3, hr'⟩ |
        ⟨i, called, h1, h2, hs, hr'⟩
    · have : isCreated (getInstance ts (spec k) c k o s).2 = false := by
        cases hr : (getInstance ts (spec k) c k o s).2 with
        | served i cr cc => exact absurd hr (hf i cr cc)
        | _ => rfl
      rw [hs, this]; rfl
    · rw [hs, hr']; rfl
    · rw [hs, hr']; rfl

theorem keep_step (ts : Tests) (spec : Nat → ClassSpec) (s : State) (e : Event) (c : Nat)
    (h : s.keep c = false) (he : e ≠ .openConn c true) : (stepEv ts spec s e).1.keep c = false := by
  cases e with
  | openConn c' kp =>
    simp only [stepEv]
    by_cases hc : c = c'
    · subst hc
      cases kp with
      | true => exact absurd rfl he
      | false => simp
    · simp [hc, h]
  | close c' => simp only [stepEv]; split <;> exact h
  | call c' k o =>
    simp only [stepEv]
    rcases getInstance_shape ts (spec k) c' k o s with ⟨hs, _⟩ | ⟨hs, _⟩ | ⟨i, called, h1, h2, hs, hr'⟩
    · rw [hs]; exact h
    · rw [hs]; exact h
    · rw [hs]; exact h

/-- a failed creation (wrong type, exception) or an invalid mode stores nothing -/
theorem fail_unchanged (ts : Tests) (spec : ClassSpec) (c k : Nat) (o : Outcome) (s : State)
    (h : ∀ i x y, (getInstance ts spec c k o s).2 ≠ .served i x y) : (getInstance ts spec c k o s).1 = s := by
  rcases getInstance_shape ts spec c k o s with ⟨hs, _⟩ | ⟨hs, _⟩ | ⟨i, called, h1, h2, hs, hr'⟩
  · exact hs
  · exact hs
  · exact absurd hr' (h i true called)

/-! ### whole histories (index form) -/

abbrev trace (ts : Tests) (spec : Nat → ClassSpec) (s : State) (h : List Event) : List Res :=
  (runHist ts spec s h).2

theorem trace_zero (ts : Tests) (spec : Nat → ClassSpec) (s : State) (e : Event) (es : List Event) :
    (trace ts spec s (e :: es))[0]? = some (stepEv ts spec s e).2 := rfl

theorem trace_succ (ts : Tests) (spec : Nat → ClassSpec) (s : State) (e : Event) (es : List Event) (j : Nat) :
    (trace ts spec s (e :: es))[j + 1]? = (trace ts spec (stepEv ts spec s e).1 es)[j]? := rfl

theorem wf_run (ts : Tests) (spec : Nat → ClassSpec) : ∀ (h : List Event) (s : State),
    WF s → WF (runHist ts spec s h).1
  | [], _, hw => hw
  | e :: es, s, hw => wf_run ts spec es _ (wf_step ts spec s e hw)

theorem served_stable (ts : Tests) (spec : Nat → ClassSpec) (sl : Slot) (a : Instance) :
    ∀ (h : List Event) (s : State) (j c k : Nat) (o : Outcome),
      s.tab sl = some a → reuse (testOf ts sl) a = true →
      (∀ m e, m < j → h[m]? = some e → clears e sl = false) →
      h[j]? = some (.call c k o) → slotOf (spec k).mode c k = some sl →
      (trace ts spec s h)[j]? = some (.served a false false) := by
  intro h
  induction h with
  | nil => intro s j c k o _ _ _ hj; simp at hj
  | cons e es ih =>
    intro s j c k o hs hr hcl hj hsl
    cases j with
    | zero =>
      simp only [List.getElem?_cons_zero, Option.some.injEq] at hj
      subst hj
      rw [trace_zero]
      simp only [stepEv, getInstance_hit ts (spec k) c k o s sl a hsl hs hr]
    | succ j =>
      rw [trace_succ]
      simp only [List.getElem?_cons_succ] at hj
      refine ih _ j c k o ?_ hr ?_ hj hsl
      · exact stable_step ts spec s e sl a hs hr (hcl 0 e (Nat.succ_pos _) rfl)
      · intro m e' hm he'
        exact hcl (m + 1) e' (Nat.succ_lt_succ hm) (by simpa using he')

/-- Two calls addressing the same slot, the slot not thrown away in between, the instance reusable
    under the source's test: the second call is served by the very instance that served the first,
    and creates nothing. -/
theorem slot_unique (ts : Tests) (spec : Nat → ClassSpec) :
    ∀ (h : List Event) (s : State) (i j c k : Nat) (o : Outcome) (c' k' : Nat) (o' : Outcome) (sl : Slot)
      (a : Instance) (x y : Bool),
      i < j → h[i]? = some (.call c k o) → h[j]? = some (.call c' k' o') →
      slotOf (spec k).mode c k = some sl → slotOf (spec k').mode c' k' = some sl →
      (∀ m e, i < m → m < j → h[m]? = some e → clears e sl = false) →
      reuse (testOf ts sl) a = true →
      (trace ts spec s h)[i]? = some (.served a x y) →
      (trace ts spec s h)[j]? = some (.served a false false) := by
  intro h
  induction h with
  | nil => intro s i j c k o c' k' o' sl a x y _ hi; simp at hi
  | cons e es ih =>
    intro s i j c k o c' k' o' sl a x y hij hi hj hsl hsl' hcl hr hti
    cases j with
    | zero => omega
    | succ j =>
      simp only [List.getElem?_cons_succ] at hj
      rw [trace_succ]
      cases i with
      | zero =>
        simp only [List.getElem?_cons_zero, Option.some.injEq] at hi
        subst hi
        rw [trace_zero] at hti
        simp only [Option.some.injEq] at hti
        refine served_stable ts spec sl a es _ j c' k' o' ?_ hr ?_ hj hsl'
        · exact served_stored ts spec s c k o sl a x y hsl hti
        · intro m e' hm he'
          exact hcl (m + 1) e' (Nat.succ_pos _) (Nat.succ_lt_succ hm) (by simpa using he')
      | succ i =>
        simp only [List.getElem?_cons_succ] at hi
        rw [trace_succ] at hti
        refine ih _ i j c k o c' k' o' sl a x y (Nat.lt_of_succ_lt_succ hij) hi hj hsl hsl' ?_ hr hti
        intro m e' h1 h2 he'
        exact hcl (m + 1) e' (Nat.succ_lt_succ h1) (Nat.succ_lt_succ h2) (by simpa using he')

/-- an index already used up and absent from all `P`-slots is never handed out by a call on a `P`-slot -/
theorem avoid (ts : Tests) (spec : Nat → ClassSpec) (P : Slot → Prop) (x : Nat) :
    ∀ (h : List Event) (s : State) (j c k : Nat) (o : Outcome) (b : Instance) (cr cc : Bool),
      x < s.next → (∀ sl, P sl → ∀ b, s.tab sl = some b → b.idx ≠ x) →
      h[j]? = some (.call c k o) → (∀ sl, slotOf (spec k).mode c k = some sl → P sl) →
      (trace ts spec s h)[j]? = some (.served b cr cc) → b.idx ≠ x := by
  intro h
  induction h with
  | nil => intro s j c k o b cr cc _ _ hj; simp at hj
  | cons e es ih =>
    intro s j c k o b cr cc hx hP hj hsl ht
    cases j with
    | zero =>
      simp only [List.getElem?_cons_zero, Option.some.injEq] at hj
      subst hj
      rw [trace_zero] at ht
      simp only [Option.some.injEq, stepEv] at ht
      rcases getInstance_shape ts (spec k) c k o s with ⟨hs, hf⟩ | ⟨hs, sl', i, h1, h2, h3, hr'⟩ |
          ⟨i, called, h1, h2, hs, hr'⟩
      · exact absurd ht (hf b cr cc)
      · rw [hr'] at ht; cases ht; exact hP sl' (hsl sl' h1) _ h2
      · rw [hr'] at ht; cases ht; omega
    | succ j =>
      simp only [List.getElem?_cons_succ] at hj
      rw [trace_succ] at ht
      exact ih _ j c k o b cr cc (Nat.lt_of_lt_of_le hx (next_mono ts spec s e))
        (avoid_step ts spec s e P x hx hP) hj hsl ht

/-- Calls that do not address the same slot are never served by the same instance. -/
theorem exclusive (ts : Tests) (spec : Nat → ClassSpec) :
    ∀ (h : List Event) (s : State) (i j c k : Nat) (o : Outcome) (c' k' : Nat) (o' : Outcome)
      (a : Instance) (x y : Bool) (b : Instance) (x' y' : Bool),
      WF s → i < j → h[i]? = some (.call c k o) → h[j]? = some (.call c' k' o') →
      (∀ sl, slotOf (spec k).mode c k = some sl → slotOf (spec k').mode c' k' ≠ some sl) →
      (trace ts spec s h)[i]? = some (.served a x y) →
      (trace ts spec s h)[j]? = some (.served b x' y') → a.idx ≠ b.idx := by
  intro h
  induction h with
  | nil => intro s i j c k o c' k' o' a x y b x' y' _ _ hi; simp at hi
  | cons e es ih =>
    intro s i j c k o c' k' o' a x y b x' y' hwf hij hi hj hne hti htj
    cases j with
    | zero => omega
    | succ j =>
      simp only [List.getElem?_cons_succ] at hj
      rw [trace_succ] at htj
      cases i with
      | zero =>
        simp only [List.getElem?_cons_zero, Option.some.injEq] at hi
        subst hi
        rw [trace_zero] at hti
        simp only [Option.some.injEq] at hti
        have hb := served_bound ts spec s _ a x y hwf hti
        have habs := absent_after ts spec s c k o a x y hwf hti
        have := avoid ts spec (fun sl => slotOf (spec k).mode c k ≠ some sl) a.idx es _ j c' k' o' b x' y'
          hb habs hj (by intro sl hs heq; exact hne sl heq hs) htj
        exact fun heq => this heq.symm
      | succ i =>
        simp only [List.getElem?_cons_succ] at hi
        rw [trace_succ] at hti
        exact ih _ i j c k o c' k' o' a x y b x' y' (wf_step ts spec s e hwf)
          (Nat.lt_of_succ_lt_succ hij) hi hj hne hti htj

theorem created_ge (ts : Tests) (spec : Nat → ClassSpec) :
    ∀ (h : List Event) (s : State) (j : Nat) (a : Instance) (cc : Bool),
      (trace ts spec s h)[j]? = some (.served a true cc) → s.next ≤ a.idx := by
  intro h
  induction h with
  | nil => intro s j a cc ht; simp [trace, runHist] at ht
  | cons e es ih =>
    intro s j a cc ht
    cases j with
    | zero =>
      rw [trace_zero] at ht
      simp only [Option.some.injEq] at ht
      obtain ⟨c, k, o, rfl⟩ := stepEv_served ht
      simp only [stepEv] at ht
      rcases getInstance_shape ts (spec k) c k o s with ⟨hs, hf⟩ | ⟨hs, sl', i, h1, h2, h3, hr'⟩ |
          ⟨i, called, h1, h2, hs, hr'⟩
      · exact absurd ht (hf a true cc)
      · rw [hr'] at ht; cases ht
      · rw [hr'] at ht; cases ht; omega
    | succ j =>
      rw [trace_succ] at ht
      exact Nat.le_trans (next_mono ts spec s e) (ih _ j a cc ht)

/-- a newly created instance is different from every instance that served an earlier call -/
theorem created_fresh (ts : Tests) (spec : Nat → ClassSpec) :
    ∀ (h : List Event) (s : State) (i j : Nat) (a b : Instance) (x y cc : Bool),
      WF s → i < j → (trace ts spec s h)[i]? = some (.served b x y) →
      (trace ts spec s h)[j]? = some (.served a true cc) → b.idx ≠ a.idx := by
  intro h
  induction h with
  | nil => intro s i j a b x y cc _ _ hi; simp [trace, runHist] at hi
  | cons e es ih =>
    intro s i j a b x y cc hwf hij hti htj
    cases j with
    | zero => omega
    | succ j =>
      rw [trace_succ] at htj
      cases i with
      | zero =>
        rw [trace_zero] at hti
        simp only [Option.some.injEq] at hti
        have h1 := served_bound ts spec s e b x y hwf hti
        have h2 := created_ge ts spec es _ j a cc htj
        omega
      | succ i =>
        rw [trace_succ] at hti
        exact ih _ i j a b x y cc (wf_step ts spec s e hwf) (Nat.lt_of_succ_lt_succ hij) hti htj

/-- a slot that is empty and not addressed until call `j` makes call `j` create -/
theorem none_created (ts : Tests) (spec : Nat → ClassSpec) (sl : Slot) :
    ∀ (h : List Event) (s : State) (j c k : Nat) (t : Bool) (q : Nat),
      s.tab sl = none →
      (∀ m c' k' o', m < j → h[m]? = some (.call c' k' o') → slotOf (spec k').mode c' k' ≠ some sl) →
      h[j]? = some (.call c k (.ok t q)) → slotOf (spec k).mode c k = some sl →
      ∃ n, (trace ts spec s h)[j]? = some (.served ⟨n, t, q⟩ true ((spec k).creator == .callable)) := by
  intro h
  induction h with
  | nil => intro s j c k t q _ _ hj; simp at hj
  | cons e es ih =>
    intro s j c k t q hs hno hj hsl
    cases j with
    | zero =>
      simp only [List.getElem?_cons_zero, Option.some.injEq] at hj
      subst hj
      refine ⟨s.next, ?_⟩
      rw [trace_zero]
      simp only [stepEv, getInstance_miss ts (spec k) c k t q s sl hsl hs]
    | succ j =>
      simp only [List.getElem?_cons_succ] at hj
      rw [trace_succ]
      refine ih _ j c k t q ?_ ?_ hj hsl
      · exact none_step ts spec s e sl hs (fun c' k' o' he => hno 0 c' k' o' (Nat.succ_pos _) (by simp [he]))
      · intro m c' k' o' hm he
        exact hno (m + 1) c' k' o' (Nat.succ_lt_succ hm) (by simpa using he)

def createdCount (tr : List Res) : Nat := (tr.map fun r => (isCreated r).toNat).sum

theorem next_count (ts : Tests) (spec : Nat → ClassSpec) : ∀ (h : List Event) (s : State),
    (runHist ts spec s h).1.next = s.next + createdCount (trace ts spec s h) := by
  intro h
  induction h with
  | nil => intro s; simp [runHist, createdCount, trace]
  | cons e es ih =>
    intro s
    have h1 := ih (stepEv ts spec s e).1
    have h2 := next_step ts spec s e
    simp only [trace, createdCount] at h1
    simp only [runHist, trace, createdCount, List.map_cons, List.sum_cons]
    rw [h1, h2]; omega

/-- what event `j` observed is what one step observed in the state reached before it -/
theorem trace_at (ts : Tests) (spec : Nat → ClassSpec) :
    ∀ (h : List Event) (s : State) (j : Nat) (e : Event) (r : Res),
      h[j]? = some e → (trace ts spec s h)[j]? = some r → ∃ s', r = (stepEv ts spec s' e).2 := by
  intro h
  induction h with
  | nil => intro s j e r hj; simp at hj
  | cons e0 es ih =>
    intro s j e r hj ht
    cases j with
    | zero =>
      simp only [List.getElem?_cons_zero, Option.some.injEq] at hj
      subst hj
      rw [trace_zero] at ht
      simp only [Option.some.injEq] at ht
      exact ⟨s, ht.symm⟩
    | succ j =>
      simp only [List.getElem?_cons_succ] at hj
      rw [trace_succ] at ht
      exact ih _ j e r hj ht

theorem reuse_of_truthy (t : Test) (a : Instance) (h : a.truthy = true) : reuse t a = true := by
  cases t <;> simp [reuse, h]

/-- a `percall` class never hands out an existing instance -/
theorem percall_created (ts : Tests) (spec : ClassSpec) (c k : Nat) (o : Outcome) (s : State)
    (a : Instance) (x y : Bool) (hm : spec.mode = .percall)
    (hr : (getInstance ts spec c k o s).2 = .served a x y) : x = true := by
  rcases getInstance_shape ts spec c k o s with ⟨hs, hf⟩ | ⟨hs, sl', i, h1, h2, h3, hr'⟩ |
      ⟨i, called, h1, h2, hs, hr'⟩
  · exact absurd hr (hf a x y)
  · rw [hm] at h1; cases h1
  · rw [hr'] at hr; cases hr; rfl

/-! ### the `single` branch under its lock -/

theorem toOp_run (ts : Tests) (spec : Nat → ClassSpec) (cl : SCall) (s : State)
    (hm : (spec cl.cls).mode = .single) :
    (toOp ts spec cl).run s = getInstance ts (spec cl.cls) cl.conn cl.cls cl.o s := by
  simp only [Op.run, toOp, singleBody, runSteps, List.foldl_cons, List.foldl_nil, getInstance, hm, findOrCreate]
  cases h : s.tab (.single cl.cls) with
  | none =>
    simp only [makeStep, createIn]
    cases createInstance (spec cl.cls).creator cl.o s.next <;> rfl
  | some i =>
    simp only
    cases reuse ts.single i with
    | true => rfl
    | false =>
      simp only [makeStep, createIn, Bool.false_eq_true, if_false]
      cases createInstance (spec cl.cls).creator cl.o s.next <;> rfl

theorem seqRun_eq_runHist (ts : Tests) (spec : Nat → ClassSpec) :
    ∀ (calls : List SCall) (s : State), (∀ cl ∈ calls, (spec cl.cls).mode = .single) →
      seqRun (calls.map (toOp ts spec)) s = runHist ts spec s (calls.map SCall.toEvent) := by
  intro calls
  induction calls with
  | nil => intro s _; rfl
  | cons cl cls ih =>
    intro s hall
    have h1 := toOp_run ts spec cl s (hall cl List.mem_cons_self)
    have h2 := ih (getInstance ts (spec cl.cls) cl.conn cl.cls cl.o s).1
      (fun c hc => hall c (List.mem_cons_of_mem _ hc))
    simp only [List.map_cons, seqRun, runHist, h1, SCall.toEvent, stepEv]
    rw [h2]

end Pyro.Inst
