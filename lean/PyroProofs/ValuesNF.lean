/-
  Normal forms of the four type mappings (PyroModel/Values.lean):
    * `fix_val`   — a normal form goes through dumps / loads / recreate unchanged (all four serializers),
    * `range_val` — whatever comes out of dumps / loads / recreate is a normal form.
  Property theorems (lossless round trip, idempotence) are derived in PyroProps/C01.lean.
-/
import PyroProofs.Values

namespace Pyro.Values

open Pyro

@[simp] theorem bind_ok' {ε α β : Type} (a : α) (f : α → Except ε β) : (Except.ok a >>= f) = f a := rfl
@[simp] theorem bind_err' {ε α β : Type} (e : ε) (f : α → Except ε β) :
    ((Except.error e : Except ε α) >>= f) = Except.error e := rfl

theorem bind_eq_ok {ε α β : Type} (x : Except ε α) (f : α → Except ε β) (b : β) :
    (x >>= f) = .ok b ↔ ∃ a, x = .ok a ∧ f a = .ok b := by
  cases x with
  | error e => simp
  | ok a => simp

/-- the post-processing after the library's loads: `recreate_classes` when `r`, nothing otherwise -/
def post (r : Bool) (s : Ser) (d : Val) : Except Err Val := if r then recreate s d else .ok d
def postList (r : Bool) (s : Ser) (d : Vals) : Except Err Vals := if r then recList s d else .ok d
def postVals (r : Bool) (s : Ser) (d : Pairs) : Except Err Pairs := if r then recVals s d else .ok d

/-- which hooks run where: serpent / marshal / json = plain loads then `recreate_classes`;
    msgpack = `ext_hook` inside loads, and class dicts either by `object_hook` inside loads or by
    `recreate_classes` afterwards. -/
def phOK (s : Ser) (xh oh r : Bool) : Prop :=
  match s with
  | .msgpack => xh = true ∧ ((oh = true ∧ r = false) ∨ (oh = false ∧ r = true))
  | _ => xh = false ∧ oh = false ∧ r = true

theorem post_leaf (r : Bool) (s : Ser) (w : Val) (h : recreate s w = .ok w) : post r s w = .ok w := by
  cases r <;> simp [post, h]

theorem serpentFloat_of_not_nan (b : Nat) (h : isNan b = false) : serpentFloat b = .float b := by
  simp [serpentFloat, h]

/-! ### serpent: values that survive as set elements / dict keys are untouched by every phase -/
mutual
theorem hs_val : ∀ k, hashOK k = true →
    enc .serpent true k = .ok k ∧ dec .serpent false false k = .ok k ∧ unhashable k = false ∧
    recreate .serpent k = .ok k ∧ nf .serpent k = true
  | .none, _ => by simp [enc, dec, unhashable, recreate, nf]
  | .bool _, _ => by simp [enc, dec, unhashable, recreate, nf]
  | .int _, _ => by simp [enc, dec, unhashable, recreate, nf]
  | .str _, _ => by simp [enc, dec, unhashable, recreate, nf]
  | .float b, h => by
    have hb : isNan b = false := by simpa [hashOK] using h
    simp [enc, dec, unhashable, recreate, nf, serpentFloat_of_not_nan b hb, floatOk, hb]
  | .complex re im, h => by
    simp only [hashOK, Bool.and_eq_true, Bool.not_eq_true', bne_iff_ne, ne_eq] at h
    obtain ⟨⟨⟨h1, h2⟩, h3⟩, h4⟩ := h
    simp [enc, dec, unhashable, recreate, nf, h1, h2, h3, h4]
  | .tuple xs, h => by
    have ih := hs_list xs (by simpa [hashOK] using h)
    obtain ⟨i1, i2, i3, i4, i5⟩ := ih
    simp [enc, dec, unhashable, recreate, nf, i1, i2, i3, i4, i5]
  | .bytes _, h => by simp [hashOK] at h
  | .bytearray _, h => by simp [hashOK] at h
  | .list _, h => by simp [hashOK] at h
  | .set _, h => by simp [hashOK] at h
  | .frozenset _, h => by simp [hashOK] at h
  | .dict _, h => by simp [hashOK] at h
  | .uuid _, h => by simp [hashOK] at h
  | .decimal _, h => by simp [hashOK] at h
  | .date _, h => by simp [hashOK] at h
  | .ext _ _, h => by simp [hashOK] at h
  | .inst _ _, h => by simp [hashOK] at h
theorem hs_list : ∀ xs, hashOK.hashOKList xs = true →
    encList .serpent true xs = .ok xs ∧ decList .serpent false false xs = .ok xs ∧
    unhashable.unhashableList xs = false ∧ recList .serpent xs = .ok xs ∧ nfList .serpent xs = true
  | .nil, _ => by simp [encList, decList, unhashable.unhashableList, recList, nfList]
  | .cons x xs, h => by
    simp only [hashOK.hashOKList, Bool.and_eq_true] at h
    obtain ⟨a1, a2, a3, a4, a5⟩ := hs_val x h.1
    obtain ⟨b1, b2, b3, b4, b5⟩ := hs_list xs h.2
    simp [encList, decList, unhashable.unhashableList, recList, nfList, a1, a2, a3, a4, a5, b1, b2, b3, b4, b5]
end

theorem encElts_of_encList : ∀ (xs ys : Vals), xs.all serpentHashType = true →
    encList .serpent true xs = .ok ys → encElts true xs = .ok ys
  | .nil, ys, _, h => by simpa [encList, encElts] using h
  | .cons x xs, ys, ht, h => by
    simp only [Vals.all, Bool.and_eq_true] at ht
    simp only [encList, bind_eq_ok] at h
    obtain ⟨y, hy, ys', hys, e⟩ := h
    simp only [encElts, ht.1, if_true, hy, bind_ok', encElts_of_encList xs ys' ht.2 hys]
    exact e

/-! ### marshal: a normal form is untouched by dumps and loads -/
mutual
theorem mi_val : ∀ k, nf .marshal k = true →
    enc .marshal true k = .ok k ∧ dec .marshal false false k = .ok k
  | .none, _ => by simp [enc, dec]
  | .bool _, _ => by simp [enc, dec]
  | .int _, _ => by simp [enc, dec]
  | .str _, _ => by simp [enc, dec]
  | .float _, _ => by simp [enc, dec]
  | .complex _ _, _ => by simp [enc, dec]
  | .bytes _, _ => by simp [enc, dec]
  | .tuple xs, h => by
    obtain ⟨i1, i2⟩ := mi_list xs (by simpa [nf] using h)
    simp [enc, dec, i1, i2]
  | .list xs, h => by
    obtain ⟨i1, i2⟩ := mi_list xs (by simpa [nf] using h)
    simp [enc, dec, i1, i2]
  | .set xs, h => by
    obtain ⟨i1, i2⟩ := mi_list xs (by simpa [nf] using h)
    simp [enc, dec, i1, i2]
  | .frozenset xs, h => by
    obtain ⟨i1, i2⟩ := mi_list xs (by simpa [nf] using h)
    simp [enc, dec, i1, i2]
  | .dict kvs, h => by
    simp only [nf, Bool.and_eq_true] at h
    obtain ⟨i1, i2⟩ := mi_pairs kvs h.2 h.1.2
    simp [enc, dec, i1, i2]
  | .bytearray _, h => by simp [nf] at h
  | .uuid _, h => by simp [nf] at h
  | .decimal _, h => by simp [nf] at h
  | .date _, h => by simp [nf] at h
  | .ext _ _, h => by simp [nf] at h
  | .inst _ _, h => by simp [nf] at h
theorem mi_list : ∀ xs, nfList .marshal xs = true →
    encList .marshal true xs = .ok xs ∧ decList .marshal false false xs = .ok xs
  | .nil, _ => by simp [encList, decList]
  | .cons x xs, h => by
    simp only [nfList, Bool.and_eq_true] at h
    obtain ⟨a1, a2⟩ := mi_val x h.1
    obtain ⟨b1, b2⟩ := mi_list xs h.2
    simp [encList, decList, a1, a2, b1, b2]
theorem mi_pairs : ∀ kvs, nfPairs .marshal kvs = true → kvs.nodupKeys = true →
    encPairs .marshal true kvs = .ok kvs ∧ decPairs .marshal false false kvs = .ok kvs
  | .nil, _, _ => by simp [encPairs, decPairs]
  | .cons k v r, h, hn => by
    simp only [nfPairs, Bool.and_eq_true] at h
    simp only [Pairs.nodupKeys, Bool.and_eq_true, Bool.not_eq_true'] at hn
    obtain ⟨a1, a2⟩ := mi_val k h.1.1.2
    obtain ⟨b1, b2⟩ := mi_val v h.1.2
    obtain ⟨c1, c2⟩ := mi_pairs r h.2 hn.2
    simp [encPairs, decPairs, a1, a2, b1, b2, c1, c2, Pairs.pushFront_fresh k v r hn.1]
end

theorem nan_dict_dec : dec .serpent false false (serpentFloat nanBits) = .ok (serpentFloat nanBits) := by decide
theorem nan_dict_rec : recreate .serpent (serpentFloat nanBits) = .ok (.float nanBits) := by decide
theorem nan_dict_enc : serpentFloat nanBits ≠ .float nanBits := by decide

/-! ### (A) a normal form is a fixed point of dumps ; loads ; post-processing -/
mutual
theorem fix_val (s : Ser) (xh oh r : Bool) (hp : phOK s xh oh r) : ∀ w, nf s w = true →
    ∃ a d, enc s true w = .ok a ∧ dec s xh oh a = .ok d ∧ post r s d = .ok w
  | .none, _ => ⟨.none, .none, by simp [enc], by simp [dec], post_leaf _ _ _ (by simp [recreate])⟩
  | .bool b, _ => ⟨.bool b, .bool b, by simp [enc], by simp [dec], post_leaf _ _ _ (by simp [recreate])⟩
  | .str t, _ => ⟨.str t, .str t, by simp [enc], by simp [dec], post_leaf _ _ _ (by simp [recreate])⟩
  | .int z, _ => by
    cases s with
    | msgpack =>
      obtain ⟨hx, _⟩ := hp
      subst hx
      by_cases hr : i64Min ≤ z ∧ z < u64Bound
      · exact ⟨.int z, .int z, by simp [enc, hr], by simp [dec], post_leaf _ _ _ (by simp [recreate])⟩
      · exact ⟨.ext extLong (intToAscii z), .int z, by simp [enc, hr], by simp [dec, extHook_long],
          post_leaf _ _ _ (by simp [recreate])⟩
    | serpent => exact ⟨.int z, .int z, by simp [enc], by simp [dec], post_leaf _ _ _ (by simp [recreate])⟩
    | marshal => exact ⟨.int z, .int z, by simp [enc], by simp [dec], post_leaf _ _ _ (by simp [recreate])⟩
    | json => exact ⟨.int z, .int z, by simp [enc], by simp [dec], post_leaf _ _ _ (by simp [recreate])⟩
  | .float b, h => by
    cases s with
    | serpent =>
      obtain ⟨hx, ho, hr⟩ := hp
      subst hx; subst ho; subst hr
      by_cases hn : isNan b = true
      · have hb : b = nanBits := by simpa [nf, floatOk, hn] using h
        subst hb
        exact ⟨serpentFloat nanBits, serpentFloat nanBits, by simp [enc], nan_dict_dec, by simp [post, nan_dict_rec]⟩
      · have hn' : isNan b = false := by simpa using hn
        exact ⟨.float b, .float b, by simp [enc, serpentFloat_of_not_nan b hn'], by simp [dec],
          post_leaf _ _ _ (by simp [recreate])⟩
    | marshal => exact ⟨.float b, .float b, by simp [enc], by simp [dec], post_leaf _ _ _ (by simp [recreate])⟩
    | json => exact ⟨.float b, .float b, by simp [enc], by simp [dec], post_leaf _ _ _ (by simp [recreate])⟩
    | msgpack => exact ⟨.float b, .float b, by simp [enc], by simp [dec], post_leaf _ _ _ (by simp [recreate])⟩
  | .bytes b, h => by
    cases s with
    | serpent => simp [nf] at h
    | json => simp [nf] at h
    | marshal => exact ⟨.bytes b, .bytes b, by simp [enc], by simp [dec], post_leaf _ _ _ (by simp [recreate])⟩
    | msgpack => exact ⟨.bytes b, .bytes b, by simp [enc], by simp [dec], post_leaf _ _ _ (by simp [recreate])⟩
  | .list xs, h => by
    obtain ⟨as, ds, h1, h2, h3⟩ := fix_list s xh oh r hp xs (by simpa [nf] using h)
    refine ⟨.list as, .list ds, by simp [enc, h1], by simp [dec, h2], ?_⟩
    cases r <;> simp_all [post, postList, recreate]
  | .tuple xs, h => by
    cases s with
    | json => simp [nf] at h
    | msgpack => simp [nf] at h
    | serpent =>
      obtain ⟨as, ds, h1, h2, h3⟩ := fix_list .serpent xh oh r hp xs (by simpa [nf] using h)
      refine ⟨.tuple as, .tuple ds, by simp [enc, h1], by simp [dec, h2], ?_⟩
      cases r <;> simp_all [post, postList, recreate]
    | marshal =>
      obtain ⟨as, ds, h1, h2, h3⟩ := fix_list .marshal xh oh r hp xs (by simpa [nf] using h)
      refine ⟨.tuple as, .tuple ds, by simp [enc, h1], by simp [dec, h2], ?_⟩
      cases r <;> simp_all [post, postList, recreate]
  | .set xs, h => by
    cases s with
    | json => simp [nf] at h
    | msgpack => simp [nf] at h
    | marshal =>
      obtain ⟨as, ds, h1, h2, h3⟩ := fix_list .marshal xh oh r hp xs (by simpa [nf] using h)
      refine ⟨.set as, .set ds, by simp [enc, h1], by simp [dec, h2], ?_⟩
      cases r <;> simp_all [post, postList, recreate]
    | serpent =>
      obtain ⟨hx, ho, hr⟩ := hp
      subst hx; subst ho; subst hr
      simp only [nf, Bool.and_eq_true] at h
      obtain ⟨⟨⟨hne, ht⟩, hh⟩, _⟩ := h
      obtain ⟨i1, i2, i3, i4, _⟩ := hs_list xs hh
      have he := encElts_of_encList xs xs ht i1
      refine ⟨.set xs, .set xs, ?_, by simp [dec, i2, i3], by simp [post, recreate, i4]⟩
      cases xs with
      | nil => simp at hne
      | cons x xs' => simp [enc, he]
  | .frozenset xs, h => by
    cases s with
    | json => simp [nf] at h
    | msgpack => simp [nf] at h
    | serpent => simp [nf] at h
    | marshal =>
      -- recreate_classes does not look inside a frozenset (`t is set` only): dumps / loads are the identity here
      obtain ⟨hx, ho, hr⟩ := hp
      subst hx; subst ho; subst hr
      obtain ⟨i1, i2⟩ := mi_list xs (by simpa [nf] using h)
      exact ⟨.frozenset xs, .frozenset xs, by simp [enc, i1], by simp [dec, i2], by simp [post, recreate]⟩
  | .dict kvs, h => by
    simp only [nf, Bool.and_eq_true, Bool.not_eq_true'] at h
    obtain ⟨⟨hc, hn⟩, hv⟩ := h
    obtain ⟨ps, ds, h1, h2, h3, hk⟩ := fix_pairs s xh oh r hp kvs hv hn
    have hck : ds.hasKey classKey = false := by rw [hk]; exact hc
    refine ⟨.dict ps, .dict ds, by simp [enc, h1], by simp [dec, h2, hck], ?_⟩
    cases r <;> simp_all [post, postVals, recreate]
  | .complex re im, h => by
    cases s with
    | json => simp [nf] at h
    | marshal =>
      exact ⟨.complex re im, .complex re im, by simp [enc], by simp [dec], post_leaf _ _ _ (by simp [recreate])⟩
    | serpent =>
      simp only [nf, Bool.and_eq_true, Bool.not_eq_true', bne_iff_ne, ne_eq] at h
      obtain ⟨⟨⟨h1, h2⟩, h3⟩, h4⟩ := h
      exact ⟨.complex re im, .complex re im, by simp [enc, h1, h2, h3, h4], by simp [dec],
        post_leaf _ _ _ (by simp [recreate])⟩
    | msgpack =>
      obtain ⟨hx, _⟩ := hp
      subst hx
      simp only [nf, Bool.and_eq_true, decide_eq_true_eq] at h
      exact ⟨.ext extComplex (toLE 8 re ++ toLE 8 im), .complex re im, by simp [enc],
        by simp [dec, extHook_complex re im h.1 h.2], post_leaf _ _ _ (by simp [recreate])⟩
  | .date ord, h => by
    cases s with
    | json => simp [nf] at h
    | marshal => simp [nf] at h
    | serpent => simp [nf] at h
    | msgpack =>
      obtain ⟨hx, _⟩ := hp
      subst hx
      simp only [nf, Bool.and_eq_true, decide_eq_true_eq] at h
      exact ⟨.ext extDate (toLE 8 ord), .date ord, by simp [enc],
        by simp [dec, extHook_date ord h.1 h.2], post_leaf _ _ _ (by simp [recreate])⟩
  | .bytearray _, h => by simp [nf] at h
  | .uuid _, h => by simp [nf] at h
  | .decimal _, h => by simp [nf] at h
  | .ext _ _, h => by simp [nf] at h
  | .inst _ _, h => by simp [nf] at h
theorem fix_list (s : Ser) (xh oh r : Bool) (hp : phOK s xh oh r) : ∀ ws, nfList s ws = true →
    ∃ as ds, encList s true ws = .ok as ∧ decList s xh oh as = .ok ds ∧ postList r s ds = .ok ws
  | .nil, _ => ⟨.nil, .nil, by simp [encList], by simp [decList], by cases r <;> simp [postList, recList]⟩
  | .cons x xs, h => by
    simp only [nfList, Bool.and_eq_true] at h
    obtain ⟨a, d, a1, a2, a3⟩ := fix_val s xh oh r hp x h.1
    obtain ⟨as, ds, b1, b2, b3⟩ := fix_list s xh oh r hp xs h.2
    refine ⟨.cons a as, .cons d ds, by simp [encList, a1, b1], by simp [decList, a2, b2], ?_⟩
    cases r <;> simp_all [post, postList, recList]
theorem fix_pairs (s : Ser) (xh oh r : Bool) (hp : phOK s xh oh r) : ∀ kvs, nfPairs s kvs = true →
    kvs.nodupKeys = true →
    ∃ ps ds, encPairs s true kvs = .ok ps ∧ decPairs s xh oh ps = .ok ds ∧ postVals r s ds = .ok kvs ∧
      (∀ k, ds.hasKey k = kvs.hasKey k)
  | .nil, _, _ => ⟨.nil, .nil, by simp [encPairs], by simp [decPairs], by cases r <;> simp [postVals, recVals],
      fun _ => rfl⟩
  | .cons k v rest, h, hn => by
    simp only [nfPairs, Bool.and_eq_true] at h
    simp only [Pairs.nodupKeys, Bool.and_eq_true, Bool.not_eq_true'] at hn
    obtain ⟨⟨hkey, hv⟩, hrest⟩ := h
    obtain ⟨a, d, a1, a2, a3⟩ := fix_val s xh oh r hp v hv
    obtain ⟨ps, ds, b1, b2, b3, hk⟩ := fix_pairs s xh oh r hp rest hrest hn.2
    have hfresh : ds.hasKey k = false := by rw [hk]; exact hn.1
    have hpush := Pairs.pushFront_fresh k d ds hfresh
    have hkeys : ∀ k', (Pairs.cons k d ds).hasKey k' = (Pairs.cons k v rest).hasKey k' := by
      intro k'; simp [Pairs.hasKey, hk]
    cases s with
    | serpent =>
      obtain ⟨hx, ho, hr⟩ := hp
      subst hx; subst ho; subst hr
      simp only [Bool.and_eq_true] at hkey
      obtain ⟨⟨ht, hh⟩, _⟩ := hkey
      obtain ⟨i1, i2, i3, _, _⟩ := hs_val k hh
      refine ⟨.cons k a ps, .cons k d ds, by simp [encPairs, ht, i1, a1, b1],
        by simp [decPairs, i2, a2, i3, b2, hpush], ?_, hkeys⟩
      simp_all [post, postVals, recVals]
    | marshal =>
      obtain ⟨hx, ho, hr⟩ := hp
      subst hx; subst ho; subst hr
      simp only [Bool.and_eq_true] at hkey
      obtain ⟨i1, i2⟩ := mi_val k hkey.2
      refine ⟨.cons k a ps, .cons k d ds, by simp [encPairs, i1, a1, b1],
        by simp [decPairs, i2, a2, b2, hpush], ?_, hkeys⟩
      simp_all [post, postVals, recVals]
    | json =>
      obtain ⟨hx, ho, hr⟩ := hp
      subst hx; subst ho; subst hr
      cases k with
      | str t =>
        refine ⟨.cons (.str t) a ps, .cons (.str t) d ds, by simp [encPairs, jsonKey, a1, b1],
          by simp [decPairs, dec, a2, b2, hpush], ?_, hkeys⟩
        simp_all [post, postVals, recVals]
      | _ => simp [isStr] at hkey
    | msgpack =>
      cases k with
      | str t =>
        refine ⟨.cons (.str t) a ps, .cons (.str t) d ds, by simp [encPairs, enc, a1, b1],
          by simp [decPairs, dec, a2, b2, hpush, isStrOrBytes], ?_, hkeys⟩
        cases r <;> simp_all [post, postVals, recVals]
      | bytes t =>
        refine ⟨.cons (.bytes t) a ps, .cons (.bytes t) d ds, by simp [encPairs, enc, a1, b1],
          by simp [decPairs, dec, a2, b2, hpush, isStrOrBytes], ?_, hkeys⟩
        cases r <;> simp_all [post, postVals, recVals]
      | _ => simp [isStrOrBytes] at hkey
end

/-! ### (B) whatever comes out of dumps ; loads ; post-processing is a normal form -/

theorem dictToClass_ok (s : Ser) (d : Pairs) (w : Val) (h : dictToClass s d = .ok w) :
    s = .serpent ∧ w = .float nanBits := by
  unfold dictToClass at h
  split at h
  · rename_i name hl
    split at h
    · rename_i hc
      split at h
      · split at h
        · cases h; exact ⟨hc.1, rfl⟩
        · cases h
      · cases h
    · split at h
      · cases h
      · split at h <;> cases h
  · cases h

theorem dec_dict_shape (s : Ser) (xh oh : Bool) (kvs : Pairs) (d : Val)
    (h : dec s xh oh (.dict kvs) = .ok d) :
    ∃ ds, decPairs s xh oh kvs = .ok ds ∧
      ((s = .msgpack ∧ oh = true ∧ ds.hasKey classKey = true ∧ dictToClass .msgpack ds = .ok d) ∨
       (¬(s = .msgpack ∧ oh = true ∧ ds.hasKey classKey = true) ∧ d = .dict ds)) := by
  simp only [dec, bind_eq_ok] at h
  obtain ⟨ds, h1, h2⟩ := h
  refine ⟨ds, h1, ?_⟩
  by_cases c : s = .msgpack ∧ oh = true ∧ ds.hasKey classKey = true
  · rw [if_pos c] at h2; exact Or.inl ⟨c.1, c.2.1, c.2.2, h2⟩
  · rw [if_neg c] at h2; cases h2; exact Or.inr ⟨c, rfl⟩

theorem decPairs_hasKey_str (s : Ser) (xh oh : Bool) (t : Str) : ∀ (ps ds : Pairs),
    decPairs s xh oh ps = .ok ds → ps.hasKey (.str t) = true → ds.hasKey (.str t) = true
  | .nil, _, _, h => by simp [Pairs.hasKey] at h
  | .cons k v rest, ds, hd, hk => by
    simp only [decPairs, bind_eq_ok] at hd
    obtain ⟨k', h1, v', h2, h3⟩ := hd
    split at h3
    · cases h3
    · split at h3
      · cases h3
      · simp only [bind_eq_ok] at h3
        obtain ⟨r, h4, h5⟩ := h3
        cases h5
        rw [Pairs.hasKey_pushFront]
        simp only [Pairs.hasKey] at hk
        by_cases e : k = .str t
        · subst e
          simp only [dec] at h1
          cases h1
          simp
        · rw [if_neg e] at hk
          have := decPairs_hasKey_str s xh oh t rest r h4 hk
          rw [this]; simp

theorem hasKey_set_self (k v : Val) : ∀ (d : Pairs), (d.set k v).hasKey k = true
  | .nil => by simp [Pairs.set, Pairs.hasKey]
  | .cons k' v' r => by
    simp only [Pairs.set]
    by_cases e : k' = k
    · rw [if_pos e]; simp [Pairs.hasKey]
    · rw [if_neg e]; simp [Pairs.hasKey, e, hasKey_set_self k v r]

theorem dec_serpent_dict_unhashable (kvs : Pairs) (d : Val) (h : dec .serpent false false (.dict kvs) = .ok d) :
    unhashable d = true := by
  simp only [dec, bind_eq_ok] at h
  obtain ⟨ds, _, h2⟩ := h
  simp at h2
  cases h2
  simp [unhashable]

theorem serpentFloat_cases (b : Nat) : (isNan b = true ∧ ∃ kvs, serpentFloat b = .dict kvs) ∨
    (isNan b = false ∧ serpentFloat b = .float b) := by
  unfold serpentFloat
  by_cases h : isNan b = true
  · rw [if_pos h]; exact Or.inl ⟨h, _, rfl⟩
  · rw [if_neg h]; exact Or.inr ⟨by simpa using h, rfl⟩

/-! serpent: whatever survives as a set element / dict key after dumps ; loads is a hashable normal form -/
mutual
theorem hsr_val : ∀ x a d, enc .serpent true x = .ok a → dec .serpent false false a = .ok d →
    unhashable d = false →
    hashOK d = true ∧ recreate .serpent d = .ok d ∧ nf .serpent d = true ∧
      (serpentHashType x = true → serpentHashType d = true)
  | .none, a, d, h1, h2, _ => by
    simp [enc] at h1; subst h1; simp [dec] at h2; subst h2; simp [hashOK, recreate, nf, serpentHashType]
  | .bool _, a, d, h1, h2, _ => by
    simp [enc] at h1; subst h1; simp [dec] at h2; subst h2; simp [hashOK, recreate, nf, serpentHashType]
  | .int _, a, d, h1, h2, _ => by
    simp [enc] at h1; subst h1; simp [dec] at h2; subst h2; simp [hashOK, recreate, nf, serpentHashType]
  | .str _, a, d, h1, h2, _ => by
    simp [enc] at h1; subst h1; simp [dec] at h2; subst h2; simp [hashOK, recreate, nf, serpentHashType]
  | .uuid _, a, d, h1, h2, _ => by
    simp [enc] at h1; subst h1; simp [dec] at h2; subst h2; simp [hashOK, recreate, nf, serpentHashType]
  | .decimal _, a, d, h1, h2, _ => by
    simp [enc] at h1; subst h1; simp [dec] at h2; subst h2; simp [hashOK, recreate, nf, serpentHashType]
  | .date _, a, d, h1, h2, _ => by
    simp [enc] at h1; subst h1; simp [dec] at h2; subst h2; simp [hashOK, recreate, nf, serpentHashType]
  | .float b, a, d, h1, h2, hu => by
    simp [enc] at h1; subst h1
    rcases serpentFloat_cases b with ⟨_, kvs, e⟩ | ⟨hn, e⟩
    · rw [e] at h2; have := dec_serpent_dict_unhashable kvs d h2; rw [this] at hu; cases hu
    · rw [e] at h2; simp [dec] at h2; subst h2; simp [hashOK, recreate, nf, serpentHashType, floatOk, hn]
  | .bytes b, a, d, h1, h2, hu => by
    simp [enc, serpentBytes] at h1; subst h1
    have := dec_serpent_dict_unhashable _ d h2; rw [this] at hu; cases hu
  | .bytearray b, a, d, h1, h2, hu => by
    simp [enc, serpentBytes] at h1; subst h1
    have := dec_serpent_dict_unhashable _ d h2; rw [this] at hu; cases hu
  | .list xs, a, d, h1, h2, hu => by
    simp only [enc, bind_eq_ok] at h1
    obtain ⟨ys, _, e⟩ := h1; cases e
    simp only [dec, bind_eq_ok] at h2
    obtain ⟨ds, _, e⟩ := h2; cases e
    simp [unhashable] at hu
  | .tuple xs, a, d, h1, h2, hu => by
    simp only [enc, bind_eq_ok] at h1
    obtain ⟨ys, g1, e⟩ := h1; cases e
    simp only [dec, bind_eq_ok] at h2
    obtain ⟨ds, g2, e⟩ := h2; cases e
    simp only [unhashable] at hu
    obtain ⟨i1, i2, i3⟩ := hsr_list xs ys ds g1 g2 hu
    simp [hashOK, recreate, nf, serpentHashType, i1, i2, i3]
  | .set xs, a, d, h1, h2, hu => by
    cases xs with
    | nil =>
      simp [enc] at h1; subst h1; simp [dec, decList] at h2; subst h2
      simp [hashOK, hashOK.hashOKList, recreate, recList, nf, nfList, serpentHashType]
    | cons x xs =>
      simp only [enc, bind_eq_ok] at h1
      obtain ⟨ys, _, e⟩ := h1; cases e
      simp only [dec, bind_eq_ok] at h2
      obtain ⟨ds, _, e⟩ := h2
      split at e
      · cases e
      · cases e; simp [unhashable] at hu
  | .frozenset xs, a, d, h1, h2, hu => by
    cases xs with
    | nil =>
      simp [enc] at h1; subst h1; simp [dec, decList] at h2; subst h2
      simp [hashOK, hashOK.hashOKList, recreate, recList, nf, nfList, serpentHashType]
    | cons x xs =>
      simp only [enc, bind_eq_ok] at h1
      obtain ⟨ys, _, e⟩ := h1; cases e
      simp only [dec, bind_eq_ok] at h2
      obtain ⟨ds, _, e⟩ := h2
      split at e
      · cases e
      · cases e; simp [unhashable] at hu
  | .dict kvs, a, d, h1, h2, hu => by
    simp only [enc, bind_eq_ok] at h1
    obtain ⟨ys, _, e⟩ := h1; cases e
    have := dec_serpent_dict_unhashable _ d h2; rw [this] at hu; cases hu
  | .complex re im, a, d, h1, h2, hu => by
    simp only [enc] at h1
    split at h1
    · cases h1
      have := dec_serpent_dict_unhashable _ d h2; rw [this] at hu; cases hu
    · rename_i hn
      split at h1
      · cases h1
      · rename_i hz
        cases h1
        simp [dec] at h2; subst h2
        simp only [Bool.or_eq_true, not_or, Bool.not_eq_true] at hn
        simp only [not_or] at hz
        simp [hashOK, recreate, nf, serpentHashType, hn.1, hn.2, hz.1, hz.2]
  | .ext _ _, a, d, h1, _, _ => by simp [enc] at h1
  | .inst cls fields, a, d, h1, h2, hu => by
    simp only [enc, bind_eq_ok] at h1
    obtain ⟨ys, _, e⟩ := h1; cases e
    have := dec_serpent_dict_unhashable _ d h2; rw [this] at hu; cases hu
theorem hsr_list : ∀ xs as ds, encList .serpent true xs = .ok as → decList .serpent false false as = .ok ds →
    unhashable.unhashableList ds = false →
    hashOK.hashOKList ds = true ∧ recList .serpent ds = .ok ds ∧ nfList .serpent ds = true
  | .nil, as, ds, h1, h2, _ => by
    simp [encList] at h1; subst h1; simp [decList] at h2; subst h2
    simp [hashOK.hashOKList, recList, nfList]
  | .cons x xs, as, ds, h1, h2, hu => by
    simp only [encList, bind_eq_ok] at h1
    obtain ⟨a, g1, as', g2, e⟩ := h1; cases e
    simp only [decList, bind_eq_ok] at h2
    obtain ⟨d, g3, ds', g4, e⟩ := h2; cases e
    simp only [unhashable.unhashableList, Bool.or_eq_false_iff] at hu
    obtain ⟨i1, i2, i3, _⟩ := hsr_val x a d g1 g3 hu.1
    obtain ⟨j1, j2, j3⟩ := hsr_list xs as' ds' g2 g4 hu.2
    simp [hashOK.hashOKList, recList, nfList, i1, i2, i3, j1, j2, j3]
end


/-! marshal: a hashable value that can be dumped comes back as itself, hashable and normal -/
mutual
theorem hmr_val : ∀ k a d, hashable k = true → enc .marshal true k = .ok a → dec .marshal false false a = .ok d →
    hashable d = true ∧ nf .marshal d = true
  | .none, a, d, _, h1, h2 => by simp [enc] at h1; subst h1; simp [dec] at h2; subst h2; simp [hashable, nf]
  | .bool _, a, d, _, h1, h2 => by simp [enc] at h1; subst h1; simp [dec] at h2; subst h2; simp [hashable, nf]
  | .int _, a, d, _, h1, h2 => by simp [enc] at h1; subst h1; simp [dec] at h2; subst h2; simp [hashable, nf]
  | .float _, a, d, _, h1, h2 => by simp [enc] at h1; subst h1; simp [dec] at h2; subst h2; simp [hashable, nf]
  | .str _, a, d, _, h1, h2 => by simp [enc] at h1; subst h1; simp [dec] at h2; subst h2; simp [hashable, nf]
  | .bytes _, a, d, _, h1, h2 => by simp [enc] at h1; subst h1; simp [dec] at h2; subst h2; simp [hashable, nf]
  | .complex _ _, a, d, _, h1, h2 => by simp [enc] at h1; subst h1; simp [dec] at h2; subst h2; simp [hashable, nf]
  | .uuid _, a, d, _, h1, h2 => by simp [enc] at h1
  | .decimal _, a, d, _, h1, h2 => by simp [enc] at h1
  | .date _, a, d, _, h1, h2 => by simp [enc] at h1
  | .tuple xs, a, d, hh, h1, h2 => by
    simp only [enc, bind_eq_ok] at h1
    obtain ⟨ys, g1, e⟩ := h1; cases e
    simp only [dec, bind_eq_ok] at h2
    obtain ⟨ds, g2, e⟩ := h2; cases e
    obtain ⟨i1, i2⟩ := hmr_list xs ys ds (by simpa [hashable] using hh) g1 g2
    simp [hashable, nf, i1, i2]
  | .frozenset xs, a, d, hh, h1, h2 => by
    simp only [enc, bind_eq_ok] at h1
    obtain ⟨ys, g1, e⟩ := h1; cases e
    simp only [dec, bind_eq_ok] at h2
    obtain ⟨ds, g2, e⟩ := h2; cases e
    obtain ⟨i1, i2⟩ := hmr_list xs ys ds (by simpa [hashable] using hh) g1 g2
    simp [hashable, nf, i1, i2]
  | .bytearray _, _, _, hh, _, _ => by simp [hashable] at hh
  | .list _, _, _, hh, _, _ => by simp [hashable] at hh
  | .set _, _, _, hh, _, _ => by simp [hashable] at hh
  | .dict _, _, _, hh, _, _ => by simp [hashable] at hh
  | .ext _ _, _, _, hh, _, _ => by simp [hashable] at hh
  | .inst _ _, _, _, hh, _, _ => by simp [hashable] at hh
theorem hmr_list : ∀ xs as ds, hashable.hashableList xs = true → encList .marshal true xs = .ok as →
    decList .marshal false false as = .ok ds → hashable.hashableList ds = true ∧ nfList .marshal ds = true
  | .nil, as, ds, _, h1, h2 => by
    simp [encList] at h1; subst h1; simp [decList] at h2; subst h2; simp [hashable.hashableList, nfList]
  | .cons x xs, as, ds, hh, h1, h2 => by
    simp only [hashable.hashableList, Bool.and_eq_true] at hh
    simp only [encList, bind_eq_ok] at h1
    obtain ⟨a, g1, as', g2, e⟩ := h1; cases e
    simp only [decList, bind_eq_ok] at h2
    obtain ⟨d, g3, ds', g4, e⟩ := h2; cases e
    obtain ⟨i1, i2⟩ := hmr_val x a d hh.1 g1 g3
    obtain ⟨j1, j2⟩ := hmr_list xs as' ds' hh.2 g2 g4
    simp [hashable.hashableList, nfList, i1, i2, j1, j2]
end

/-- the key part of `nfPairs` -/
def keyOK (s : Ser) (k : Val) : Bool :=
  match s with
  | .serpent => serpentHashType k && hashOK k && nf s k
  | .marshal => hashable k && nf s k
  | .json => isStr k
  | .msgpack => isStrOrBytes k

/-- decoded dict whose keys are acceptable and whose values post-process only into normal forms -/
def GoodPairs (s : Ser) (r : Bool) : Pairs → Prop
  | .nil => True
  | .cons k d rest => keyOK s k = true ∧ (∀ w, post r s d = .ok w → nf s w = true) ∧ GoodPairs s r rest

theorem good_lookup (s : Ser) (r : Bool) (k : Val) : ∀ (ds : Pairs) (d : Val), GoodPairs s r ds →
    ds.lookup k = some d → ∀ w, post r s d = .ok w → nf s w = true
  | .nil, _, _, h => by simp [Pairs.lookup] at h
  | .cons k' d' rest, d, hg, h => by
    simp only [Pairs.lookup] at h
    by_cases e : k' = k
    · rw [if_pos e] at h; cases h; exact hg.2.1
    · rw [if_neg e] at h; exact good_lookup s r k rest d hg.2.2 h

theorem good_erase (s : Ser) (r : Bool) (k : Val) : ∀ (ds : Pairs), GoodPairs s r ds → GoodPairs s r (ds.erase k)
  | .nil, _ => trivial
  | .cons k' d' rest, hg => by
    simp only [Pairs.erase]
    by_cases e : k' = k
    · rw [if_pos e]; exact good_erase s r k rest hg.2.2
    · rw [if_neg e]; exact ⟨hg.1, hg.2.1, good_erase s r k rest hg.2.2⟩

theorem good_pushFront (s : Ser) (r : Bool) (k d : Val) (ds : Pairs) (hk : keyOK s k = true)
    (hd : ∀ w, post r s d = .ok w → nf s w = true) (hg : GoodPairs s r ds) : GoodPairs s r (ds.pushFront k d) := by
  unfold Pairs.pushFront
  cases hl : ds.lookup k with
  | none => exact ⟨hk, hd, hg⟩
  | some d' => exact ⟨hk, good_lookup s r k ds d' hg hl, good_erase s r k ds hg⟩

theorem good_postVals (s : Ser) (r : Bool) : ∀ (ds ws : Pairs), GoodPairs s r ds → postVals r s ds = .ok ws →
    nfPairs s ws = true ∧ ws.nodupKeys = ds.nodupKeys ∧ ∀ k, ws.hasKey k = ds.hasKey k
  | .nil, ws, _, h => by
    cases r <;> simp [postVals, recVals] at h <;> subst h <;> simp [nfPairs]
  | .cons k d rest, ws, hg, h => by
    obtain ⟨hk, hd, hr⟩ := hg
    cases r with
    | false =>
      simp [postVals] at h; subst h
      obtain ⟨i1, _, _⟩ := good_postVals s false rest rest hr (by simp [postVals])
      have := hd d (by simp [post])
      cases s <;> simp_all [nfPairs, keyOK]
    | true =>
      simp only [postVals, if_true, recVals, bind_eq_ok] at h
      obtain ⟨w, g1, ws', g2, e⟩ := h; cases e
      obtain ⟨i1, i2, i3⟩ := good_postVals s true rest ws' hr (by simp [postVals, g2])
      have := hd w (by simp [post, g1])
      refine ⟨?_, ?_, ?_⟩
      · cases s <;> simp_all [nfPairs, keyOK]
      · simp [Pairs.nodupKeys, i2, i3]
      · intro k'; simp [Pairs.hasKey, i3]


theorem hsr_elts : ∀ xs ys ds, encElts true xs = .ok ys → decList .serpent false false ys = .ok ds →
    unhashable.unhashableList ds = false →
    ds.all serpentHashType = true ∧ hashOK.hashOKList ds = true ∧ recList .serpent ds = .ok ds ∧
      nfList .serpent ds = true
  | .nil, ys, ds, h1, h2, _ => by
    simp [encElts] at h1; subst h1; simp [decList] at h2; subst h2
    simp [Vals.all, hashOK.hashOKList, recList, nfList]
  | .cons x xs, ys, ds, h1, h2, hu => by
    simp only [encElts] at h1
    split at h1
    · rename_i ht
      simp only [bind_eq_ok] at h1
      obtain ⟨a, g1, ys', g2, e⟩ := h1; cases e
      simp only [decList, bind_eq_ok] at h2
      obtain ⟨d, g3, ds', g4, e⟩ := h2; cases e
      simp only [unhashable.unhashableList, Bool.or_eq_false_iff] at hu
      obtain ⟨i1, i2, i3, i4⟩ := hsr_val x a d g1 g3 hu.1
      obtain ⟨j1, j2, j3, j4⟩ := hsr_elts xs ys' ds' g2 g4 hu.2
      simp [Vals.all, hashOK.hashOKList, recList, nfList, i1, i2, i3, i4 ht, j1, j2, j3, j4]
    · cases h1

theorem jsonKey_isStr (k ka : Val) (h : jsonKey k = .ok ka) : ∃ t, ka = .str t := by
  unfold jsonKey at h
  split at h
  all_goals first
    | (cases h; exact ⟨_, rfl⟩)
    | (split at h <;> first | (cases h; exact ⟨_, rfl⟩) | (split at h <;> first | (cases h; exact ⟨_, rfl⟩) | (split at h <;> first | (cases h; exact ⟨_, rfl⟩) | cases h)))
    | cases h

theorem fromLE_lt (bs : Bytes) : fromLE bs < 256 ^ bs.length := by
  unfold fromLE
  have := fromBE_lt bs.reverse
  simpa using this

theorem serpentBytes_rt (b : Bytes) :
    dec .serpent false false (serpentBytes b) = .ok (serpentBytes b) ∧
    recreate .serpent (serpentBytes b) = .ok (serpentBytes b) ∧ nf .serpent (serpentBytes b) = true := by
  have e1 : (Val.str sEncoding = Val.str sData) = False := by decide
  have e2 : (Val.str sData = Val.str sEncoding) = False := by decide
  have e3 : (Val.str sData = classKey) = False := by decide
  have e4 : (Val.str sEncoding = classKey) = False := by decide
  refine ⟨?_, ?_, ?_⟩
  · simp [serpentBytes, dec, decPairs, unhashable, Pairs.pushFront, Pairs.lookup, e1]
  · simp [serpentBytes, recreate, recVals, Pairs.hasKey, e3, e4]
  · simp [serpentBytes, nf, nfPairs, Pairs.hasKey, Pairs.nodupKeys, serpentHashType, hashOK, e1, e3, e4]


theorem post_ok_leaf (r : Bool) (s : Ser) (d w : Val) (hrec : recreate s d = .ok d) (h : post r s d = .ok w) : w = d := by
  cases r
  · simp [post] at h; exact h.symm
  · simp [post, hrec] at h; exact h.symm

theorem nf_nan (s : Ser) : nf s (.float nanBits) = true := by
  cases s <;> decide

/-- post-processing a decoded dict: either a class dict (only serpent's NaN is ever re-created) or value-wise -/
theorem post_dict (s : Ser) (r : Bool) (ds : Pairs) (w : Val) (hn : ds.nodupKeys = true)
    (hg : GoodPairs s r ds) (hoh : r = false → ds.hasKey classKey = false)
    (h : post r s (.dict ds) = .ok w) : nf s w = true := by
  cases r with
  | false =>
    simp [post] at h; subst h
    obtain ⟨i1, i2, i3⟩ := good_postVals s false ds ds hg (by simp [postVals])
    simp [nf, hoh rfl, hn, i1]
  | true =>
    simp only [post, if_true, recreate] at h
    split at h
    · obtain ⟨_, e⟩ := dictToClass_ok s ds w h
      subst e; exact nf_nan s
    · rename_i hc
      simp only [bind_eq_ok] at h
      obtain ⟨ws, g, e⟩ := h; cases e
      obtain ⟨i1, i2, i3⟩ := good_postVals s true ds ws hg (by simp [postVals, g])
      have hc' : ds.hasKey classKey = false := by simpa using hc
      simp [nf, i1, i2, i3, hn, hc']



macro "rleaf" h1:ident h2:ident h3:ident : tactic => `(tactic| (
  simp [enc] at $h1:ident; subst $h1:ident; simp [dec] at $h2:ident; subst $h2:ident
  have := post_ok_leaf _ _ _ _ (by simp [recreate]) $h3:ident; subst this; simp [nf]))

theorem phOK_r_true (s : Ser) (xh oh r : Bool) (hp : phOK s xh oh r) (hs : s ≠ .msgpack) : xh = false ∧ oh = false ∧ r = true := by
  cases s <;> simp_all [phOK]

theorem extHook_date_ok (data : Bytes) (d : Val) (h : extHook extDate data = .ok d) :
    ∃ n, d = .date n ∧ 1 ≤ n ∧ n ≤ maxOrdinal := by
  unfold extHook at h
  rw [if_neg (by decide), if_neg (by decide), if_neg (by decide), if_pos rfl] at h
  split at h
  · simp only at h
    split at h
    · rename_i hc; cases h; exact ⟨_, rfl, hc.1, hc.2⟩
    · cases h
  · cases h

theorem extHook_complex_ok (data : Bytes) (d : Val) (h : extHook extComplex data = .ok d) :
    data.length = 16 ∧ d = .complex (fromLE (data.take 8)) (fromLE (data.drop 8)) := by
  unfold extHook at h
  rw [if_pos rfl] at h
  split at h
  · rename_i hc; cases h; exact ⟨hc, rfl⟩
  · cases h

theorem range_serpent_set (xs : Vals) (a d w : Val)
    (h1 : enc .serpent true (.set xs) = .ok a ∨ enc .serpent true (.frozenset xs) = .ok a)
    (h2 : dec .serpent false false a = .ok d) (h3 : post true .serpent d = .ok w) : nf .serpent w = true := by
  have h1' : (match xs with
            | .nil => (.ok (.tuple .nil) : Except Err Val)
            | _ => encElts true xs >>= fun ys => .ok (.set ys)) = .ok a := by
    rcases h1 with h | h
    · cases xs <;> simpa [enc] using h
    · cases xs <;> simpa [enc] using h
  clear h1
  have h1 := h1'
  clear h1'
  cases xs with
  | nil =>
    simp at h1; subst h1; simp [dec, decList] at h2; subst h2
    simp [post, recreate, recList] at h3; subst h3; simp [nf, nfList]
  | cons x xs =>
    simp only [bind_eq_ok] at h1
    obtain ⟨ys, g1, e⟩ := h1; cases e
    simp only [dec, bind_eq_ok] at h2
    obtain ⟨ds, g2, e⟩ := h2
    split at e
    · cases e
    · rename_i c
      cases e
      have hu : unhashable.unhashableList ds = false := by
        cases hh : unhashable.unhashableList ds with
        | false => rfl
        | true => simp [hh] at c
      obtain ⟨i1, i2, i3, i4⟩ := hsr_elts (.cons x xs) ys ds g1 g2 hu
      simp [post, recreate, i3] at h3; subst h3
      -- ds is non-empty because the input was
      simp only [encElts] at g1
      split at g1
      · simp only [bind_eq_ok] at g1
        obtain ⟨y, _, ys', _, e⟩ := g1; cases e
        simp only [decList, bind_eq_ok] at g2
        obtain ⟨d0, _, ds', _, e⟩ := g2; cases e
        simp [nf, i1, i2, i4]
      · cases g1

mutual
theorem range_val (s : Ser) (xh oh r : Bool) (hp : phOK s xh oh r) : ∀ v, pyval v = true → ∀ a d w,
    enc s true v = .ok a → dec s xh oh a = .ok d → post r s d = .ok w → nf s w = true
  | .none, _, a, d, w, h1, h2, h3 => by rleaf h1 h2 h3
  | .bool _, _, a, d, w, h1, h2, h3 => by rleaf h1 h2 h3
  | .str _, _, a, d, w, h1, h2, h3 => by rleaf h1 h2 h3
  | .int z, _, a, d, w, h1, h2, h3 => by
    cases s with
    | serpent => rleaf h1 h2 h3
    | marshal => rleaf h1 h2 h3
    | json => rleaf h1 h2 h3
    | msgpack =>
      obtain ⟨hx, _⟩ := hp; subst hx
      simp only [enc] at h1
      split at h1
      · cases h1; simp [dec] at h2; subst h2
        have := post_ok_leaf r _ _ w (by simp [recreate]) h3; subst this; simp [nf]
      · simp at h1; subst h1
        simp [dec, extHook_long] at h2; subst h2
        have := post_ok_leaf r _ _ w (by simp [recreate]) h3; subst this; simp [nf]
  | .float b, _, a, d, w, h1, h2, h3 => by
    cases s with
    | marshal => rleaf h1 h2 h3
    | json => rleaf h1 h2 h3
    | msgpack => rleaf h1 h2 h3
    | serpent =>
      obtain ⟨hx, ho, hr⟩ := hp; subst hx; subst ho; subst hr
      simp [enc] at h1; subst h1
      by_cases hn : isNan b = true
      · have e : serpentFloat b = serpentFloat nanBits := by simp [serpentFloat, hn]; decide
        rw [e, nan_dict_dec] at h2; cases h2
        simp [post, nan_dict_rec] at h3; subst h3; decide
      · have hn' : isNan b = false := by simpa using hn
        rw [serpentFloat_of_not_nan b hn'] at h2
        simp [dec] at h2; subst h2
        simp [post, recreate] at h3; subst h3; simp [nf, floatOk, hn']
  | .bytes b, _, a, d, w, h1, h2, h3 => by
    cases s with
    | marshal => rleaf h1 h2 h3
    | msgpack => rleaf h1 h2 h3
    | json => simp [enc, unsupported] at h1
    | serpent =>
      obtain ⟨hx, ho, hr⟩ := hp; subst hx; subst ho; subst hr
      obtain ⟨i1, i2, i3⟩ := serpentBytes_rt b
      simp [enc] at h1; subst h1
      rw [i1] at h2; cases h2
      simp [post, i2] at h3; subst h3; exact i3
  | .bytearray b, _, a, d, w, h1, h2, h3 => by
    cases s with
    | marshal => rleaf h1 h2 h3
    | msgpack => rleaf h1 h2 h3
    | json => simp [enc, unsupported] at h1
    | serpent =>
      obtain ⟨hx, ho, hr⟩ := hp; subst hx; subst ho; subst hr
      obtain ⟨i1, i2, i3⟩ := serpentBytes_rt b
      simp [enc] at h1; subst h1
      rw [i1] at h2; cases h2
      simp [post, i2] at h3; subst h3; exact i3
  | .uuid t, _, a, d, w, h1, h2, h3 => by
    cases s with
    | marshal => simp [enc] at h1
    | serpent => rleaf h1 h2 h3
    | json => rleaf h1 h2 h3
    | msgpack => rleaf h1 h2 h3
  | .decimal t, _, a, d, w, h1, h2, h3 => by
    cases s with
    | marshal => simp [enc] at h1
    | serpent => rleaf h1 h2 h3
    | json => rleaf h1 h2 h3
    | msgpack => rleaf h1 h2 h3
  | .ext _ _, _, a, d, w, h1, h2, h3 => by simp [enc] at h1
  | .date ord, _, a, d, w, h1, h2, h3 => by
    cases s with
    | marshal => simp [enc] at h1
    | serpent => rleaf h1 h2 h3
    | json => rleaf h1 h2 h3
    | msgpack =>
      obtain ⟨hx, _⟩ := hp; subst hx
      simp [enc] at h1; subst h1
      simp only [dec, true_and, if_true] at h2
      obtain ⟨n, e, hn1, hn2⟩ := extHook_date_ok _ _ h2
      subst e
      have := post_ok_leaf r _ _ w (by simp [recreate]) h3; subst this
      simp [nf, hn1, hn2]
  | .complex re im, _, a, d, w, h1, h2, h3 => by
    cases s with
    | marshal => rleaf h1 h2 h3
    | json => simp [enc, unsupported] at h1
    | msgpack =>
      obtain ⟨hx, _⟩ := hp; subst hx
      simp [enc] at h1; subst h1
      simp only [dec, true_and, if_true] at h2
      obtain ⟨_, e⟩ := extHook_complex_ok _ _ h2
      subst e
      have := post_ok_leaf r _ _ w (by simp [recreate]) h3; subst this
      have l1 := fromLE_lt (List.take 8 (toLE 8 re ++ toLE 8 im))
      have l2 := fromLE_lt (List.drop 8 (toLE 8 re ++ toLE 8 im))
      simp only [take_toLE_append, drop_toLE_append, toLE_length] at l1 l2
      simp only [take_toLE_append, drop_toLE_append]
      simp only [nf, Bool.and_eq_true, decide_eq_true_eq]
      exact ⟨by simpa using l1, by simpa using l2⟩
    | serpent =>
      obtain ⟨hx, ho, hr⟩ := hp; subst hx; subst ho; subst hr
      simp only [enc] at h1
      split at h1
      · cases h1
        obtain ⟨ds, g1, g2⟩ := dec_dict_shape _ _ _ _ _ h2
        rcases g2 with ⟨c, _⟩ | ⟨_, e⟩
        · cases c
        · subst e
          have hk : ds.hasKey classKey = true :=
            decPairs_hasKey_str _ _ _ sClass _ ds g1 (by simp [Pairs.hasKey, classKey])
          simp only [post, if_true, recreate, hk] at h3
          obtain ⟨_, e⟩ := dictToClass_ok _ ds w h3
          subst e; decide
      · rename_i hn
        split at h1
        · cases h1
        · rename_i hz
          cases h1
          simp [dec] at h2; subst h2
          simp [post, recreate] at h3; subst h3
          simp only [Bool.or_eq_true, not_or, Bool.not_eq_true] at hn
          simp only [not_or] at hz
          simp [nf, hn.1, hn.2, hz.1, hz.2]
  | .list xs, hv, a, d, w, h1, h2, h3 => by
    simp only [enc, bind_eq_ok] at h1
    obtain ⟨ys, g1, e⟩ := h1; cases e
    simp only [dec, bind_eq_ok] at h2
    obtain ⟨ds, g2, e⟩ := h2; cases e
    cases r with
    | false =>
      simp [post] at h3; subst h3
      simpa [nf] using range_list s xh oh false hp xs (by simpa [pyval] using hv) ys ds ds g1 g2 (by simp [postList])
    | true =>
      simp only [post, if_true, recreate, bind_eq_ok] at h3
      obtain ⟨ws, g3, e⟩ := h3; cases e
      simpa [nf] using range_list s xh oh true hp xs (by simpa [pyval] using hv) ys ds ws g1 g2 (by simp [postList, g3])
  | .tuple xs, hv, a, d, w, h1, h2, h3 => by
    have key : ∀ (mk : Vals → Val), (∀ zs, nf s (mk zs) = nfList s zs) →
        (∀ zs, dec s xh oh (mk zs) = (decList s xh oh zs >>= fun ys => .ok (mk ys))) →
        (∀ zs, recreate s (mk zs) = (recList s zs >>= fun ys => .ok (mk ys))) →
        ∀ ys, encList s true xs = .ok ys → a = mk ys → nf s w = true := by
      intro mk hnf hdec hrec ys g1 e
      subst e
      rw [hdec] at h2
      simp only [bind_eq_ok] at h2
      obtain ⟨ds, g2, e⟩ := h2; cases e
      cases r with
      | false =>
        simp [post] at h3; subst h3
        rw [hnf]
        exact range_list s xh oh false hp xs (by simpa [pyval] using hv) ys ds ds g1 g2 (by simp [postList])
      | true =>
        simp only [post, if_true, hrec, bind_eq_ok] at h3
        obtain ⟨ws, g3, e⟩ := h3; cases e
        rw [hnf]
        exact range_list s xh oh true hp xs (by simpa [pyval] using hv) ys ds ws g1 g2 (by simp [postList, g3])
    cases s with
    | serpent =>
      simp only [enc, bind_eq_ok] at h1
      obtain ⟨ys, g1, e⟩ := h1
      exact key .tuple (by simp [nf]) (by simp [dec]) (by simp [recreate]) ys g1 (by cases e; rfl)
    | marshal =>
      simp only [enc, bind_eq_ok] at h1
      obtain ⟨ys, g1, e⟩ := h1
      exact key .tuple (by simp [nf]) (by simp [dec]) (by simp [recreate]) ys g1 (by cases e; rfl)
    | json =>
      simp only [enc, bind_eq_ok] at h1
      obtain ⟨ys, g1, e⟩ := h1
      exact key .list (by simp [nf]) (by simp [dec]) (by simp [recreate]) ys g1 (by cases e; rfl)
    | msgpack =>
      simp only [enc, bind_eq_ok] at h1
      obtain ⟨ys, g1, e⟩ := h1
      exact key .list (by simp [nf]) (by simp [dec]) (by simp [recreate]) ys g1 (by cases e; rfl)
  | .set xs, hv, a, d, w, h1, h2, h3 => by
    simp only [pyval, Bool.and_eq_true] at hv
    have key : ∀ (mk : Vals → Val), (∀ zs, nf s (mk zs) = nfList s zs) →
        (∀ zs, dec s xh oh (mk zs) = (decList s xh oh zs >>= fun ys => .ok (mk ys))) →
        (∀ zs, recreate s (mk zs) = (recList s zs >>= fun ys => .ok (mk ys))) →
        ∀ ys, encList s true xs = .ok ys → a = mk ys → nf s w = true := by
      intro mk hnf hdec hrec ys g1 e
      subst e
      rw [hdec] at h2
      simp only [bind_eq_ok] at h2
      obtain ⟨ds, g2, e⟩ := h2; cases e
      cases r with
      | false =>
        simp [post] at h3; subst h3
        rw [hnf]
        exact range_list s xh oh false hp xs hv.2 ys ds ds g1 g2 (by simp [postList])
      | true =>
        simp only [post, if_true, hrec, bind_eq_ok] at h3
        obtain ⟨ws, g3, e⟩ := h3; cases e
        rw [hnf]
        exact range_list s xh oh true hp xs hv.2 ys ds ws g1 g2 (by simp [postList, g3])
    cases s with
    | marshal =>
      simp only [enc, bind_eq_ok] at h1
      obtain ⟨ys, g1, e⟩ := h1
      exact key .set (by simp [nf]) (by simp [dec]) (by simp [recreate]) ys g1 (by cases e; rfl)
    | json =>
      simp only [enc, if_true, bind_eq_ok] at h1
      obtain ⟨ys, g1, e⟩ := h1
      exact key .list (by simp [nf]) (by simp [dec]) (by simp [recreate]) ys g1 (by cases e; rfl)
    | msgpack =>
      simp only [enc, if_true, bind_eq_ok] at h1
      obtain ⟨ys, g1, e⟩ := h1
      exact key .list (by simp [nf]) (by simp [dec]) (by simp [recreate]) ys g1 (by cases e; rfl)
    | serpent =>
      obtain ⟨hx, ho, hr⟩ := hp; subst hx; subst ho; subst hr
      exact range_serpent_set xs a d w (Or.inl h1) h2 h3
  | .frozenset xs, hv, a, d, w, h1, h2, h3 => by
    simp only [pyval, Bool.and_eq_true] at hv
    cases s with
    | json => simp [enc, unsupported] at h1
    | msgpack => simp [enc, unsupported] at h1
    | serpent =>
      obtain ⟨hx, ho, hr⟩ := hp; subst hx; subst ho; subst hr
      exact range_serpent_set xs a d w (Or.inr h1) h2 h3
    | marshal =>
      obtain ⟨hx, ho, hr⟩ := hp; subst hx; subst ho; subst hr
      simp only [enc, bind_eq_ok] at h1
      obtain ⟨ys, g1, e⟩ := h1; cases e
      simp only [dec, bind_eq_ok] at h2
      obtain ⟨ds, g2, e⟩ := h2; cases e
      simp [post, recreate] at h3; subst h3
      obtain ⟨_, i2⟩ := hmr_list xs ys ds hv.1 g1 g2
      simpa [nf] using i2
  | .dict kvs, hv, a, d, w, h1, h2, h3 => by
    simp only [pyval, Bool.and_eq_true] at hv
    simp only [enc, bind_eq_ok] at h1
    obtain ⟨ps, g1, e⟩ := h1; cases e
    obtain ⟨ds, g2, g3⟩ := dec_dict_shape _ _ _ _ _ h2
    obtain ⟨hn, hg⟩ := range_pairs s xh oh r hp kvs hv.1 hv.2 ps ds g1 g2
    rcases g3 with ⟨_, _, _, c⟩ | ⟨hc, e⟩
    · obtain ⟨c1, _⟩ := dictToClass_ok _ _ _ c; cases c1
    · subst e
      refine post_dict s r ds w hn hg ?_ h3
      intro hr
      subst hr
      cases s with
      | msgpack =>
        obtain ⟨_, hh⟩ := hp
        rcases hh with ⟨ho, _⟩ | ⟨_, c⟩
        · subst ho
          cases hk : ds.hasKey classKey with
          | false => rfl
          | true => exact absurd ⟨rfl, rfl, hk⟩ hc
        · cases c
      | serpent => obtain ⟨_, _, c⟩ := hp; cases c
      | marshal => obtain ⟨_, _, c⟩ := hp; cases c
      | json => obtain ⟨_, _, c⟩ := hp; cases c
  | .inst cls fields, hv, a, d, w, h1, h2, h3 => by
    have key : ∀ fs : Pairs, a = .dict (fs.set classKey (.str cls)) → nf s w = true := by
      intro fs e
      subst e
      obtain ⟨ds, g2, g3⟩ := dec_dict_shape _ _ _ _ _ h2
      rcases g3 with ⟨_, _, _, c⟩ | ⟨_, e⟩
      · obtain ⟨c1, _⟩ := dictToClass_ok _ _ _ c; cases c1
      · subst e
        have hk : ds.hasKey classKey = true :=
          decPairs_hasKey_str _ _ _ sClass _ ds g2 (hasKey_set_self _ _ fs)
        cases r with
        | true =>
          simp only [post, if_true, recreate, hk] at h3
          obtain ⟨_, e⟩ := dictToClass_ok _ ds w h3
          subst e; exact nf_nan s
        | false =>
          cases s with
          | msgpack =>
            obtain ⟨_, hh⟩ := hp
            rcases hh with ⟨ho, _⟩ | ⟨_, c⟩
            · subst ho
              simp only [dec, g2, bind_ok', hk] at h2
              simp at h2
              obtain ⟨c1, _⟩ := dictToClass_ok _ _ _ h2; cases c1
            · cases c
          | serpent => obtain ⟨_, _, c⟩ := hp; cases c
          | marshal => obtain ⟨_, _, c⟩ := hp; cases c
          | json => obtain ⟨_, _, c⟩ := hp; cases c
    cases s with
    | marshal => simp [enc] at h1
    | serpent =>
      simp only [enc, bind_eq_ok] at h1
      obtain ⟨fs, _, e⟩ := h1
      exact key fs (by cases e; rfl)
    | json =>
      simp only [enc, if_true, bind_eq_ok] at h1
      obtain ⟨fs, _, e⟩ := h1
      exact key fs (by cases e; rfl)
    | msgpack =>
      simp only [enc, if_true, bind_eq_ok] at h1
      obtain ⟨fs, _, e⟩ := h1
      exact key fs (by cases e; rfl)
theorem range_list (s : Ser) (xh oh r : Bool) (hp : phOK s xh oh r) : ∀ xs, pyvalList xs = true → ∀ as ds ws,
    encList s true xs = .ok as → decList s xh oh as = .ok ds → postList r s ds = .ok ws → nfList s ws = true
  | .nil, _, as, ds, ws, h1, h2, h3 => by
    simp [encList] at h1; subst h1; simp [decList] at h2; subst h2
    cases r <;> simp [postList, recList] at h3 <;> subst h3 <;> simp [nfList]
  | .cons x xs, hv, as, ds, ws, h1, h2, h3 => by
    simp only [pyvalList, Bool.and_eq_true] at hv
    simp only [encList, bind_eq_ok] at h1
    obtain ⟨a, g1, as', g2, e⟩ := h1; cases e
    simp only [decList, bind_eq_ok] at h2
    obtain ⟨d, g3, ds', g4, e⟩ := h2; cases e
    cases r with
    | false =>
      simp [postList] at h3; subst h3
      have i1 := range_val s xh oh false hp x hv.1 a d d g1 g3 (by simp [post])
      have i2 := range_list s xh oh false hp xs hv.2 as' ds' ds' g2 g4 (by simp [postList])
      simp [nfList, i1, i2]
    | true =>
      simp only [postList, if_true, recList, bind_eq_ok] at h3
      obtain ⟨w, g5, ws', g6, e⟩ := h3; cases e
      have i1 := range_val s xh oh true hp x hv.1 a d w g1 g3 (by simp [post, g5])
      have i2 := range_list s xh oh true hp xs hv.2 as' ds' ws' g2 g4 (by simp [postList, g6])
      simp [nfList, i1, i2]
theorem range_pairs (s : Ser) (xh oh r : Bool) (hp : phOK s xh oh r) : ∀ kvs, kvs.allKeys hashable = true →
    pyvalPairs kvs = true → ∀ ps ds, encPairs s true kvs = .ok ps → decPairs s xh oh ps = .ok ds →
    ds.nodupKeys = true ∧ GoodPairs s r ds
  | .nil, _, _, ps, ds, h1, h2 => by
    simp [encPairs] at h1; subst h1; simp [decPairs] at h2; subst h2
    exact ⟨rfl, trivial⟩
  | .cons k v rest, hh, hv, ps, ds, h1, h2 => by
    simp only [Pairs.allKeys, Bool.and_eq_true] at hh
    simp only [pyvalPairs, Bool.and_eq_true] at hv
    -- shape of the encoded pairs, per serializer
    have shape : ∃ ka a ps', ps = .cons ka a ps' ∧ enc s true v = .ok a ∧ encPairs s true rest = .ok ps' ∧
        (∀ kd, dec s xh oh ka = .ok kd →
          (s = .serpent → unhashable kd = false → keyOK s kd = true) ∧
          (s = .marshal → keyOK s kd = true) ∧ (s = .json → keyOK s kd = true)) := by
      cases s with
      | serpent =>
        obtain ⟨hx, ho, hr⟩ := hp; subst hx; subst ho; subst hr
        simp only [encPairs] at h1
        split at h1
        · rename_i ht
          simp only [bind_eq_ok] at h1
          obtain ⟨ka, g1, a, g2, ps', g3, e⟩ := h1; cases e
          refine ⟨ka, a, ps', rfl, g2, g3, ?_⟩
          intro kd hkd
          refine ⟨fun _ hu => ?_, (fun c => by cases c), (fun c => by cases c)⟩
          obtain ⟨i1, _, i3, i4⟩ := hsr_val k ka kd g1 hkd hu
          simp [keyOK, i1, i3, i4 ht]
        · cases h1
      | marshal =>
        obtain ⟨hx, ho, hr⟩ := hp; subst hx; subst ho; subst hr
        simp only [encPairs, bind_eq_ok] at h1
        obtain ⟨ka, g1, a, g2, ps', g3, e⟩ := h1; cases e
        refine ⟨ka, a, ps', rfl, g2, g3, ?_⟩
        intro kd hkd
        refine ⟨(fun c => by cases c), fun _ => ?_, (fun c => by cases c)⟩
        obtain ⟨i1, i2⟩ := hmr_val k ka kd hh.1 g1 hkd
        simp [keyOK, i1, i2]
      | json =>
        obtain ⟨hx, ho, hr⟩ := hp; subst hx; subst ho; subst hr
        simp only [encPairs, bind_eq_ok] at h1
        obtain ⟨ka, g1, a, g2, ps', g3, e⟩ := h1; cases e
        refine ⟨ka, a, ps', rfl, g2, g3, ?_⟩
        intro kd hkd
        refine ⟨(fun c => by cases c), (fun c => by cases c), fun _ => ?_⟩
        obtain ⟨t, e⟩ := jsonKey_isStr k ka g1
        subst e
        simp [dec] at hkd; subst hkd
        simp [keyOK, isStr]
      | msgpack =>
        simp only [encPairs, bind_eq_ok] at h1
        obtain ⟨ka, g1, a, g2, ps', g3, e⟩ := h1; cases e
        refine ⟨ka, a, ps', rfl, g2, g3, ?_⟩
        intro kd _
        exact ⟨(fun c => by cases c), (fun c => by cases c), (fun c => by cases c)⟩
    obtain ⟨ka, a, ps', e, g2, g3, hkey⟩ := shape
    subst e
    simp only [decPairs, bind_eq_ok] at h2
    obtain ⟨kd, d1, d, d2, d3⟩ := h2
    split at d3
    · cases d3
    · rename_i c1
      split at d3
      · cases d3
      · rename_i c2
        simp only [bind_eq_ok] at d3
        obtain ⟨ds', d4, e⟩ := d3; cases e
        obtain ⟨hn, hg⟩ := range_pairs s xh oh r hp rest hh.2 hv.2 ps' ds' g3 d4
        refine ⟨Pairs.nodupKeys_pushFront _ _ _ hn, good_pushFront s r kd d ds' ?_ ?_ hg⟩
        · obtain ⟨k1, k2, k3⟩ := hkey kd d1
          cases s with
          | serpent =>
            apply k1 rfl
            cases hu : unhashable kd with
            | false => rfl
            | true => exact absurd ⟨rfl, hu⟩ c1
          | marshal => exact k2 rfl
          | json => exact k3 rfl
          | msgpack =>
            cases hb : isStrOrBytes kd with
            | true => simp [keyOK, hb]
            | false => exact absurd ⟨rfl, by simp [hb]⟩ c2
        · intro w hw
          exact range_val s xh oh r hp v hv.1.2 a d w g2 d2 hw
end

end Pyro.Values
