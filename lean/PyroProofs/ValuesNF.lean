/-
  Normal forms of the four type mappings (PyroModel/Values.lean):
    * `fix_val`   — a normal form goes through dumps / loads / recreate unchanged (all four serializers),
    * `range_val` — whatever comes out of dumps / loads / recreate is a normal form.
  Property theorems (lossless round trip, idempotence) are derived in PyroProps/C01.lean.
-/
import PyroProofs.Values

namespace Pyro.Values

open Pyro

@[simp] theorem bind_ok' {ε α β : Type} (a : α) (f : α → Except ε β) : (Except.ok a >>= f) = f a := rfl
@[simp] theorem bind_err' {ε α β : Type} (e : ε) (f : α → Except ε β) :
    ((Except.error e : Except ε α) >>= f) = Except.error e := rfl

theorem bind_eq_ok {ε α β : Type} (x : Except ε α) (f : α → Except ε β) (b : β) :
    (x >>= f) = .ok b ↔ ∃ a, x = .ok a ∧ f a = .ok b := by
  cases x with
  | error e => simp
  | ok a => simp

/-- the post-processing after the library's loads: `recreate_classes` when `r`, nothing otherwise -/
def post (r : Bool) (s : Ser) (d : Val) : Except Err Val := if r then recreate s d else .ok d
def postList (r : Bool) (s : Ser) (d : Vals) : Except Err Vals := if r then recList s d else .ok d
def postVals (r : Bool) (s : Ser) (d : Pairs) : Except Err Pairs := if r then recVals s d else .ok d

/-- which hooks run where: serpent / marshal / json = plain loads then `recreate_classes`;
    msgpack = `ext_hook` inside loads, and class dicts either by `object_hook` inside loads or by
    `recreate_classes` afterwards. -/
def phOK (s : Ser) (xh oh r : Bool) : Prop :=
  match s with
  | .msgpack => xh = true ∧ ((oh = true ∧ r = false) ∨ (oh = false ∧ r = true))
  | _ => xh = false ∧ oh = false ∧ r = true

theorem post_leaf (r : Bool) (s : Ser) (w : Val) (h : recreate s w = .ok w) : post r s w = .ok w := by
  cases r <;> simp [post, h]

theorem serpentFloat_of_not_nan (b : Nat) (h : isNan b = false) : serpentFloat b = .float b := by
  simp [serpentFloat, h]

/-! ### serpent: values that survive as set elements / dict keys are untouched by every phase -/
mutual
theorem hs_val : ∀ k, hashOK k = true →
    enc .serpent true k = .ok k ∧ dec .serpent false false k = .ok k ∧ unhashable k = false ∧
    recreate .serpent k = .ok k ∧ nf .serpent k = true
  | .none, _ => by simp [enc, dec, unhashable, recreate, nf]
  | .bool _, _ => by simp [enc, dec, unhashable, recreate, nf]
  | .int _, _ => by simp [enc, dec, unhashable, recreate, nf]
  | .str _, _ => by simp [enc, dec, unhashable, recreate, nf]
  | .float b, h => by
    have hb : isNan b = false := by simpa [hashOK] using h
    simp [enc, dec, unhashable, recreate, nf, serpentFloat_of_not_nan b hb, floatOk, hb]
  | .complex re im, h => by
    simp only [hashOK, Bool.and_eq_true, Bool.not_eq_true', bne_iff_ne, ne_eq] at h
    obtain ⟨⟨⟨h1, h2⟩, h3⟩, h4⟩ := h
    simp [enc, dec, unhashable, recreate, nf, h1, h2, h3, h4]
  | .tuple xs, h => by
    have ih := hs_list xs (by simpa [hashOK] using h)
    obtain ⟨i1, i2, i3, i4, i5⟩ := ih
    simp [enc, dec, unhashable, recreate, nf, i1, i2, i3, i4, i5]
  | .bytes _, h => by simp [hashOK] at h
  | .bytearray _, h => by simp [hashOK] at h
  | .list _, h => by simp [hashOK] at h
  | .set _, h => by simp [hashOK] at h
  | .frozenset _, h => by simp [hashOK] at h
  | .dict _, h => by simp [hashOK] at h
  | .uuid _, h => by simp [hashOK] at h
  | .decimal _, h => by simp [hashOK] at h
  | .date _, h => by simp [hashOK] at h
  | .ext _ _, h => by simp [hashOK] at h
  | .inst _ _, h => by simp [hashOK] at h
theorem hs_list : ∀ xs, hashOK.hashOKList xs = true →
    encList .serpent true xs = .ok xs ∧ decList .serpent false false xs = .ok xs ∧
    unhashable.unhashableList xs = false ∧ recList .serpent xs = .ok xs ∧ nfList .serpent xs = true
  | .nil, _ => by simp [encList, decList, unhashable.unhashableList, recList, nfList]
  | .cons x xs, h => by
    simp only [hashOK.hashOKList, Bool.and_eq_true] at h
    obtain ⟨a1, a2, a3, a4, a5⟩ := hs_val x h.1
    obtain ⟨b1, b2, b3, b4, b5⟩ := hs_list xs h.2
    simp [encList, decList, unhashable.unhashableList, recList, nfList, a1, a2, a3, a4, a5, b1, b2, b3, b4, b5]
end

theorem encElts_of_encList : ∀ (xs ys : Vals), xs.all serpentHashType = true →
    encList .serpent true xs = .ok ys → encElts true xs = .ok ys
  | .nil, ys, _, h => by simpa [encList, encElts] using h
  | .cons x xs, ys, ht, h => by
    simp only [Vals.all, Bool.and_eq_true] at ht
    simp only [encList, bind_eq_ok] at h
    obtain ⟨y, hy, ys', hys, e⟩ := h
    simp only [encElts, ht.1, if_true, hy, bind_ok', encElts_of_encList xs ys' ht.2 hys]
    exact e

/-! ### marshal: a normal form is untouched by dumps and loads -/
mutual
theorem mi_val : ∀ k, nf .marshal k = true →
    enc .marshal true k = .ok k ∧ dec .marshal false false k = .ok k
  | .none, _ => by simp [enc, dec]
  | .bool _, _ => by simp [enc, dec]
  | .int _, _ => by simp [enc, dec]
  | .str _, _ => by simp [enc, dec]
  | .float _, _ => by simp [enc, dec]
  | .complex _ _, _ => by simp [enc, dec]
  | .bytes _, _ => by simp [enc, dec]
  | .tuple xs, h => by
    obtain ⟨i1, i2⟩ := mi_list xs (by simpa [nf] using h)
    simp [enc, dec, i1, i2]
  | .list xs, h => by
    obtain ⟨i1, i2⟩ := mi_list xs (by simpa [nf] using h)
    simp [enc, dec, i1, i2]
  | .set xs, h => by
    obtain ⟨i1, i2⟩ := mi_list xs (by simpa [nf] using h)
    simp [enc, dec, i1, i2]
  | .frozenset xs, h => by
    obtain ⟨i1, i2⟩ := mi_list xs (by simpa [nf] using h)
    simp [enc, dec, i1, i2]
  | .dict kvs, h => by
    simp only [nf, Bool.and_eq_true] at h
    obtain ⟨i1, i2⟩ := mi_pairs kvs h.2 h.1.2
    simp [enc, dec, i1, i2]
  | .bytearray _, h => by simp [nf] at h
  | .uuid _, h => by simp [nf] at h
  | .decimal _, h => by simp [nf] at h
  | .date _, h => by simp [nf] at h
  | .ext _ _, h => by simp [nf] at h
  | .inst _ _, h => by simp [nf] at h
theorem mi_list : ∀ xs, nfList .marshal xs = true →
    encList .marshal true xs = .ok xs ∧ decList .marshal false false xs = .ok xs
  | .nil, _ => by simp [encList, decList]
  | .cons x xs, h => by
    simp only [nfList, Bool.and_eq_true] at h
    obtain ⟨a1, a2⟩ := mi_val x h.1
    obtain ⟨b1, b2⟩ := mi_list xs h.2
    simp [encList, decList, a1, a2, b1, b2]
theorem mi_pairs : ∀ kvs, nfPairs .marshal kvs = true → kvs.nodupKeys = true →
    encPairs .marshal true kvs = .ok kvs ∧ decPairs .marshal false false kvs = .ok kvs
  | .nil, _, _ => by simp [encPairs, decPairs]
  | .cons k v r, h, hn => by
    simp only [nfPairs, Bool.and_eq_true] at h
    simp only [Pairs.nodupKeys, Bool.and_eq_true, Bool.not_eq_true'] at hn
    obtain ⟨a1, a2⟩ := mi_val k h.1.1.2
    obtain ⟨b1, b2⟩ := mi_val v h.1.2
    obtain ⟨c1, c2⟩ := mi_pairs r h.2 hn.2
    simp [encPairs, decPairs, a1, a2, b1, b2, c1, c2, Pairs.pushFront_fresh k v r hn.1]
end

theorem nan_dict_dec : dec .serpent false false (serpentFloat nanBits) = .ok (serpentFloat nanBits) := by decide
theorem nan_dict_rec : recreate .serpent (serpentFloat nanBits) = .ok (.float nanBits) := by decide
theorem nan_dict_enc : serpentFloat nanBits ≠ .float nanBits := by decide

/-! ### (A) a normal form is a fixed point of dumps ; loads ; post-processing -/
mutual
theorem fix_val (s : Ser) (xh oh r : Bool) (hp : phOK s xh oh r) : ∀ w, nf s w = true →
    ∃ a d, enc s true w = .ok a ∧ dec s xh oh a = .ok d ∧ post r s d = .ok w
  | .none, _ => ⟨.none, .none, by simp [enc], by simp [dec], post_leaf _ _ _ (by simp [recreate])⟩
  | .bool b, _ => ⟨.bool b, .bool b, by simp [enc], by simp [dec], post_leaf _ _ _ (by simp [recreate])⟩
  | .str t, _ => ⟨.str t, .str t, by simp [enc], by simp [dec], post_leaf _ _ _ (by simp [recreate])⟩
  | .int z, _ => by
    cases s with
    | msgpack =>
      obtain ⟨hx, _⟩ := hp
      subst hx
      by_cases hr : i64Min ≤ z ∧ z < u64Bound
      · exact ⟨.int z, .int z, by simp [enc, hr], by simp [dec], post_leaf _ _ _ (by simp [recreate])⟩
      · exact ⟨.ext extLong (intToAscii z), .int z, by simp [enc, hr], by simp [dec, extHook_long],
          post_leaf _ _ _ (by simp [recreate])⟩
    | serpent => exact ⟨.int z, .int z, by simp [enc], by simp [dec], post_leaf _ _ _ (by simp [recreate])⟩
    | marshal => exact ⟨.int z, .int z, by simp [enc], by simp [dec], post_leaf _ _ _ (by simp [recreate])⟩
    | json => exact ⟨.int z, .int z, by simp [enc], by simp [dec], post_leaf _ _ _ (by simp [recreate])⟩
  | .float b, h => by
    cases s with
    | serpent =>
      obtain ⟨hx, ho, hr⟩ := hp
      subst hx; subst ho; subst hr
      by_cases hn : isNan b = true
      · have hb : b = nanBits := by simpa [nf, floatOk, hn] using h
        subst hb
        exact ⟨serpentFloat nanBits, serpentFloat nanBits, by simp [enc], nan_dict_dec, by simp [post, nan_dict_rec]⟩
      · have hn' : isNan b = false := by simpa using hn
        exact ⟨.float b, .float b, by simp [enc, serpentFloat_of_not_nan b hn'], by simp [dec],
          post_leaf _ _ _ (by simp [recreate])⟩
    | marshal => exact ⟨.float b, .float b, by simp [enc], by simp [dec], post_leaf _ _ _ (by simp [recreate])⟩
    | json => exact ⟨.float b, .float b, by simp [enc], by simp [dec], post_leaf _ _ _ (by simp [recreate])⟩
    | msgpack => exact ⟨.float b, .float b, by simp [enc], by simp [dec], post_leaf _ _ _ (by simp [recreate])⟩
  | .bytes b, h => by
    cases s with
    | serpent => simp [nf] at h
    | json => simp [nf] at h
    | marshal => exact ⟨.bytes b, .bytes b, by simp [enc], by simp [dec], post_leaf _ _ _ (by simp [recreate])⟩
    | msgpack => exact ⟨.bytes b, .bytes b, by simp [enc], by simp [dec], post_leaf _ _ _ (by simp [recreate])⟩
  | .list xs, h => by
    obtain ⟨as, ds, h1, h2, h3⟩ := fix_list s xh oh r hp xs (by simpa [nf] using h)
    refine ⟨.list as, .list ds, by simp [enc, h1], by simp [dec, h2], ?_⟩
    cases r <;> simp_all [post, postList, recreate]
  | .tuple xs, h => by
    cases s with
    | json => simp [nf] at h
    | msgpack => simp [nf] at h
    | serpent =>
      obtain ⟨as, ds, h1, h2, h3⟩ := fix_list .serpent xh oh r hp xs (by simpa [nf] using h)
      refine ⟨.tuple as, .tuple ds, by simp [enc, h1], by simp [dec, h2], ?_⟩
      cases r <;> simp_all [post, postList, recreate]
    | marshal =>
      obtain ⟨as, ds, h1, h2, h3⟩ := fix_list .marshal xh oh r hp xs (by simpa [nf] using h)
      refine ⟨.tuple as, .tuple ds, by simp [enc, h1], by simp [dec, h2], ?_⟩
      cases r <;> simp_all [post, postList, recreate]
  | .set xs, h => by
    cases s with
    | json => simp [nf] at h
    | msgpack => simp [nf] at h
    | marshal =>
      obtain ⟨as, ds, h1, h2, h3⟩ := fix_list .marshal xh oh r hp xs (by simpa [nf] using h)
      refine ⟨.set as, .set ds, by simp [enc, h1], by simp [dec, h2], ?_⟩
      cases r <;> simp_all [post, postList, recreate]
    | serpent =>
      obtain ⟨hx, ho, hr⟩ := hp
      subst hx; subst ho; subst hr
      simp only [nf, Bool.and_eq_true] at h
      obtain ⟨⟨⟨hne, ht⟩, hh⟩, _⟩ := h
      obtain ⟨i1, i2, i3, i4, _⟩ := hs_list xs hh
      have he := encElts_of_encList xs xs ht i1
      refine ⟨.set xs, .set xs, ?_, by simp [dec, i2, i3], by simp [post, recreate, i4]⟩
      cases xs with
      | nil => simp at hne
      | cons x xs' => simp [enc, he]
  | .frozenset xs, h => by
    cases s with
    | json => simp [nf] at h
    | msgpack => simp [nf] at h
    | serpent => simp [nf] at h
    | marshal =>
      -- recreate_classes does not look inside a frozenset (`t is set` only): dumps / loads are the identity here
      obtain ⟨hx, ho, hr⟩ := hp
      subst hx; subst ho; subst hr
      obtain ⟨i1, i2⟩ := mi_list xs (by simpa [nf] using h)
      exact ⟨.frozenset xs, .frozenset xs, by simp [enc, i1], by simp [dec, i2], by simp [post, recreate]⟩
  | .dict kvs, h => by
    simp only [nf, Bool.and_eq_true, Bool.not_eq_true'] at h
    obtain ⟨⟨hc, hn⟩, hv⟩ := h
    obtain ⟨ps, ds, h1, h2, h3, hk⟩ := fix_pairs s xh oh r hp kvs hv hn
    have hck : ds.hasKey classKey = false := by rw [hk]; exact hc
    refine ⟨.dict ps, .dict ds, by simp [enc, h1], by simp [dec, h2, hck], ?_⟩
    cases r <;> simp_all [post, postVals, recreate]
  | .complex re im, h => by
    cases s with
    | json => simp [nf] at h
    | marshal =>
      exact ⟨.complex re im, .complex re im, by simp [enc], by simp [dec], post_leaf _ _ _ (by simp [recreate])⟩
    | serpent =>
      simp only [nf, Bool.and_eq_true, Bool.not_eq_true', bne_iff_ne, ne_eq] at h
      obtain ⟨⟨⟨h1, h2⟩, h3⟩, h4⟩ := h
      exact ⟨.complex re im, .complex re im, by simp [enc, h1, h2, h3, h4], by simp [dec],
        post_leaf _ _ _ (by simp [recreate])⟩
    | msgpack =>
      obtain ⟨hx, _⟩ := hp
      subst hx
      simp only [nf, Bool.and_eq_true, decide_eq_true_eq] at h
      exact ⟨.ext extComplex (toLE 8 re ++ toLE 8 im), .complex re im, by simp [enc],
        by simp [dec, extHook_complex re im h.1 h.2], post_leaf _ _ _ (by simp [recreate])⟩
  | .date ord, h => by
    cases s with
    | json => simp [nf] at h
    | marshal => simp [nf] at h
    | serpent => simp [nf] at h
    | msgpack =>
      obtain ⟨hx, _⟩ := hp
      subst hx
      simp only [nf, Bool.and_eq_true, decide_eq_true_eq] at h
      exact ⟨.ext extDate (toLE 8 ord), .date ord, by simp [enc],
        by simp [dec, extHook_date ord h.1 h.2], post_leaf _ _ _ (by simp [recreate])⟩
  | .bytearray _, h => by simp [nf] at h
  | .uuid _, h => by simp [nf] at h
  | .decimal _, h => by simp [nf] at h
  | .ext _ _, h => by simp [nf] at h
  | .inst _ _, h => by simp [nf] at h
theorem fix_list (s : Ser) (xh oh r : Bool) (hp : phOK s xh oh r) : ∀ ws, nfList s ws = true →
    ∃ as ds, encList s true ws = .ok as ∧ decList s xh oh as = .ok ds ∧ postList r s ds = .ok ws
  | .nil, _ => ⟨.nil, .nil, by simp [encList], by simp [decList], by cases r <;> simp [postList, recList]⟩
  | .cons x xs, h => by
    simp only [nfList, Bool.and_eq_true] at h
    obtain ⟨a, d, a1, a2, a3⟩ := fix_val s xh oh r hp x h.1
    obtain ⟨as, ds, b1, b2, b3⟩ := fix_list s xh oh r hp xs h.2
    refine ⟨.cons a as, .cons d ds, by simp [encList, a1, b1], by simp [decList, a2, b2], ?_⟩
    cases r <;> simp_all [post, postList, recList]
theorem fix_pairs (s : Ser) (xh oh r : Bool) (hp : phOK s xh oh r) : ∀ kvs, nfPairs s kvs = true →
    kvs.nodupKeys = true →
    ∃ ps ds, encPairs s true kvs = .ok ps ∧ decPairs s xh oh ps = .ok ds ∧ postVals r s ds = .ok kvs ∧
      (∀ k, ds.hasKey k = kvs.hasKey k)
  | .nil, _, _ => ⟨.nil, .nil, by simp [encPairs], by simp [decPairs], by cases r <;> simp [postVals, recVals],
      fun _ => rfl⟩
  | .cons k v rest, h, hn => by
    simp only [nfPairs, Bool.and_eq_true] at h
    simp only [Pairs.nodupKeys, Bool.and_eq_true, Bool.not_eq_true'] at hn
    obtain ⟨⟨hkey, hv⟩, hrest⟩ := h
    obtain ⟨a, d, a1, a2, a3⟩ := fix_val s xh oh r hp v hv
    obtain ⟨ps, ds, b1, b2, b3, hk⟩ := fix_pairs s xh oh r hp rest hrest hn.2
    have hfresh : ds.hasKey k = false := by rw [hk]; exact hn.1
    have hpush := Pairs.pushFront_fresh k d ds hfresh
    have hkeys : ∀ k', (Pairs.cons k d ds).hasKey k' = (Pairs.cons k v rest).hasKey k' := by
      intro k'; simp [Pairs.hasKey, hk]
    cases s with
    | serpent =>
      obtain ⟨hx, ho, hr⟩ := hp
      subst hx; subst ho; subst hr
      simp only [Bool.and_eq_true] at hkey
      obtain ⟨⟨ht, hh⟩, _⟩ := hkey
      obtain ⟨i1, i2, i3, _, _⟩ := hs_val k hh
      refine ⟨.cons k a ps, .cons k d ds, by simp [encPairs, ht, i1, a1, b1],
        by simp [decPairs, i2, a2, i3, b2, hpush], ?_, hkeys⟩
      simp_all [post, postVals, recVals]
    | marshal =>
      obtain ⟨hx, ho, hr⟩ := hp
      subst hx; subst ho; subst hr
      simp only [Bool.and_eq_true] at hkey
      obtain ⟨i1, i2⟩ := mi_val k hkey.2
      refine ⟨.cons k a ps, .cons k d ds, by simp [encPairs, i1, a1, b1],
        by simp [decPairs, i2, a2, b2, hpush], ?_, hkeys⟩
      simp_all [post, postVals, recVals]
    | json =>
      obtain ⟨hx, ho, hr⟩ := hp
      subst hx; subst ho; subst hr
      cases k with
      | str t =>
        refine ⟨.cons (.str t) a ps, .cons (.str t) d ds, by simp [encPairs, jsonKey, a1, b1],
          by simp [decPairs, dec, a2, b2, hpush], ?_, hkeys⟩
        simp_all [post, postVals, recVals]
      | _ => simp [isStr] at hkey
    | msgpack =>
      cases k with
      | str t =>
        refine ⟨.cons (.str t) a ps, .cons (.str t) d ds, by simp [encPairs, enc, a1, b1],
          by simp [decPairs, dec, a2, b2, hpush, isStrOrBytes], ?_, hkeys⟩
        cases r <;> simp_all [post, postVals, recVals]
      | bytes t =>
        refine ⟨.cons (.bytes t) a ps, .cons (.bytes t) d ds, by simp [encPairs, enc, a1, b1],
          by simp [decPairs, dec, a2, b2, hpush, isStrOrBytes], ?_, hkeys⟩
        cases r <;> simp_all [post, postVals, recVals]
      | _ => simp [isStrOrBytes] at hkey
end

/-! ### (B) whatever comes out of dumps ; loads ; post-processing is a normal form -/

theorem dictToClass_ok (s : Ser) (d : Pairs) (w : Val) (h : dictToClass s d = .ok w) :
    s = .serpent ∧ w = .float nanBits := by
  unfold dictToClass at h
  split at h
  · rename_i name hl
    split at h
    · rename_i hc
      split at h
      · split at h
        · cases h; exact ⟨hc.1, rfl⟩
        · cases h
      · cases h
    · split at h
      · cases h
      · split at h <;> cases h
  · cases h

theorem dec_dict_shape (s : Ser) (xh oh : Bool) (kvs : Pairs) (d : Val)
    (h : dec s xh oh (.dict kvs) = .ok d) :
    ∃ ds, decPairs s xh oh kvs = .ok ds ∧
      ((s = .msgpack ∧ oh = true ∧ ds.hasKey classKey = true ∧ dictToClass .msgpack ds = .ok d) ∨
       (¬(s = .msgpack ∧ oh = true ∧ ds.hasKey classKey = true) ∧ d = .dict ds)) := by
  simp only [dec, bind_eq_ok] at h
  obtain ⟨ds, h1, h2⟩ := h
  refine ⟨ds, h1, ?_⟩
  by_cases c : s = .msgpack ∧ oh = true ∧ ds.hasKey classKey = true
  · rw [if_pos c] at h2; exact Or.inl ⟨c.1, c.2.1, c.2.2, h2⟩
  · rw [if_neg c] at h2; cases h2; exact Or.inr ⟨c, rfl⟩

theorem decPairs_hasKey_str (s : Ser) (xh oh : Bool) (t : Str) : ∀ (ps ds : Pairs),
    decPairs s xh oh ps = .ok ds → ps.hasKey (.str t) = true → ds.hasKey (.str t) = true
  | .nil, _, _, h => by simp [Pairs.hasKey] at h
  | .cons k v rest, ds, hd, hk => by
    simp only [decPairs, bind_eq_ok] at hd
    obtain ⟨k', h1, v', h2, h3⟩ := hd
    split at h3
    · cases h3
    · split at h3
      · cases h3
      · simp only [bind_eq_ok] at h3
        obtain ⟨r, h4, h5⟩ := h3
        cases h5
        rw [Pairs.hasKey_pushFront]
        simp only [Pairs.hasKey] at hk
        by_cases e : k = .str t
        · subst e
          simp only [dec] at h1
          cases h1
          simp
        · rw [if_neg e] at hk
          have := decPairs_hasKey_str s xh oh t rest r h4 hk
          rw [this]; simp

theorem hasKey_set_self (k v : Val) : ∀ (d : Pairs), (d.set k v).hasKey k = true
  | .nil => by simp [Pairs.set, Pairs.hasKey]
  | .cons k' v' r => by
    simp only [Pairs.set]
    by_cases e : k' = k
    · rw [if_pos e]; simp [Pairs.hasKey]
    · rw [if_neg e]; simp [Pairs.hasKey, e, hasKey_set_self k v r]

theorem dec_serpent_dict_unhashable (kvs : Pairs) (d : Val) (h : dec .serpent false false (.dict kvs) = .ok d) :
    unhashable d = true := by
  simp only [dec, bind_eq_ok] at h
  obtain ⟨ds, _, h2⟩ := h
  simp at h2
  cases h2
  simp [unhashable]

theorem serpentFloat_cases (b : Nat) : (isNan b = true ∧ ∃ kvs, serpentFloat b = .dict kvs) ∨
    (isNan b = false ∧ serpentFloat b = .float b) := by
  unfold serpentFloat
  by_cases h : isNan b = true
  · rw [if_pos h]; exact Or.inl ⟨h, _, rfl⟩
  · rw [if_neg h]; exact Or.inr ⟨by simpa using h, rfl⟩

/-! serpent: whatever survives as a set element / dict key after dumps ; loads is a hashable normal form -/
mutual
theorem hsr_val : ∀ x a d, enc .serpent true x = .ok a → dec .serpent false false a = .ok d →
    unhashable d = false →
    hashOK d = true ∧ recreate .serpent d = .ok d ∧ nf .serpent d = true ∧
      (serpentHashType x = true → serpentHashType d = true)
  | .none, a, d, h1, h2, _ => by
    simp [enc] at h1; subst h1; simp [dec] at h2; subst h2; simp [hashOK, recreate, nf, serpentHashType]
  | .bool _, a, d, h1, h2, _ => by
    simp [enc] at h1; subst h1; simp [dec] at h2; subst h2; simp [hashOK, recreate, nf, serpentHashType]
  | .int _, a, d, h1, h2, _ => by
    simp [enc] at h1; subst h1; simp [dec] at h2; subst h2; simp [hashOK, recreate, nf, serpentHashType]
  | .str _, a, d, h1, h2, _ => by
    simp [enc] at h1; subst h1; simp [dec] at h2; subst h2; simp [hashOK, recreate, nf, serpentHashType]
  | .uuid _, a, d, h1, h2, _ => by
    simp [enc] at h1; subst h1; simp [dec] at h2; subst h2; simp [hashOK, recreate, nf, serpentHashType]
  | .decimal _, a, d, h1, h2, _ => by
    simp [enc] at h1; subst h1; simp [dec] at h2; subst h2; simp [hashOK, recreate, nf, serpentHashType]
  | .date _, a, d, h1, h2, _ => by
    simp [enc] at h1; subst h1; simp [dec] at h2; subst h2; simp [hashOK, recreate, nf, serpentHashType]
  | .float b, a, d, h1, h2, hu => by
    simp [enc] at h1; subst h1
    rcases serpentFloat_cases b with ⟨_, kvs, e⟩ | ⟨hn, e⟩
    · rw [e] at h2; have := dec_serpent_dict_unhashable kvs d h2; rw [this] at hu; cases hu
    · rw [e] at h2; simp [dec] at h2; subst h2; simp [hashOK, recreate, nf, serpentHashType, floatOk, hn]
  | .bytes b, a, d, h1, h2, hu => by
    simp [enc, serpentBytes] at h1; subst h1
    have := dec_serpent_dict_unhashable _ d h2; rw [this] at hu; cases hu
  | .bytearray b, a, d, h1, h2, hu => by
    simp [enc, serpentBytes] at h1; subst h1
    have := dec_serpent_dict_unhashable _ d h2; rw [this] at hu; cases hu
  | .list xs, a, d, h1, h2, hu => by
    simp only [enc, bind_eq_ok] at h1
    obtain ⟨ys, _, e⟩ := h1; cases e
    simp only [dec, bind_eq_ok] at h2
    obtain ⟨ds, _, e⟩ := h2; cases e
    simp [unhashable] at hu
  | .tuple xs, a, d, h1, h2, hu => by
    simp only [enc, bind_eq_ok] at h1
    obtain ⟨ys, g1, e⟩ := h1; cases e
    simp only [dec, bind_eq_ok] at h2
    obtain ⟨ds, g2, e⟩ := h2; cases e
    simp only [unhashable] at hu
    obtain ⟨i1, i2, i3⟩ := hsr_list xs ys ds g1 g2 hu
    simp [hashOK, recreate, nf, serpentHashType, i1, i2, i3]
  | .set xs, a, d, h1, h2, hu => by
    cases xs with
    | nil =>
      simp [enc] at h1; subst h1; simp [dec, decList] at h2; subst h2
      simp [hashOK, hashOK.hashOKList, recreate, recList, nf, nfList, serpentHashType]
    | cons x xs =>
      simp only [enc, bind_eq_ok] at h1
      obtain ⟨ys, _, e⟩ := h1; cases e
      simp only [dec, bind_eq_ok] at h2
      obtain ⟨ds, _, e⟩ := h2
      split at e
      · cases e
      · cases e; simp [unhashable] at hu
  | .frozenset xs, a, d, h1, h2, hu => by
    cases xs with
    | nil =>
      simp [enc] at h1; subst h1; simp [dec, decList] at h2; subst h2
      simp [hashOK, hashOK.hashOKList, recreate, recList, nf, nfList, serpentHashType]
    | cons x xs =>
      simp only [enc, bind_eq_ok] at h1
      obtain ⟨ys, _, e⟩ := h1; cases e
      simp only [dec, bind_eq_ok] at h2
      obtain ⟨ds, _, e⟩ := h2
      split at e
      · cases e
      · cases e; simp [unhashable] at hu
  | .dict kvs, a, d, h1, h2, hu => by
    simp only [enc, bind_eq_ok] at h1
    obtain ⟨ys, _, e⟩ := h1; cases e
    have := dec_serpent_dict_unhashable _ d h2; rw [this] at hu; cases hu
  | .complex re im, a, d, h1, h2, hu => by
    simp only [enc] at h1
    split at h1
    · cases h1
      have := dec_serpent_dict_unhashable _ d h2; rw [this] at hu; cases hu
    · rename_i hn
      split at h1
      · cases h1
      · rename_i hz
        cases h1
        simp [dec] at h2; subst h2
        simp only [Bool.or_eq_true, not_or, Bool.not_eq_true] at hn
        simp only [not_or] at hz
        simp [hashOK, recreate, nf, serpentHashType, hn.1, hn.2, hz.1, hz.2]
  | .ext _ _, a, d, h1, _, _ => by simp [enc] at h1
  | .inst cls fields, a, d, h1, h2, hu => by
    simp only [enc, bind_eq_ok] at h1
    obtain ⟨ys, _, e⟩ := h1; cases e
    have := dec_serpent_dict_unhashable _ d h2; rw [this] at hu; cases hu
theorem hsr_list : ∀ xs as ds, encList .serpent true xs = .ok as → decList .serpent false false as = .ok ds →
    unhashable.unhashableList ds = false →
    hashOK.hashOKList ds = true ∧ recList .serpent ds = .ok ds ∧ nfList .serpent ds = true
  | .nil, as, ds, h1, h2, _ => by
    simp [encList] at h1; subst h1; simp [decList] at h2; subst h2
    simp [hashOK.hashOKList, recList, nfList]
  | .cons x xs, as, ds, h1, h2, hu => by
    simp only [encList, bind_eq_ok] at h1
    obtain ⟨a, g1, as', g2, e⟩ := h1; cases e
    simp only [decList, bind_eq_ok] at h2
    obtain ⟨d, g3, ds', g4, e⟩ := h2; cases e
    simp only [unhashable.unhashableList, Bool.or_eq_false_iff] at hu
    obtain ⟨i1, i2, i3, _⟩ := hsr_val x a d g1 g3 hu.1
    obtain ⟨j1, j2, j3⟩ := hsr_list xs as' ds' g2 g4 hu.2
    simp [hashOK.hashOKList, recList, nfList, i1, i2, i3, j1, j2, j3]
end

end Pyro.Values
