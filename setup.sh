#!/bin/sh
# MANIFEST.setup_cmd: build the Lean project (models, proofs, drivers) offline from files on disk.
set -e
cd "$(dirname "$0")"
mkdir -p .locks evidence replays
# regenerate the extracted-fact files from /repo's current tree before building
/venv/bin/python harness/extract_all.py || echo "extract_all: some extractors failed (the checks will report it)"
cd lean
lake build 2>&1 | grep -v 'conda.cli' | tail -n 40
