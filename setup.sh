#!/bin/sh
# MANIFEST.setup_cmd: build the Lean project (models, proofs, drivers) offline from files on disk.
# Builds the targets of every claimed property separately, so one broken target cannot block the others
# (each ./check rebuilds its own targets anyway and reports a failing build itself).
cd "$(dirname "$0")" || exit 2
mkdir -p .locks evidence replays
/venv/bin/python harness/extract_all.py >/dev/null 2>&1 || echo "setup: some extractors failed (the checks will report it)"
# "<id> <targets...>" per claimed property, from the property modules themselves (LEAN_MODEL_TARGETS + LEAN_PROOF_TARGETS)
/venv/bin/python - <<'PY' > .locks/targets.txt 2>/dev/null
import importlib, json, os, sys
sys.path.insert(0, "harness")
for c in json.load(open("MANIFEST.json"))["checks"]:
    pid = c["property_id"]
    try:
        m = importlib.import_module("props." + pid.lower())
        print(pid, " ".join(list(m.LEAN_MODEL_TARGETS) + list(m.LEAN_PROOF_TARGETS)))
    except Exception:
        print(pid, "drv_%s PyroProps.%s" % (pid.lower(), pid))
PY
cd lean || exit 2
while read -r id targets; do
  # shellcheck disable=SC2086
  flock ../.locks/lake.lock lake build $targets 2>&1 | grep -v 'conda.cli' | tail -n 3
done < ../.locks/targets.txt
exit 0
