#!/bin/sh
# MANIFEST.setup_cmd: build the Lean project (models, proofs, drivers) offline from files on disk.
# Builds the targets of every claimed property separately, so one broken target cannot block the others
# (each ./check rebuilds its own targets anyway and reports a failing build itself).
cd "$(dirname "$0")" || exit 2
mkdir -p .locks evidence replays
/venv/bin/python harness/extract_all.py >/dev/null 2>&1 || echo "setup: some extractors failed (the checks will report it)"
ids=$(/venv/bin/python -c "import json;print(' '.join(c['property_id'] for c in json.load(open('MANIFEST.json'))['checks']))")
cd lean || exit 2
for id in $ids; do
  lc=$(echo "$id" | tr 'A-Z' 'a-z')
  extra=""
  [ -f "PyroProps/${id}Ast.lean" ] && extra="PyroProps.${id}Ast"     # theorems about the transcribed source (C17)
  flock ../.locks/lake.lock lake build "drv_$lc" "PyroProps.$id" $extra 2>&1 | grep -v 'conda.cli' | tail -n 3
done
exit 0
