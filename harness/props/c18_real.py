"""
C18 helper: controlled executions of the REAL Pyro5.svr_threads.Pool / Worker under harness/sched.py.

One execution = a small *scenario*: pool sizes (min, max) and one or two client programs
    A = the accept loop's thread        B = a second thread (daemon.shutdown() caller / whoever ends connections)
each a list of ops   ["S"] submit the next job (pool.process) | ["F", k] let job k end | ["X", k] let job k end by
RAISING an exception (a fault inside the connection handler) | ["C"] pool.close()
| ["Z"] submit the next job while Thread.start() fails (RuntimeError "can't start new thread": the system is out of threads)
Jobs are callables that block on a harness event, so a job "runs" exactly as long as the scenario says.

Everything the pool's threads share is a scheduling point:
  * `Pyro5.svr_threads.threading` is replaced (from outside, restored afterwards) by a shim namespace whose
    Event / Lock build IEvent / ILock objects bound to the scheduler (Worker.job_available, Pool.count_lock),
  * `Worker.start` goes through `sched.adopt_start` (the worker becomes a managed thread), `Worker.join`
    is a scheduling point (a timed join may return at any time; an untimed one blocks until the thread is done),
  * `pool.idle` / `pool.busy` are instrumented sets (every method call is a point; `Pool.close` replaces them
    by fresh sets created through the shimmed builtin `set`, which are instrumented too),
  * `pool.closed` is a property of a harness subclass (read and write are points),
  * `time.sleep` in svr_threads is a point (no real sleeping).
"""
import threading
import types

import common
import sched as S

SET_POINTS = ["add", "remove", "discard", "pop", "__contains__", "__len__", "copy", "clear"]


class Teardown:
    def __init__(self):
        self.on = False


class TEvent(S.IEvent):
    """IEvent whose wait returns at once during harness teardown (lets every parked thread finish)."""

    def __init__(self, sched, name, td):
        super().__init__(sched, name)
        self.td = td

    def wait(self, timeout=None):
        self.sched.point(("wait", self.name))
        if timeout is None:
            self.sched.block_until(lambda: self.flag or self.td.on, ("waiting", self.name))
            return True
        return self.flag


class Run:
    """result of one controlled execution"""
    pass


def run_scenario(policy, mn, mx, progs, monitor=None, max_steps=4000):
    """
    progs: 1 or 2 programs (lists of ops).  Returns a Run with
      .sched, .outcome ('ok' = everything finished, 'deadlock' = quiescent with parked threads, ...),
      .jobs   per submitted job: dict(status='a'|'n'|'x'|'E:<exc>', worker=<creation index or None>, runs, ended,
                                      busy_at_refusal, closed_before_call)
      .final  dict(closed, idle, busy, workers=[phase letters], prog_done=[bool])
      .events chronological log (harness-side, for diagnostics)
    `monitor(run, sc)` is called before every scheduling decision (all threads parked: a consistent cut).
    """
    common.repo_on_path()
    from Pyro5 import svr_threads, config
    td = Teardown()
    run = Run()
    run.mn, run.mx, run.progs = mn, mx, progs
    run.jobs = []
    run.events = []
    run.workers = []          # Worker objects in creation order
    run.worker_tid = {}       # creation index -> sched tid
    run.max_seen = 0
    run.close_returned = False
    run.in_process = None
    run.in_closed_pool = None
    run.fail_start = False
    run.start_failed = False
    run.closed_set = False
    sc = None
    base_policy = policy

    def pol(s, runnable):
        if monitor is not None and not td.on:
            monitor(run, s)
        return base_policy(s, runnable)
    sc = S.Sched(pol, max_steps=max_steps)
    run.sched = sc

    base_iset = S.instrument_class(sc, set, "set", SET_POINTS)

    class iset(base_iset):
        # `list(a_set)` / `for x in a_set` on a builtin set cannot be interrupted between creating the iterator and
        # reading the length hint; keep that atomicity: one point, then iterate over a snapshot taken at that instant.
        def __iter__(self):
            sc.point(("set", "__iter__"))
            return iter(tuple(set.__iter__(self)))

    ev_count = [0]

    def mk_event():
        ev_count[0] += 1
        return TEvent(sc, "w.ev%d" % ev_count[0], td)

    shim_threading = types.SimpleNamespace(
        Event=mk_event,
        Lock=lambda: S.ILock(sc, "count_lock"),
        current_thread=threading.current_thread,
        Thread=threading.Thread,
    )
    shim_time = types.SimpleNamespace(sleep=lambda s: sc.point(("sleep",)), time=lambda: 0.0)

    def w_start(self):
        pool = holder.get("pool")
        if pool is not None and pool.__dict__.get("_closed", False):
            # sound: the fixed code starts a worker only under count_lock after reading closed == False under that lock
            run.in_closed_pool = run.in_closed_pool or "a new worker thread was started in a closed pool"
        if run.fail_start:
            run.start_failed = True
            raise RuntimeError("can't start new thread")
        idx = len(run.workers)
        run.workers.append(self)
        tid = sc.adopt_start(self, "worker%d" % idx)
        run.worker_tid[idx] = tid

    def w_join(self, timeout=None):
        if self not in run.workers:
            raise RuntimeError("cannot join thread before it is started")     # what threading.Thread.join does
        idx = run.workers.index(self)
        sc.point(("join", idx))
        if timeout is None and idx is not None:
            t = sc.threads[run.worker_tid[idx]]
            sc.block_until(lambda: t.state == "done" or td.on, ("joining", idx))

    class IPool(svr_threads.Pool):
        @property
        def closed(self):
            sc.point(("closed", "get"))
            return self.__dict__.get("_closed", False)

        @closed.setter
        def closed(self, v):
            sc.point(("closed", "set"))
            self.__dict__["_closed"] = v

    orig_wprocess = svr_threads.Worker.process

    def w_process(self, job):
        pool = holder.get("pool")
        if job is not None and pool is not None and pool.__dict__.get("_closed", False):
            run.in_closed_pool = run.in_closed_pool or "a job was handed to a worker in a closed pool"
        return orig_wprocess(self, job)

    import logging
    plog = logging.getLogger("Pyro5.threadpoolserver")
    log_was_disabled = plog.disabled
    holder = {}
    job_events = []
    saved = (svr_threads.threading, svr_threads.time, config.THREADPOOL_SIZE, config.THREADPOOL_SIZE_MIN)
    had_set = "set" in svr_threads.__dict__
    svr_threads.threading = shim_threading
    svr_threads.time = shim_time
    svr_threads.set = iset                     # `set()` inside Pool.__init__ / Pool.close builds instrumented sets
    svr_threads.Worker.start = w_start
    svr_threads.Worker.join = w_join
    svr_threads.Worker.process = w_process
    plog.disabled = True            # jobs that raise are logged with a traceback by the worker; keep stderr quiet
    config.THREADPOOL_SIZE = mx
    config.THREADPOOL_SIZE_MIN = mn
    try:
        njobs = sum(1 for p in progs for op in p if op[0] in ("S", "Z"))
        nev = max([njobs] + [op[1] + 1 for p in progs for op in p if op[0] in ("F", "X")])
        for k in range(nev):
            job_events.append(TEvent(sc, "job%d" % k, td))
        raising = set()

        def make_job(k):
            rec = run.jobs[k]

            def job():
                if td.on:
                    return
                rec["runs"] += 1
                rec["ran_by"].append(run.workers.index(threading.current_thread())
                                     if threading.current_thread() in run.workers else None)
                run.events.append(("start", k))
                job_events[k].wait()
                if td.on:
                    return
                rec["ended"] += 1
                if k in raising:
                    run.events.append(("end-raising", k))
                    raise RuntimeError("job %d fails" % k)
                run.events.append(("end", k))
            return job

        def prog_body(pi, prog):
            def body():
                pool = holder["pool"]
                for i, op in enumerate(prog):
                    sc.point(("op", pi, i))
                    if td.on:
                        return
                    if op[0] in ("S", "Z"):
                        k = len(run.jobs)
                        rec = {"status": "?", "worker": None, "runs": 0, "ended": 0, "ran_by": [],
                               "busy_at_refusal": None, "after_close": run.close_returned,
                               "max_active": active_workers(run)}
                        run.jobs.append(rec)
                        run.in_process = k
                        run.fail_start = op[0] == "Z"
                        run.start_failed = False
                        try:
                            pool.process(make_job(k))
                            rec["status"] = "a"
                            run.events.append(("accepted", k))
                        except svr_threads.NoFreeWorkersError:
                            rec["status"] = "n"
                            rec["busy_at_refusal"] = set.__len__(pool.busy)
                            run.events.append(("nofree", k))
                        except svr_threads.PoolError:
                            rec["status"] = "x"
                            run.events.append(("poolclosed", k))
                        except Exception as e:      # noqa: an internal error of process() is an outcome
                            rec["status"] = "E:" + type(e).__name__
                            run.events.append(("error", k, type(e).__name__))
                        rec["start_failed"] = run.start_failed
                        run.fail_start = False
                        run.in_process = None
                    elif op[0] in ("F", "X"):
                        if op[0] == "X":
                            raising.add(op[1])
                        job_events[op[1]].set()
                        run.events.append(("fin" if op[0] == "F" else "fin-raising", op[1]))
                    elif op[0] == "C":
                        try:
                            pool.close()
                            run.events.append(("closed",))
                        except Exception as e:      # noqa
                            run.events.append(("close-error", type(e).__name__))
                            run.close_error = type(e).__name__
                        run.close_returned = True
                sc.point(("op", pi, "end"))
            return body

        run.close_error = None
        for pi, prog in enumerate(progs):
            sc.spawn(prog_body(pi, prog), "prog%d" % pi)
        pool = IPool()
        holder["pool"] = pool
        run.pool = pool
        run.nprogs = len(progs)
        run.outcome = sc.run()
        run.final = snapshot(run)
    finally:
        # teardown: every wait returns, every parked thread runs to its end
        td.on = True
        try:
            sc.policy = lambda s, r: r[0]
            sc.max_steps = 10 ** 6
            sc.run()
        except Exception:
            pass
        svr_threads.threading, svr_threads.time, config.THREADPOOL_SIZE, config.THREADPOOL_SIZE_MIN = saved
        if not had_set:
            del svr_threads.__dict__["set"]
        del svr_threads.Worker.start
        del svr_threads.Worker.join
        svr_threads.Worker.process = orig_wprocess
        plog.disabled = log_was_disabled
    run.leaked = sum(1 for t in sc.threads if t.state != "done")
    return run


def worker_phase(run, idx):
    """X exited | I blocked waiting for a job | R<k> inside job k (blocked on its event) | P parked at a point"""
    sc = run.sched
    t = sc.threads[run.worker_tid[idx]]
    if t.state == "done":
        return "X"
    lab = t.label
    if isinstance(lab, tuple) and lab[0] == "waiting" and t.pred is not None and not t.pred():
        if lab[1].startswith("job"):
            return "R" + lab[1][3:]
        return "I"
    return "P"


def active_workers(run):
    """worker threads that are alive and not blocked waiting for a job"""
    return sum(1 for i in range(len(run.workers)) if i in run.worker_tid and worker_phase(run, i) not in ("X", "I"))


def snapshot(run):
    pool = run.pool
    d = pool.__dict__
    sc = run.sched
    return {
        "closed": bool(d.get("_closed", False)),
        "idle": set.__len__(d["idle"]),
        "busy": set.__len__(d["busy"]),
        "workers": [worker_phase(run, i) for i in range(len(run.workers))],
        "prog_done": [sc.threads[i].state == "done" for i in range(run.nprogs)],
        "jobs": [(j["status"], j["runs"], j["ended"]) for j in run.jobs],
    }


def holder_of(run, k):
    """creation index of the worker that ran job k (None if it never ran)"""
    rb = run.jobs[k]["ran_by"]
    return rb[0] if rb else None
