"""
C12, client half on the wire: a real Proxy whose socket (patched `socketutil.create_socket`) is an in-memory peer that answers
by script — accepted replies, replies with a wrong sequence number / serializer id / message type, no reply (connection lost),
CONNECTOK / CONNECTFAIL answers with annotations, oneway calls, waits interrupted by an application exception (the reply stays
unread on the still-open connection and is met by the NEXT call).  No threads, no real sockets, no clocks.
"""
import socket

import common


class Watchdog(Exception):
    """an application exception (signal-handler style): not a CommunicationError"""


class PeerSock:
    family = socket.AF_INET

    def __init__(self, rig):
        self.rig = rig
        self.inbound = bytearray()
        self.queue = []            # [origin call index, bytes left, honest, keys] of the messages in `inbound`
        self.closed = 0

    def sendall(self, data):
        self.rig.on_send(self, bytes(data))

    def send(self, data):
        self.sendall(data)
        return len(data)

    def recv(self, n, flags=0):
        if self.rig.interrupt_next:
            self.rig.interrupt_next = False
            raise Watchdog("application watchdog fired")
        if not self.inbound:
            return b""
        out = bytes(self.inbound[:n])
        del self.inbound[:n]
        k = len(out)
        while k and self.queue:
            q = self.queue[0]
            t = min(k, q[1])
            q[1] -= t
            k -= t
            if q[1] == 0:
                self.rig.consumed.append(tuple(self.queue.pop(0)))
        return out

    def push(self, data, origin, honest, keys):
        self.inbound += data
        self.queue.append([origin, len(data), honest, tuple(keys)])

    def gettimeout(self):
        return None

    def settimeout(self, t):
        pass

    def setblocking(self, b):
        pass

    def getsockname(self):
        return ("fake-client", 1)

    def getpeername(self):
        return ("fake-server", 1)

    def shutdown(self, how):
        pass

    def close(self):
        self.closed += 1

    def fileno(self):
        return 4012


class WireRig:
    def __init__(self):
        common.repo_on_path()
        from Pyro5 import socketutil, config, protocol, serializers
        self.socketutil, self.config, self.protocol, self.serializers = socketutil, config, protocol, serializers
        self.saved = (socketutil.create_socket, config.MAX_RETRIES, config.SERIALIZER)
        socketutil.create_socket = lambda *a, **kw: PeerSock(self)
        config.MAX_RETRIES = 0
        self.step = None
        self.call_index = -1
        self.interrupt_next = False
        self.consumed = []

    def close(self):
        self.socketutil.create_socket, self.config.MAX_RETRIES, self.config.SERIALIZER = self.saved

    def on_send(self, sock, data):
        p = self.protocol
        hs = p._header_size
        req = p.ReceivingMessage(data[:hs])
        req.add_payload(data[hs:])
        ser = self.serializers.serializers_by_id[req.serializer_id]
        st = self.step
        if req.type == p.MSG_CONNECT:
            ann = {"H%03d" % k: b"h" for k in st["hsAnns"]}
            if st["hsOk"]:
                body = {"meta": {"methods": ["m", "ow"], "oneway": ["ow"], "attrs": []}, "handshake": "hello"}
                out = p.SendingMessage(p.MSG_CONNECTOK, 0, req.seq, ser.serializer_id, ser.dumps(body), annotations=ann)
            else:
                out = p.SendingMessage(p.MSG_CONNECTFAIL, 0, req.seq, ser.serializer_id, ser.dumps("denied"), annotations=ann)
            sock.push(out.data, ("hs", self.call_index), True, [])
            return
        if req.type != p.MSG_INVOKE:
            return
        pr = st["peer"]
        if pr is None:
            return
        ann = {"A%03d" % k: b"v" for k in pr["anns"]}
        mtype = p.MSG_RESULT if pr["typeOk"] else p.MSG_CONNECTOK
        sid = ser.serializer_id if pr["serOk"] else (ser.serializer_id % 4) + 1
        flags = 0
        payload = ser.dumps(7)
        if pr["stream"]:
            flags |= p.FLAGS_ITEMSTREAMRESULT          # and no STRM annotation
        elif pr["exc"]:
            flags |= p.FLAGS_EXCEPTION
            payload = ser.dumps(ValueError("boom"))
        out = p.SendingMessage(mtype, flags, (req.seq + pr["delta"]) & 0xffff, sid, payload, annotations=ann)
        honest = pr["typeOk"] and pr["serOk"] and pr["delta"] == 0
        sock.push(out.data, ("call", self.call_index), honest, pr["anns"])


def gen_steps(rng):
    steps = []
    key = 0
    for _ in range(rng.choice([2, 3, 5, 8])):
        nk = rng.choice([0, 1, 1, 2])
        keys = list(range(key + 1, key + 1 + nk))
        key += nk
        x = rng.random()
        peer = {"delta": 0, "typeOk": True, "serOk": True, "anns": keys, "stream": False, "exc": False}
        if x < 0.15:
            peer["delta"] = rng.choice([1000, 2000, 30000])
        elif x < 0.27:
            peer["serOk"] = False
        elif x < 0.35:
            peer["typeOk"] = False
        elif x < 0.42:
            peer = None
        elif x < 0.50:
            peer["stream"] = True
        elif x < 0.62:
            peer["exc"] = True
        nh = rng.choice([0, 0, 1])
        hs = list(range(500 + key, 500 + key + nh))
        steps.append({"rel": rng.random() < 0.2, "hsOk": rng.random() < 0.85, "hsAnns": hs, "oneway": rng.random() < 0.15,
                      "peer": peer, "intr": rng.random() < 0.22})
    return steps


def line(steps):
    lst = lambda l: ",".join(map(str, l)) if l else "-"
    b = lambda x: "1" if x else "0"
    toks = ["wire", str(len(steps))]
    for st in steps:
        toks += [b(st["rel"]), b(st["hsOk"]), lst(st["hsAnns"]), b(st["oneway"]), "0", b(st["intr"])]
        p = st["peer"]
        if p is None:
            toks.append("N")
        else:
            toks += ["P", str(p["delta"]), b(p["typeOk"]), b(p["serOk"]), lst(p["anns"]), b(p["stream"]), b(p["stream"]),
                     b(p["exc"]), "0"]
    return " ".join(toks)


def keynum(k):
    if k[:1] == "A" and k[1:].isdigit():
        return int(k[1:])
    if k[:1] == "H" and k[1:].isdigit():
        return int(k[1:])
    return 9999


def run_steps(steps, stale=(777,)):
    """returns per call: (connected afterwards, observed keys, outcome, messages consumed during the call)"""
    common.repo_on_path()
    from Pyro5 import client
    from Pyro5.callcontext import current_context
    rig = WireRig()
    obs = []
    try:
        rig.step = {"hsOk": True, "hsAnns": [], "peer": None}
        proxy = client.Proxy("PYRO:obj@fakehost:4012")
        proxy._pyroBind()                       # metadata known from here on: later handshakes happen inside _pyroInvoke
        current_context.response_annotations = {"A%03d" % k: b"x" for k in stale}     # what earlier calls left behind
        for i, st in enumerate(steps):
            rig.step = st
            rig.call_index = i
            rig.consumed = []
            if st["rel"]:
                proxy._pyroRelease()
            was_connected = proxy._pyroConnection is not None
            rig.interrupt_next = False
            armed = {"on": st["intr"] and not st["oneway"]}
            if armed["on"]:
                # the interruption hits the wait for the REPLY: arm it when the request has been sent
                orig = rig.on_send

                def on_send(sock, data, orig=orig):
                    orig(sock, data)
                    if data[:4] == b"PYRO" and rig.protocol.ReceivingMessage(data[:rig.protocol._header_size]).type == rig.protocol.MSG_INVOKE:
                        rig.interrupt_next = True
                rig.on_send = on_send
            try:
                (proxy.ow if st["oneway"] else proxy.m)(i)
                out = "ok"
            except Exception as x:
                out = type(x).__name__
            finally:
                rig.__dict__.pop("on_send", None)
                rig.interrupt_next = False
            seen = sorted(keynum(k) for k in current_context.response_annotations)
            obs.append({"connected": proxy._pyroConnection is not None, "seen": seen, "outcome": out,
                        "consumed": list(rig.consumed), "was_connected": was_connected})
        proxy._pyroRelease()
    finally:
        current_context.response_annotations = {}
        rig.close()
    return obs


def check(ctx, steps, obs, case):
    """the statement, on the real observations: after each call, successful or failed, the client observes only annotations of
    that call's own accepted reply (or of the CONNECTOK answer of a handshake made inside that call)"""
    for i, (st, o) in enumerate(zip(steps, obs)):
        allowed = set()
        own = None
        for origin, _, honest, keys in o["consumed"]:
            if origin == ("call", i) and honest:
                own = keys
                allowed |= set(keys)
        if not o["was_connected"] and st["hsOk"]:
            allowed |= set(st["hsAnns"])
        stray = [k for k in o["seen"] if k not in allowed]
        if stray:
            foreign = [q for q in o["consumed"] if q[0] != ("call", i) or not q[2]]
            ctx.fail("client-annotation-leak:rejected-reply" if foreign else "client-annotation-leak",
                     "client call %d (%s) ended with %s; afterwards the client observes response annotations %r that are neither "
                     "on this call's own accepted reply nor on its handshake answer (allowed %r; messages read during the call: %r)"
                     % (i, "oneway" if st["oneway"] else "normal", o["outcome"], stray, sorted(allowed), o["consumed"]), case)
        if own and not st["oneway"] and o["seen"] != sorted(own):
            ctx.fail("client-annotation-wrong", "client call %d: its accepted reply carried %r, the client observes %r"
                     % (i, sorted(own), o["seen"]), case)


def run(ctx, n, do_model=True, name="wire"):
    rng = ctx.sub_rng(name)
    lines, reals = [], []
    for _ in range(n):
        steps = gen_steps(rng)
        case = {"wire_steps": steps}
        obs = run_steps(steps)
        ctx.evaluations += 1
        check(ctx, steps, obs, case)
        lines.append(line(steps))
        reals.append(";".join("%d:%s" % (o["connected"], ",".join(map(str, o["seen"])) or "-") for o in obs))
        if any(q[0] != ("call", i) or not q[2] for i, o in enumerate(obs) for q in o["consumed"] if q[0][0] == "call"):
            ctx.nontriv(lines[-1])
        for o in obs:
            ctx.count("wire-outcome:" + o["outcome"])
        if len(ctx.samples) < 6 and len(steps) > 2:
            ctx.sample({"wire": lines[-1], "observed": reals[-1]})
    if do_model and lines:
        outs = common.run_driver("drv_c12", lines)
        ctx.corr_cases += len(lines)
        for l, r, o, in zip(lines, reals, outs):
            if r != o:
                ctx.mismatch("wire", {"line": l}, r, o)
