"""C01 extractor: facts about Pyro5/serializers.py (current source) -> lean/PyroModel/Gen/C01.lean.

Every fact is obtained by PROBING the imported module (calling the real functions on small tables of inputs,
instrumenting a subclass), not by reading the shape of the source: renamed locals, extracted / inlined helpers,
hoisted constants, loops vs comprehensions, docstrings etc. leave the facts unchanged; a fact changes exactly when
the behaviour it describes changes.  The only use of the source text is to harvest candidate string literals for the
reserved class key (the key itself is then established by behaviour).
"""
import array
import ast
import datetime
import decimal
import json
import os
import uuid

import common


class Shape(Exception):
    """the module no longer behaves in a way the model can be instantiated for"""


def _kind(fn):
    """('ok', value) | ('err', exception class name)"""
    try:
        return "ok", fn()
    except Exception as x:     # noqa: BLE001 - the class name is the fact
        return "err", type(x).__name__


def _lean_str_list(xs):
    return "[" + ", ".join(json.dumps(x) for x in xs) + "]"


def _lean_pairs(xs):
    return "[" + ", ".join("(%s, %s)" % (json.dumps(a), json.dumps(b)) for a, b in xs) + "]"


def _cps(s):
    return "[" + ", ".join(str(ord(c)) for c in s) + "]"


def _b(x):
    return "true" if x else "false"


class _Obj(object):
    """a plain user object (vars() only)"""

    def __init__(self):
        self.x = 1


def _describe(v):
    """short stable description of what a hook returned"""
    try:
        import msgpack
        ext = msgpack.ExtType
    except ImportError:      # pragma: no cover
        ext = ()
    if ext and isinstance(v, ext):
        return "ext:%d:%s" % (v.code, bytes(v.data).hex())
    if type(v) is str:
        return "str:" + v
    if type(v) is dict:
        return "dict:" + ",".join(sorted(map(str, v)))
    return type(v).__name__


def _path_flags(res_of):
    """hook placement of one msgpack path from behaviour.  res_of(value) -> ('ok', v) | ('err', name).
    ext_hook: 2**70 comes back as an int.  Class dicts: {'__class__': 'x.Y'} is refused with SerializeError.
    Where they are handled: for {1: {'__class__': 'x.Y'}} an object_hook running inside unpackb reports the inner class
    dict (SerializeError) before the outer non-str key is rejected; recreate_classes after unpackb sees the ValueError first."""
    big = res_of(2 ** 70)
    ext = big == ("ok", 2 ** 70)
    cd = res_of({"__class__": "x.Y"})
    handled = cd == ("err", "SerializeError")
    if not handled:
        return ext, False, False
    order = res_of({1: {"__class__": "x.Y"}})
    if order == ("err", "SerializeError"):
        return ext, True, False
    if order == ("err", "ValueError"):
        return ext, False, True
    raise Shape("msgpack: cannot tell where class dicts are re-created (probe gave %r)" % (order,))


def extract():
    common.repo_on_path()
    from Pyro5 import serializers, config, errors
    import msgpack
    path = serializers.__file__
    S = serializers.serializers
    serp, mars, jsn, msgp = S["serpent"], S["marshal"], S["json"], S["msgpack"]

    def res(s):
        return lambda v: _kind(lambda: s.loads(s.dumps(v)))

    def arg(s):
        return lambda v: _kind(lambda: s.loadsCall(s.dumpsCall("o", "m", (v,), {}))[2][0])

    def kw(s):
        return lambda v: _kind(lambda: s.loadsCall(s.dumpsCall("o", "m", (), {"k": v}))[3]["k"])

    # --- msgpack hooks on the two paths (behaviour)
    r_ext, r_oh, r_rec = _path_flags(res(msgp))
    c_ext, c_oh, c_rec = _path_flags(arg(msgp))
    if _path_flags(kw(msgp)) != (c_ext, c_oh, c_rec):
        raise Shape("msgpack loadsCall treats vargs and kwargs differently")

    # --- marshal: kwargs=None, one-level list conversion on the two paths
    kw_none_safe = _kind(lambda: mars.dumpsCall("o", "m", (), None))[0] == "ok"
    u = uuid.UUID(int=5)
    res_items = res(mars)([u]) == ("ok", [str(u)])
    call_items = arg(mars)([u]) == ("ok", [str(u)])
    if (kw(mars)([u]) == ("ok", [str(u)])) != call_items:
        raise Shape("marshal dumpsCall converts list items of vargs and kwargs differently")

    # --- marshal: convert_obj_into_marshallable on one sample of each type
    samples = [("str", "a"), ("int", 7), ("float", 1.5), ("NoneType", None), ("bool", True), ("complex", 1j), ("bytes", b"a"),
               ("bytearray", bytearray(b"a")), ("tuple", (1,)), ("set", {1}), ("frozenset", frozenset([1])), ("list", [1]),
               ("dict", {"a": 1}), ("uuid.UUID", u), ("decimal.Decimal", decimal.Decimal("1.50")),
               ("datetime.date", datetime.date(2020, 1, 2)), ("object", _Obj())]
    conv_table = []
    for name, v in samples:
        k, r = _kind(lambda: mars.convert_obj_into_marshallable(v))
        conv_table.append((name, "same" if (k == "ok" and r is v) else (_describe(r) if k == "ok" else r)))

    # --- recreate_classes: which containers it descends into (instrumented subclass), the reserved key (by behaviour)
    seen = []

    class Probe(serializers.SerializerBase):
        def recreate_classes(self, literal):
            seen.append(literal)
            return super(Probe, self).recreate_classes(literal)

    import collections
    nt = collections.namedtuple("nt", "a")
    descends, not_descended = [], []
    marker = 4242
    for name, v in [("set", {marker}), ("list", [marker]), ("tuple", (marker,)), ("dict", {"k": marker}),
                    ("frozenset", frozenset([marker])), ("OrderedDict", collections.OrderedDict(k=marker)),
                    ("namedtuple", nt(marker)), ("bytearray", bytearray(b"a"))]:
        del seen[:]
        k, r = _kind(lambda: Probe().recreate_classes(v))
        if k != "ok" or type(r) is not type(v) or r != v:
            raise Shape("recreate_classes changes a plain %s" % name)
        (descends if any(x is marker or x == marker for x in seen[1:]) else not_descended).append(name)
    # dict keys are not visited
    del seen[:]
    Probe().recreate_classes({marker: 1})
    if any(x == marker for x in seen[1:]):
        raise Shape("recreate_classes visits dict keys")
    literals = sorted({n.value for n in ast.walk(ast.parse(open(path).read()))
                       if isinstance(n, ast.Constant) and isinstance(n.value, str) and 0 < len(n.value) < 40})
    called = []

    class Probe2(serializers.SerializerBase):
        @classmethod
        def dict_to_class(cls, data):
            called.append(data)
            return "<made>"

    class_keys = []
    for cand in literals:
        del called[:]
        if Probe2().recreate_classes({cand: "x.Y"}) == "<made>":
            class_keys.append(cand)
    if len(class_keys) != 1:
        raise Shape("reserved class key: expected exactly one, found %r" % class_keys)
    key = class_keys[0]
    # every serializer refuses an unknown class dict under that key on loads and on both call positions
    recreates = []
    for name in ("serpent", "marshal", "json", "msgpack"):
        s = S[name]
        cd = {key: "x.Y"}
        recreates.append((name, [f(s)(cd) == ("err", "SerializeError") for f in (res, arg, kw)]))

    # --- class_to_dict refusals, dict_to_class name rules
    refused = [n for n, v in [("set", {1}), ("dict", {"a": 1}), ("tuple", (1,)), ("list", [1]), ("frozenset", frozenset([1]))]
               if _kind(lambda: serializers.SerializerBase.class_to_dict(v)) == ("err", "ValueError")]
    names = ["a__b", "__a", "a__", "a_b", "a._b", "x.Y"]
    d2c = [(n, _kind(lambda: serializers.SerializerBase.dict_to_class({key: n}))[1]) for n in names]
    d2c = [(n, r if isinstance(r, str) else _describe(r)) for n, r in d2c]
    serp_values = []
    for n in ("float", "int", "complex", "str"):
        k, r = _kind(lambda: serializers.SerpentSerializer.dict_to_class({key: n, "value": "nan"}))
        if k == "ok":
            serp_values.append("%s:%s" % (n, type(r).__name__))

    # --- json
    call_keys = list(json.loads(jsn.dumpsCall("o", "m", (1,), {"k": 2}).decode("utf-8")).keys())
    naive = datetime.datetime(2020, 1, 2, 3, 4, 5)
    aware = naive.replace(tzinfo=datetime.timezone.utc)
    hook_samples = [("set", {1}), ("frozenset", frozenset([1])), ("uuid.UUID", u), ("datetime", naive),
                    ("date", datetime.date(2020, 1, 2)), ("Decimal", decimal.Decimal("1.50")), ("array", array.array("i", [1, 2])),
                    ("bytes", b"a"), ("complex", complex(1.5, 2.0)), ("bigint", 2 ** 70), ("object", _Obj())]

    def table(s, extra=()):
        out = []
        for n, v in list(hook_samples) + list(extra):
            k, r = _kind(lambda: s.default(v))
            d = _describe(r) if k == "ok" else r
            if d.startswith("ext:%d:" % 0x32):
                d = "ext:%d:len%d" % (0x32, len(r.data))      # local-time float timestamp: only code and size are facts
            out.append((n, d))
        return out
    json_table = table(jsn)
    msgpack_table = table(msgp, [("datetime+tz", aware)])

    # --- msgpack ext values: what default() builds and what ext_hook makes of it
    ext_probe = []
    for v in (complex(1.5, 2.0), 2 ** 70, datetime.date(2020, 1, 2)):
        r = msgp.default(v)
        if not isinstance(r, msgpack.ExtType):
            raise Shape("MsgpackSerializer.default(%r) is not an ExtType" % (v,))
        if msgp.ext_hook(r.code, r.data) != v:
            raise Shape("MsgpackSerializer.ext_hook does not undo default() for %r" % (v,))
        ext_probe.append((r.code, list(bytes(r.data))))
    dt_ext = msgp.default(naive)
    hook_table = [("complex", _kind(lambda: msgp.ext_hook(ext_probe[0][0], bytes(ext_probe[0][1])))),
                  ("long", _kind(lambda: msgp.ext_hook(ext_probe[1][0], bytes(ext_probe[1][1])))),
                  ("datetime", _kind(lambda: msgp.ext_hook(dt_ext.code, dt_ext.data))),
                  ("date", _kind(lambda: msgp.ext_hook(ext_probe[2][0], bytes(ext_probe[2][1])))),
                  ("unknown-code", _kind(lambda: msgp.ext_hook(0x7f, b"")))]
    hook_table = [(n, type(r).__name__ if k == "ok" else r) for n, (k, r) in hook_table]
    datetime_code = dt_ext.code
    bin_str = [type(msgp.loads(msgp.dumps(b"a"))).__name__, type(msgp.loads(msgp.dumps("a"))).__name__]

    # --- serpent options (behaviour of the produced text)
    module_in_classname = (b"%s.%s" % (_Obj.__module__.encode(), b"_Obj")) in serp.dumps(_Obj())
    base64_bytes = b"base64" in serp.dumps(b"a")

    ids = [serializers.SerpentSerializer.serializer_id, serializers.MarshalSerializer.serializer_id,
           serializers.JsonSerializer.serializer_id, serializers.MsgpackSerializer.serializer_id]
    assert errors and config
    return f"""-- GENERATED by harness/props/c01_extract.py from {os.path.relpath(path, common.REPO)} (behavioural probes) — do not edit
namespace Pyro.Gen.C01
/-- serializer_id of serpent, marshal, json, msgpack -/
def serializerIds : List Nat := {ids}
/-- MsgpackSerializer.loadsCall: ext values are decoded (2**70 arrives as an int) / class dicts are refused by a hook that runs
    inside unpackb / by recreate_classes after unpackb (told apart by which error {{1: {{'__class__': 'x.Y'}}}} gives) -/
def msgpackCallExtHook : Bool := {_b(c_ext)}
def msgpackCallObjectHook : Bool := {_b(c_oh)}
def msgpackCallRecreate : Bool := {_b(c_rec)}
/-- the same for MsgpackSerializer.loads -/
def msgpackLoadsExtHook : Bool := {_b(r_ext)}
def msgpackLoadsObjectHook : Bool := {_b(r_oh)}
def msgpackLoadsRecreate : Bool := {_b(r_rec)}
/-- msgpack: type(loads(dumps(b"a"))), type(loads(dumps("a"))) (use_bin_type / raw) -/
def msgpackBinStr : List String := {_lean_str_list(bin_str)}
/-- MarshalSerializer.dumpsCall("o", "m", (), None) does not raise -/
def marshalKwargsNoneSafe : Bool := {_b(kw_none_safe)}
/-- [uuid] comes back as [str] through dumps/loads, resp. as an argument through dumpsCall/loadsCall -/
def marshalDumpsListItems : Bool := {_b(res_items)}
def marshalDumpsCallListItems : Bool := {_b(call_items)}
/-- convert_obj_into_marshallable on one sample per type: "same" (returned as is) | what it became | exception -/
def marshalConvTable : List (String × String) := {_lean_pairs(conv_table)}
/-- containers recreate_classes descends into / returns without looking inside (instrumented subclass) -/
def recreateDescends : List String := {_lean_str_list(descends)}
def recreateNotDescended : List String := {_lean_str_list(not_descended)}
/-- string literals of the module that, as a dict key, make recreate_classes call dict_to_class -/
def classKeyLiterals : List String := {_lean_str_list(class_keys)}
/-- code points of the reserved key -/
def classKey : List Nat := {_cps(key)}
/-- per serializer: an unknown class dict is refused with SerializeError by loads / as positional / as keyword argument -/
def refusesClassDict : List (String × List Bool) := [{", ".join("(%s, [%s])" % (json.dumps(n), ", ".join(_b(x) for x in bs)) for n, bs in recreates)}]
/-- sample containers SerializerBase.class_to_dict refuses with ValueError -/
def classToDictRefused : List String := {_lean_str_list(refused)}
/-- SerializerBase.dict_to_class on {{key: name}} -/
def dictToClassNames : List (String × String) := {_lean_pairs(d2c)}
/-- class names SerpentSerializer.dict_to_class turns into a value (with "value": "nan") -/
def serpentDictToClassValues : List String := {_lean_str_list(serp_values)}
/-- keys of the request JsonSerializer.dumpsCall writes, in order -/
def jsonCallKeys : List String := {_lean_str_list(call_keys)}
/-- the default() hooks on one sample per type -/
def jsonDefaultTable : List (String × String) := {_lean_pairs(json_table)}
def msgpackDefaultTable : List (String × String) := {_lean_pairs(msgpack_table)}
/-- (ext code, data bytes) MsgpackSerializer.default builds for complex(1.5, 2.0), 2**70, date(2020, 1, 2);
    ext_hook maps each back to the value (checked at extraction) -/
def extProbe : List (Nat × List Nat) := [{", ".join("(%d, %s)" % (c, d) for c, d in ext_probe)}]
def extDatetimeCode : Nat := {datetime_code}
/-- ext_hook on what default() built, and on an unknown code -/
def extHookTable : List (String × String) := {_lean_pairs(hook_table)}
/-- serpent output names classes "module.Class" / writes bytes as a base64 dict -/
def serpentModuleInClassname : Bool := {_b(module_in_classname)}
def serpentBase64Bytes : Bool := {_b(base64_bytes)}
end Pyro.Gen.C01
"""
