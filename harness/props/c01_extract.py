"""C01 extractor: facts of Pyro5/serializers.py (current source) -> lean/PyroModel/Gen/C01.lean."""
import ast
import json
import os

import common


class Shape(Exception):
    """the source no longer has the shape the extractor understands"""


def _src(node):
    return ast.unparse(node)


def _cls(tree, name):
    for n in tree.body:
        if isinstance(n, ast.ClassDef) and n.name == name:
            return n
    raise Shape("class %s not found" % name)


def _meth(cls, name):
    for n in cls.body:
        if isinstance(n, ast.FunctionDef) and n.name == name:
            return n
    raise Shape("method %s.%s not found" % (cls.name, name))


def _calls(fn, dotted):
    out = []
    for node in ast.walk(fn):
        if isinstance(node, ast.Call) and _src(node.func) == dotted:
            out.append(node)
    return out


def _unpack_hooks(fn):
    """keywords of the single msgpack.unpackb(...) call of a method -> {name: source of value}"""
    calls = _calls(fn, "msgpack.unpackb")
    if len(calls) != 1:
        raise Shape("%s: expected exactly one msgpack.unpackb call" % fn.name)
    return {k.arg: _src(k.value) for k in calls[0].keywords}


def _isinstance_chain(fn):
    """the top-level `if isinstance(obj, T): ...` statements of a default() hook, in order -> [T source]"""
    out = []
    for st in fn.body:
        if isinstance(st, ast.If) and isinstance(st.test, ast.Call) and _src(st.test.func) == "isinstance":
            out.append(_src(st.test.args[1]))
    return out


def _ext_codes_default(fn):
    """[(isinstance type, ext code, struct format or '')] of the ExtType returns of MsgpackSerializer.default"""
    out = []
    for st in fn.body:
        if isinstance(st, ast.If) and isinstance(st.test, ast.Call) and _src(st.test.func) == "isinstance":
            for node in ast.walk(st):
                if isinstance(node, ast.Call) and _src(node.func) == "msgpack.ExtType":
                    code = node.args[0]
                    if not isinstance(code, ast.Constant):
                        raise Shape("ExtType code is not a literal")
                    fmt = ""
                    for sub in ast.walk(node.args[1]):
                        if isinstance(sub, ast.Call) and _src(sub.func) == "struct.pack" and isinstance(sub.args[0], ast.Constant):
                            fmt = sub.args[0].value
                    out.append((_src(st.test.args[1]), code.value, fmt))
    return out


def _ext_codes_hook(fn):
    """[(code, struct format or '')] of the `if code == K:` statements of ext_hook, in order"""
    out = []
    for st in fn.body:
        if isinstance(st, ast.If) and isinstance(st.test, ast.Compare) and _src(st.test.left) == "code" \
                and isinstance(st.test.ops[0], ast.Eq) and isinstance(st.test.comparators[0], ast.Constant):
            fmt = ""
            for sub in ast.walk(st):
                if isinstance(sub, ast.Call) and _src(sub.func) == "struct.unpack" and isinstance(sub.args[0], ast.Constant):
                    fmt = sub.args[0].value
            out.append((st.test.comparators[0].value, fmt))
    return out


def _marshal_kwargs_none_safe(fn):
    """does MarshalSerializer.dumpsCall tolerate kwargs=None?  Recognised shapes only."""
    items = [n for n in ast.walk(fn) if isinstance(n, ast.Call) and isinstance(n.func, ast.Attribute) and n.func.attr == "items"]
    if len(items) != 1:
        raise Shape("MarshalSerializer.dumpsCall: expected exactly one .items() call")
    recv = items[0].func.value
    guarded_before = False
    for st in fn.body:
        s = _src(st)
        if s in ("kwargs = kwargs or {}", "kwargs = {} if kwargs is None else kwargs", "kwargs = kwargs if kwargs else {}",
                 "kwargs = kwargs if kwargs is not None else {}"):
            guarded_before = True
        if isinstance(st, ast.If) and _src(st.test) in ("kwargs is None", "not kwargs") and len(st.body) == 1 \
                and _src(st.body[0]) in ("kwargs = {}", "kwargs = dict()"):
            guarded_before = True
        if any(n is items[0] for n in ast.walk(st)):
            break
    r = _src(recv)
    if r == "kwargs":
        return guarded_before
    if r in ("(kwargs or {})", "kwargs or {}", "(kwargs or dict())", "kwargs or dict()"):
        return True
    raise Shape("MarshalSerializer.dumpsCall: unrecognised receiver of .items(): %s" % r)



def _marshal_list_items(mars):
    """(dumps converts the items of a top-level list, dumpsCall converts the items of list arguments).
    A *list-item converter* is a method of MarshalSerializer with a statement
        if type(X) is list:  X = [self.convert_obj_into_marshallable(v) for v in X]
    `dumps` converts list items if it is such a method or passes its data to one; `dumpsCall` does if
    both of its comprehensions (vargs, kwargs values) call such a helper instead of
    convert_obj_into_marshallable directly."""
    def is_converter(fn):
        for st in ast.walk(fn):
            if isinstance(st, ast.If) and isinstance(st.test, ast.Compare) and isinstance(st.test.ops[0], ast.Is) \
                    and _src(st.test.comparators[0]) == "list" and _src(st.test.left).startswith("type("):
                for sub in ast.walk(st):
                    if isinstance(sub, ast.ListComp) and "self.convert_obj_into_marshallable(" in _src(sub.elt):
                        return True
        return False
    converters = {n.name for n in mars.body if isinstance(n, ast.FunctionDef) and is_converter(n)}
    dumps = _meth(mars, "dumps")
    dumps_calls = {c.func.attr for c in ast.walk(dumps) if isinstance(c, ast.Call) and isinstance(c.func, ast.Attribute)
                   and _src(c.func.value) == "self"}
    res = "dumps" in converters or bool(dumps_calls & converters)
    if not res and not ("convert_obj_into_marshallable" in dumps_calls):
        raise Shape("MarshalSerializer.dumps: no conversion call recognised")
    dc = _meth(mars, "dumpsCall")
    comps = [n for n in ast.walk(dc) if isinstance(n, (ast.ListComp, ast.DictComp))]
    if len(comps) != 2:
        raise Shape("MarshalSerializer.dumpsCall: expected two comprehensions (vargs, kwargs)")
    kinds = []
    for comp in comps:
        elt = comp.elt if isinstance(comp, ast.ListComp) else comp.value
        if not (isinstance(elt, ast.Call) and isinstance(elt.func, ast.Attribute) and _src(elt.func.value) == "self"):
            raise Shape("MarshalSerializer.dumpsCall: unrecognised element conversion " + _src(elt))
        name = elt.func.attr
        if name == "convert_obj_into_marshallable":
            kinds.append(False)
        elif name in converters:
            kinds.append(True)
        else:
            raise Shape("MarshalSerializer.dumpsCall: unknown conversion helper " + name)
    if kinds[0] != kinds[1]:
        raise Shape("MarshalSerializer.dumpsCall converts vargs and kwargs differently")
    return res, kinds[0]


def _tuple_names(node):
    if not isinstance(node, ast.Tuple):
        raise Shape("expected a tuple literal, got %s" % _src(node))
    return [_src(e) for e in node.elts]


def _lean_str_list(xs):
    return "[" + ", ".join(json.dumps(x) for x in xs) + "]"


def _cps(s):
    return "[" + ", ".join(str(ord(c)) for c in s) + "]"


def extract():
    common.repo_on_path()
    from Pyro5 import serializers, config
    path = serializers.__file__
    tree = ast.parse(open(path).read())
    base = _cls(tree, "SerializerBase")
    serp = _cls(tree, "SerpentSerializer")
    mars = _cls(tree, "MarshalSerializer")
    jsn = _cls(tree, "JsonSerializer")
    msgp = _cls(tree, "MsgpackSerializer")

    # --- msgpack hooks on the two paths
    kw_call = _unpack_hooks(_meth(msgp, "loadsCall"))
    kw_res = _unpack_hooks(_meth(msgp, "loads"))

    def flag(kws, name):
        return kws.get(name) == "self." + name

    packs = _calls(_meth(msgp, "dumps"), "msgpack.packb") + _calls(_meth(msgp, "dumpsCall"), "msgpack.packb")
    if len(packs) != 2:
        raise Shape("MsgpackSerializer.dumps/dumpsCall: expected one msgpack.packb each")
    pack_kw = [sorted("%s=%s" % (k.arg, _src(k.value)) for k in p.keywords) for p in packs]

    # --- marshal
    kw_none_safe = _marshal_kwargs_none_safe(_meth(mars, "dumpsCall"))
    res_items, call_items = _marshal_list_items(mars)
    conv = _meth(mars, "convert_obj_into_marshallable")
    marshalable = None
    for st in conv.body:
        if isinstance(st, ast.Assign) and _src(st.targets[0]) == "marshalable_types":
            marshalable = _tuple_names(st.value)
    if marshalable is None:
        raise Shape("marshalable_types not found")
    mcd = _meth(mars, "class_to_dict")
    marshal_c2d = _isinstance_chain(mcd)

    # --- recreate_classes dispatch
    rec = _meth(base, "recreate_classes")
    dispatch = []
    class_keys = []
    for st in rec.body:
        if isinstance(st, ast.If) and isinstance(st.test, ast.Compare) and _src(st.test.left) == "t" and isinstance(st.test.ops[0], ast.Is):
            dispatch.append(_src(st.test.comparators[0]))
            for sub in ast.walk(st):
                if isinstance(sub, ast.Compare) and isinstance(sub.ops[0], ast.In) and isinstance(sub.left, ast.Constant):
                    class_keys.append(sub.left.value)
    oh = [n for n in msgp.body if isinstance(n, ast.FunctionDef) and n.name == "object_hook"]   # absent in the top-down variant
    for fn in oh:
        for sub in ast.walk(fn):
            if isinstance(sub, ast.Compare) and isinstance(sub.ops[0], ast.In) and isinstance(sub.left, ast.Constant):
                class_keys.append(sub.left.value)
    if not class_keys or any(k != class_keys[0] for k in class_keys):
        raise Shape("reserved class key literals disagree: %r" % class_keys)
    # class_to_dict: refused container types
    c2d = _meth(base, "class_to_dict")
    refused = []
    for sub in ast.walk(c2d):
        if isinstance(sub, ast.Compare) and _src(sub.left) == "type(obj)" and isinstance(sub.ops[0], ast.In):
            refused = _tuple_names(sub.comparators[0])
    # dict_to_class: the dunder test
    d2c = _meth(base, "dict_to_class")
    dunder = [sub.left.value for sub in ast.walk(d2c)
              if isinstance(sub, ast.Compare) and isinstance(sub.ops[0], ast.In) and isinstance(sub.left, ast.Constant)
              and _src(sub.comparators[0]) == "classname"]
    serp_d2c = _meth(serp, "dict_to_class")
    serp_float = [sub.comparators[0].value for sub in ast.walk(serp_d2c)
                  if isinstance(sub, ast.Compare) and isinstance(sub.ops[0], ast.Eq) and isinstance(sub.comparators[0], ast.Constant)]

    # --- json
    jd = _meth(jsn, "dumpsCall")
    json_keys = []
    for sub in ast.walk(jd):
        if isinstance(sub, ast.Dict) and sub.keys:
            json_keys = [k.value for k in sub.keys if isinstance(k, ast.Constant)]
            break
    json_chain = _isinstance_chain(_meth(jsn, "default"))
    msgpack_chain = _isinstance_chain(_meth(msgp, "default"))
    ext_default = _ext_codes_default(_meth(msgp, "default"))
    ext_hook = _ext_codes_hook(_meth(msgp, "ext_hook"))

    # --- serpent
    sd = _calls(_meth(serp, "dumps"), "serpent.dumps") + _calls(_meth(serp, "dumpsCall"), "serpent.dumps")
    if len(sd) != 2:
        raise Shape("SerpentSerializer.dumps/dumpsCall: expected one serpent.dumps each")
    serp_kw = [sorted("%s=%s" % (k.arg, _src(k.value)) for k in p.keywords) for p in sd]
    # statements of the loads / loadsCall bodies that call recreate_classes (which variables are re-created)
    recreated = {}
    for c in (serp, mars, jsn, msgp):
        fn = _meth(c, "loadsCall")
        names = []
        for st in fn.body:
            if isinstance(st, ast.Assign) and isinstance(st.value, ast.Call) and _src(st.value.func) == "self.recreate_classes":
                names.append(_src(st.targets[0]))
        recreated[c.name] = names

    # msgpack: does loads() wrap its result in recreate_classes?  does loadsCall re-create vargs and kwargs?
    loads_rec = len(_calls(_meth(msgp, "loads"), "self.recreate_classes"))
    if loads_rec not in (0, 1):
        raise Shape("MsgpackSerializer.loads: more than one recreate_classes call")
    call_rec = sorted(recreated["MsgpackSerializer"])
    if call_rec not in ([], ["kwargs", "vargs"]):
        raise Shape("MsgpackSerializer.loadsCall: recreate_classes applied to %s" % call_rec)
    for c in (serp, mars, jsn):
        if sorted(recreated[c.name]) != ["kwargs", "vargs"] or len(_calls(_meth(c, "loads"), "self.recreate_classes")) != 1:
            raise Shape("%s: loads/loadsCall do not re-create classes in the expected way" % c.name)
    ids = [serializers.SerpentSerializer.serializer_id, serializers.MarshalSerializer.serializer_id,
           serializers.JsonSerializer.serializer_id, serializers.MsgpackSerializer.serializer_id]
    b = lambda x: "true" if x else "false"   # noqa: E731
    return f"""-- GENERATED by harness/props/c01_extract.py from {os.path.relpath(path, common.REPO)} — do not edit
namespace Pyro.Gen.C01
/-- serializer_id of serpent, marshal, json, msgpack -/
def serializerIds : List Nat := {ids}
/-- MsgpackSerializer.loadsCall passes ext_hook=self.ext_hook / object_hook=self.object_hook to msgpack.unpackb -/
def msgpackCallExtHook : Bool := {b(flag(kw_call, "ext_hook"))}
def msgpackCallObjectHook : Bool := {b(flag(kw_call, "object_hook"))}
/-- the same for MsgpackSerializer.loads -/
def msgpackLoadsExtHook : Bool := {b(flag(kw_res, "ext_hook"))}
def msgpackLoadsObjectHook : Bool := {b(flag(kw_res, "object_hook"))}
/-- loadsCall passes vargs and kwargs through recreate_classes / loads passes its result through it -/
def msgpackCallRecreate : Bool := {b(bool(call_rec))}
def msgpackLoadsRecreate : Bool := {b(loads_rec == 1)}
/-- other keywords of the two unpackb calls (loadsCall, loads) and of the two packb calls (dumps, dumpsCall) -/
def msgpackUnpackOther : List (List String) := [{_lean_str_list(sorted("%s=%s" % kv for kv in kw_call.items() if kv[0] not in ("ext_hook", "object_hook")))}, {_lean_str_list(sorted("%s=%s" % kv for kv in kw_res.items() if kv[0] not in ("ext_hook", "object_hook")))}]
def msgpackPackKw : List (List String) := [{", ".join(_lean_str_list(p) for p in pack_kw)}]
/-- MarshalSerializer.dumpsCall tolerates kwargs=None (the receiver of .items() is guarded) -/
def marshalKwargsNoneSafe : Bool := {b(kw_none_safe)}
/-- dumps / dumpsCall also convert the items of a top-level list (`type(data) is list`) -/
def marshalDumpsListItems : Bool := {b(res_items)}
def marshalDumpsCallListItems : Bool := {b(call_items)}
def marshalableTypes : List String := {_lean_str_list(marshalable)}
/-- isinstance tests of MarshalSerializer.class_to_dict before delegating to the base class -/
def marshalClassToDict : List String := {_lean_str_list(marshal_c2d)}
/-- `t is X` dispatch of SerializerBase.recreate_classes, in order -/
def recreateDispatch : List String := {_lean_str_list(dispatch)}
/-- string literals tested with `in` by recreate_classes and MsgpackSerializer.object_hook -/
def classKeyLiterals : List String := {_lean_str_list(sorted(set(class_keys)))}
/-- code points of the reserved key -/
def classKey : List Nat := {_cps(class_keys[0]) if class_keys else "[]"}
/-- container types SerializerBase.class_to_dict refuses -/
def classToDictRefused : List String := {_lean_str_list(refused)}
/-- literals tested with `in classname` by dict_to_class; literals compared with == in SerpentSerializer.dict_to_class -/
def dictToClassDunder : List String := {_lean_str_list(dunder)}
def serpentDictToClassEq : List String := {_lean_str_list(serp_float)}
/-- keys of the request dict built by JsonSerializer.dumpsCall -/
def jsonCallKeys : List String := {_lean_str_list(json_keys)}
/-- isinstance chains of the default() hooks, in order -/
def jsonDefaultChain : List String := {_lean_str_list(json_chain)}
def msgpackDefaultChain : List String := {_lean_str_list(msgpack_chain)}
/-- (type, ext code, struct format) of the ExtType values built by MsgpackSerializer.default -/
def extDefault : List (String × Nat × String) := [{", ".join("(%s, %d, %s)" % (json.dumps(t), c, json.dumps(f)) for t, c, f in ext_default)}]
/-- (ext code, struct format) decoded by MsgpackSerializer.ext_hook, in order -/
def extHook : List (Nat × String) := [{", ".join("(%d, %s)" % (c, json.dumps(f)) for c, f in ext_hook)}]
/-- keywords of the two serpent.dumps calls (dumps, dumpsCall); config.SERPENT_BYTES_REPR default -/
def serpentDumpsKw : List (List String) := [{", ".join(_lean_str_list(p) for p in serp_kw)}]
def serpentBytesRepr : Bool := {b(config.SERPENT_BYTES_REPR)}
/-- variables passed through recreate_classes by loadsCall of serpent, marshal, json -/
def recreatedInLoadsCall : List (List String) := [{", ".join(_lean_str_list(recreated[n]) for n in ("SerpentSerializer", "MarshalSerializer", "JsonSerializer"))}]
end Pyro.Gen.C01
"""
