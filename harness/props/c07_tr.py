"""C07 translator: Python `ast` of the functions that DECIDE what an exception looks like on the wire and after decoding
(`SerializerBase.make_exception`, the exception branch of `SerializerBase.class_to_dict`,
`core._ExceptionWrapper.__serialized_dict__` / `raiseIt`) -> Lean source text, a SHALLOW embedding over the model's own
types (lean/PyroModel/ExcSrc.lean holds the primitive operations, one per expression kind).

Sound by refusal: every statement / expression / call target / attribute that is not explicitly understood raises
`Untranslatable`.  Skipped silently: docstrings, `log.*(...)` calls, annotations.  Normalised: locals and parameters are
renamed canonically in order of first binding; names are resolved through the real module (a class spelled
`BaseException`, `builtins.BaseException` or via an alias is the same class object; a collaborator is recognised by the
function OBJECT it resolves to, so extracted helpers that are called are inlined through `KNOWN`); `type(x)` and
`x.__class__` are the same; tests decided by the static type of a parameter (`isinstance(obj, BaseException)` for the
exception-typed parameter, `type(obj) in (set, dict, ...)`) are folded, and code after a folded-true branch that returns
is dead for that parameter type.
"""
import ast
import builtins
import inspect
import textwrap


class Untranslatable(Exception):
    pass


def lstr(s):
    if any(ord(c) < 32 or ord(c) > 126 or c in '"\\' for c in s):
        raise Untranslatable("text constant %r" % s)
    return '(cs "%s")' % s


class Fn:
    """one function being translated"""

    def __init__(self, tr, func, owner, lean_name, params, ret, extra=""):
        self.tr, self.func, self.owner, self.lean_name, self.ret, self.extra = tr, func, owner, lean_name, ret, extra
        src = textwrap.dedent(inspect.getsource(func))
        self.node = ast.parse(src).body[0]
        if not isinstance(self.node, ast.FunctionDef):
            raise Untranslatable("not a plain function: %s" % lean_name)
        a = self.node.args
        if a.vararg or a.kwarg or a.kwonlyargs or a.defaults or a.posonlyargs:
            raise Untranslatable("parameter list of %s" % func.__name__)
        names = [x.arg for x in a.args]
        if len(names) != len(params):
            raise Untranslatable("%s takes %d parameters, expected %d" % (func.__name__, len(names), len(params)))
        self.env = {}           # python name -> (lean name, type)
        self.params = []
        for i, (n, t) in enumerate(zip(names, params)):
            self.env[n] = ("a%d" % i, t)
            self.params.append(("a%d" % i, t))
        self.nlocals = 0
        self.mutated = set()
        self.lines = []
        self.depth = 0

    # ---- names -------------------------------------------------------------------------------
    def resolve(self, node):
        """the real object an expression of Names / Attributes denotes (never evaluates calls)"""
        if isinstance(node, ast.Name):
            if node.id in self.env:
                if self.env[node.id][1] in ("selfcls", "wrapper"):      # `cls._x` / `self._x`: looked up on the owner class
                    return self.owner       # the `cls` of a classmethod (subclasses do not override the functions translated here)
                raise Untranslatable("local %s used as a global" % node.id)
            g = self.func.__globals__
            if node.id in g:
                return g[node.id]
            if hasattr(builtins, node.id):
                return getattr(builtins, node.id)
            raise Untranslatable("unresolved name %s" % node.id)
        if isinstance(node, ast.Attribute):
            base = self.resolve(node.value)
            name = node.attr
            if name.startswith("__") and not name.endswith("__") and self.owner is not None:
                name = "_" + self.owner.__name__.lstrip("_") + name
            if not hasattr(base, name):
                raise Untranslatable("unresolved attribute %s" % name)
            return getattr(base, name)
        raise Untranslatable("cannot resolve %s" % ast.dump(node)[:80])

    def var(self, node, want=None):
        if isinstance(node, ast.Name) and node.id in self.env:
            ln, t = self.env[node.id]
            if want is not None and t != want:
                raise Untranslatable("variable %s has type %s, %s needed" % (node.id, t, want))
            return ln, t
        # self.exception on the wrapper
        if isinstance(node, ast.Attribute) and isinstance(node.value, ast.Name) and self.env.get(node.value.id, (0, 0))[1] == "wrapper" \
                and node.attr == "exception":
            if want not in (None, "exc"):
                raise Untranslatable("wrapped exception used as %s" % want)
            return self.env[node.value.id][0], "exc"
        raise Untranslatable("not a variable: %s" % ast.dump(node)[:80])

    def class_of_var(self, node):
        """`type(x)` / `x.__class__` -> lean name of x (an exception-typed variable)"""
        if isinstance(node, ast.Call) and isinstance(node.func, ast.Name) and node.func.id == "type" and "type" not in self.env \
                and len(node.args) == 1 and not node.keywords:
            return self.var(node.args[0], "exc")[0]
        if isinstance(node, ast.Attribute) and node.attr == "__class__":
            return self.var(node.value, "exc")[0]
        return None

    # ---- expressions: (lean text, type, monadic) ---------------------------------------------------
    def to_val(self, e):
        text, t, m = e
        if t == "val":
            return text, m
        if t == "str":
            return "(Val.str %s)" % text, m
        raise Untranslatable("a %s where data is needed" % t)

    def expr(self, node):
        if isinstance(node, ast.Constant):
            if node.value is None:
                return "Val.none", "val", False
            if node.value is True or node.value is False:
                return "(Val.bool %s)" % ("true" if node.value else "false"), "val", False
            if isinstance(node.value, str):
                return lstr(node.value), "str", False
            raise Untranslatable("constant %r" % (node.value,))
        if isinstance(node, ast.Name) and node.id in self.env:
            ln, t = self.env[node.id]
            return ln, t, False
        if isinstance(node, ast.Name):
            # a module-level text constant, resolved through the real module to its value
            c = self.resolve(node)
            if type(c) is str:
                return lstr(c), "str", False
            raise Untranslatable("global %s is not a text constant" % node.id)
        if isinstance(node, ast.Attribute):
            # wrapper.exception / exc.args
            if node.attr == "args":
                return "(Src.argsOf %s)" % self.var(node.value, "exc")[0], "val", False
            ln, t = self.var(node)
            return ln, t, False
        if isinstance(node, ast.Subscript):
            key = node.slice
            if not (isinstance(key, ast.Constant) and isinstance(key.value, str)):
                raise Untranslatable("subscript with a non-constant key")
            base, m = self.to_val(self.expr(node.value))
            return "(← Src.getitem %s %s)" % (base, lstr(key.value)), "val", True
        if isinstance(node, ast.Dict):
            items = []
            for k, v in zip(node.keys, node.values):
                if not (isinstance(k, ast.Constant) and isinstance(k.value, str)):
                    raise Untranslatable("dict literal with a non-constant key")
                items.append("(%s, %s)" % (lstr(k.value), self.to_val(self.expr(v))[0]))
            return "(Val.dict [%s])" % ", ".join(items), "val", True
        if isinstance(node, ast.BinOp) and isinstance(node.op, ast.Add):
            # <class of x>.__module__ + "." + <class of x>.__name__
            l = node.left
            if isinstance(l, ast.BinOp) and isinstance(l.op, ast.Add) and isinstance(l.right, ast.Constant) and l.right.value == "." \
                    and isinstance(l.left, ast.Attribute) and l.left.attr == "__module__" \
                    and isinstance(node.right, ast.Attribute) and node.right.attr == "__name__":
                a, b = self.class_of_var(l.left.value), self.class_of_var(node.right.value)
                if a is not None and a == b:
                    return "(Src.qualname %s)" % a, "str", False
            raise Untranslatable("string concatenation of another shape")
        if isinstance(node, ast.Call):
            return self.call(node)
        raise Untranslatable("expression %s" % type(node).__name__)

    def call(self, node):
        if node.keywords:
            raise Untranslatable("keyword arguments")
        f = node.func
        # cls(*data)
        if isinstance(f, ast.Name) and f.id in self.env and self.env[f.id][1] == "cls":
            if len(node.args) == 1 and isinstance(node.args[0], ast.Starred):
                a, _ = self.to_val(self.expr(node.args[0].value))
                return "(← Src.construct K %s %s)" % (self.env[f.id][0], a), "exc", True
            raise Untranslatable("constructor call without a single *args")
        if isinstance(f, ast.Name) and f.id not in self.env and getattr(builtins, f.id, None) is vars and len(node.args) == 1:
            return "(Src.varsOf %s)" % self.var(node.args[0], "exc")[0], "val", False
        target = self.resolve(f)
        target = getattr(target, "__func__", target)
        for known, (lean, ptypes, rtype, extra) in self.tr.known.items():
            if target is known:
                if len(node.args) != len(ptypes):
                    raise Untranslatable("call of %s with %d arguments" % (lean, len(node.args)))
                args = []
                for a, t in zip(node.args, ptypes):
                    text, at, _ = self.expr(a)
                    if at != t:
                        raise Untranslatable("argument of %s has type %s, %s needed" % (lean, at, t))
                    args.append(text)
                self.tr.used.add(lean)
                return "(← %s %s%s)" % (lean, extra, " ".join(args)), rtype, True
        # a private helper of the same module whose body is one `return <expr>`: inlined at the call site
        import types
        if isinstance(target, types.FunctionType) and target.__module__ == self.func.__module__ and self.depth < 3:
            try:
                hnode = ast.parse(textwrap.dedent(inspect.getsource(target))).body[0]
            except (OSError, TypeError, SyntaxError):
                raise Untranslatable("source of helper %s" % target.__name__)
            body = [st for st in hnode.body if not (isinstance(st, ast.Expr) and isinstance(st.value, ast.Constant))]
            ha = hnode.args
            # body: pure single-assignment locals (substituted by their value), then one `return <expr>`
            shape_ok = isinstance(hnode, ast.FunctionDef) and body and isinstance(body[-1], ast.Return) and body[-1].value is not None \
                and all(isinstance(st, ast.Assign) and len(st.targets) == 1 and isinstance(st.targets[0], ast.Name) for st in body[:-1]) \
                and len({st.targets[0].id for st in body[:-1]}) == len(body) - 1
            if shape_ok and not (ha.vararg or ha.kwarg or ha.kwonlyargs or ha.defaults or ha.posonlyargs) and len(ha.args) == len(node.args):
                sub = Fn.__new__(Fn)
                sub.tr, sub.func, sub.owner, sub.ret, sub.extra = self.tr, target, self.owner, None, self.extra
                sub.depth = self.depth + 1
                sub.env, sub.lines, sub.mutated, sub.nlocals = {}, [], set(), 0
                for prm, a in zip(ha.args, node.args):
                    text, t, m = self.expr(a)
                    if m:
                        raise Untranslatable("helper %s called with an effectful argument" % target.__name__)
                    sub.env[prm.arg] = (text, t)
                for st in body[:-1]:
                    if st.targets[0].id in sub.env:
                        raise Untranslatable("helper %s reassigns %s" % (target.__name__, st.targets[0].id))
                    text, t, m = sub.expr(st.value)
                    if m:
                        raise Untranslatable("helper %s: effectful local" % target.__name__)
                    sub.env[st.targets[0].id] = (text, t)
                return sub.expr(body[-1].value)
        raise Untranslatable("call of %s" % ast.unparse(f))

    def test(self, node):
        """a condition -> (lean Bool text, monadic, folded constant or None)"""
        if isinstance(node, ast.UnaryOp) and isinstance(node.op, ast.Not):
            # `not x in y` = `x not in y`
            t, m, c = self.test(node.operand)
            return "(!%s)" % t, m, (None if c is None else not c)
        if isinstance(node, ast.Compare) and len(node.ops) == 1:
            op, left, right = node.ops[0], node.left, node.comparators[0]
            neg = isinstance(op, ast.NotIn)
            if isinstance(op, (ast.In, ast.NotIn)):
                if isinstance(left, ast.Constant) and isinstance(left.value, str):
                    d, _ = self.to_val(self.expr(right))
                    t = "(← Src.contains %s %s)" % (lstr(left.value), d)
                    return ("(!%s)" % t if neg else t), True, None
                v = self.class_of_var(left)
                if v is not None and isinstance(right, (ast.Tuple, ast.List, ast.Set)):
                    # exact type of an exception instance against classes: false unless one of them is an exception class
                    for el in right.elts:
                        c = self.resolve(el)
                        if not isinstance(c, type) or issubclass(c, BaseException):
                            raise Untranslatable("type test against %s" % ast.unparse(el))
                    return ("true" if neg else "false"), False, neg
            raise Untranslatable("comparison %s" % ast.unparse(node))
        if isinstance(node, ast.Call) and isinstance(node.func, ast.Name) and node.func.id not in self.env and not node.keywords:
            fn = getattr(builtins, node.func.id, None)
            if fn is hasattr and len(node.args) == 2 and isinstance(node.args[1], ast.Constant) and isinstance(node.args[1].value, str):
                v = self.var(node.args[0], "exc")[0]
                name = node.args[1].value
                for c in self.tr.exception_classes:
                    if hasattr(c, name):
                        raise Untranslatable("hasattr(%s): the class %s defines it" % (name, c.__name__))
                return "(Src.hasattr %s %s)" % (v, lstr(name)), False, None
            if fn is isinstance and len(node.args) == 2:
                self.var(node.args[0], "exc")
                c = self.resolve(node.args[1])
                if c is BaseException:
                    return "true", False, True
                raise Untranslatable("isinstance against %s" % ast.unparse(node.args[1]))
        raise Untranslatable("condition %s" % ast.unparse(node))

    # ---- statements ----------------------------------------------------------------------------
    def emit(self, ind, text):
        self.lines.append("  " * ind + text)

    def assign_var(self, name, t):
        if name in self.env:
            ln, t0 = self.env[name]
            if t0 != t:
                raise Untranslatable("variable %s changes its type" % name)
            self.mutated.add(ln)
            return ln, False
        ln = "v%d" % self.nlocals
        self.nlocals += 1
        self.env[name] = (ln, t)
        return ln, True

    def is_skippable(self, st):
        if isinstance(st, ast.Expr) and isinstance(st.value, ast.Constant) and isinstance(st.value.value, str):
            return True         # docstring
        if isinstance(st, ast.Expr) and isinstance(st.value, ast.Call) and isinstance(st.value.func, ast.Attribute) \
                and isinstance(st.value.func.value, ast.Name) and st.value.func.value.id == "log" and "log" not in self.env:
            import logging
            return isinstance(self.func.__globals__.get("log"), logging.Logger)
        return False

    def returns(self, body):
        return bool(body) and isinstance(body[-1], (ast.Return, ast.Raise))

    def block(self, body, ind):
        """translate a statement list; True when it always leaves the function"""
        for i, st in enumerate(body):
            if self.is_skippable(st):
                continue
            if isinstance(st, ast.Return):
                if st.value is None:
                    raise Untranslatable("bare return")
                text, t, _ = self.expr(st.value)
                if self.ret == "pyobj":
                    if t != "exc":
                        raise Untranslatable("returns a %s" % t)
                    self.emit(ind, "return (PyObj.exc %s)" % text)
                elif self.ret == "val":
                    self.emit(ind, "return %s" % self.to_val((text, t, False))[0])
                else:
                    raise Untranslatable("return in a function of kind %s" % self.ret)
                return True
            if isinstance(st, ast.Raise):
                if st.cause is not None or st.exc is None:
                    raise Untranslatable("raise form")
                if self.ret == "raises":
                    self.emit(ind, "throw %s" % self.var(st.exc, "exc")[0])
                    return True
                if not isinstance(st.exc, ast.Call):
                    raise Untranslatable("raise of a non-call")
                c = self.resolve(st.exc.func)
                if not (isinstance(c, type) and issubclass(c, BaseException)):
                    raise Untranslatable("raise of %s" % ast.unparse(st.exc.func))
                self.emit(ind, "Src.raiseClass %s" % lstr(c.__module__ + "." + c.__name__))
                return True
            if isinstance(st, ast.Assign) and len(st.targets) == 1:
                tg = st.targets[0]
                if isinstance(tg, ast.Name):
                    text, t, m = self.expr(st.value)
                    ln, new = self.assign_var(tg.id, t)
                    self.emit(ind, ("let mut %s := %s" if new else "%s := %s") % (ln, text))
                    continue
                if isinstance(tg, ast.Attribute):
                    ln = self.var(tg.value, "exc")[0]
                    v, _ = self.to_val(self.expr(st.value))
                    self.mutated.add(ln)
                    self.emit(ind, "%s := Src.setattr %s %s %s" % (ln, ln, lstr(tg.attr), v))
                    continue
                raise Untranslatable("assignment target")
            if isinstance(st, ast.If):
                t, m, const = self.test(st.test)
                if const is True and not st.orelse:
                    # decided by the parameter's type: the body runs
                    left = self.block(st.body, ind)
                    if left:
                        self.tr.notes.append("%s: statements after `%s` are dead for an exception-typed parameter (%d skipped)"
                                             % (self.func.__name__, ast.unparse(st.test), len(body) - i - 1))
                        return True
                    continue
                # ONE normal form for `if c: A` + rest / `if not c: return R` + rest / if-else: the statements after the `if`
                # are carried into both branches (`if c then A; rest else B; rest`), a negated test swaps the branches
                rest = body[i + 1:]
                then_b, else_b = list(st.body), list(st.orelse)
                test = st.test
                while True:
                    if isinstance(test, ast.UnaryOp) and isinstance(test.op, ast.Not):
                        test = test.operand
                    elif isinstance(test, ast.Compare) and len(test.ops) == 1 and isinstance(test.ops[0], ast.NotIn):
                        test = ast.Compare(left=test.left, ops=[ast.In()], comparators=test.comparators)
                    else:
                        break
                    then_b, else_b = else_b, then_b
                t, m, const = self.test(test)
                saved = dict(self.env)
                self.emit(ind, "if %s then" % t)
                a = self.block(then_b + rest, ind + 1)
                if not a:
                    raise Untranslatable("a branch of `if %s` can fall off the end of the function" % ast.unparse(st.test))
                self.env = dict(saved)
                self.emit(ind, "else")
                b = self.block(else_b + rest, ind + 1)
                if not b:
                    raise Untranslatable("a branch of `if %s` can fall off the end of the function" % ast.unparse(st.test))
                self.env = saved
                return True
            if isinstance(st, ast.For):
                self.loop(st, ind)
                continue
            raise Untranslatable("statement %s" % type(st).__name__)
        return False

    def loop(self, st, ind):
        if st.orelse:
            raise Untranslatable("for/else")
        # (1) the registry of application converters: for c in <dict on the owner class>: if isinstance(obj, c): return <dict>[c](obj)
        if isinstance(st.target, ast.Name) and isinstance(st.iter, ast.Attribute):
            reg = self.resolve(st.iter)
            if isinstance(reg, dict) and self.extra and len(st.body) == 1 and isinstance(st.body[0], ast.If) and not st.body[0].orelse:
                cond, inner = st.body[0].test, st.body[0].body
                if isinstance(cond, ast.Call) and isinstance(cond.func, ast.Name) and getattr(builtins, cond.func.id, None) is isinstance \
                        and len(cond.args) == 2 and isinstance(cond.args[1], ast.Name) and cond.args[1].id == st.target.id \
                        and len(inner) == 1 and isinstance(inner[0], ast.Return) and isinstance(inner[0].value, ast.Call) \
                        and isinstance(inner[0].value.func, ast.Subscript) and self.resolve(inner[0].value.func.value) is reg \
                        and isinstance(inner[0].value.func.slice, ast.Name) and inner[0].value.func.slice.id == st.target.id \
                        and len(inner[0].value.args) == 1:
                    v = self.var(cond.args[0], "exc")[0]
                    if self.var(inner[0].value.args[0], "exc")[0] != v:
                        raise Untranslatable("registry converter applied to another object")
                    self.emit(ind, "if reg (Src.qualname %s) then" % v)
                    self.emit(ind + 1, "throw DErr.unmodelled")
                    return
            raise Untranslatable("loop over %s" % ast.unparse(st.iter))
        # (2) for k, v in X.items(): setattr(e, k, v)
        if isinstance(st.target, ast.Tuple) and len(st.target.elts) == 2 and all(isinstance(e, ast.Name) for e in st.target.elts) \
                and isinstance(st.iter, ast.Call) and isinstance(st.iter.func, ast.Attribute) and st.iter.func.attr == "items" \
                and not st.iter.args and not st.iter.keywords:
            k, v = (e.id for e in st.target.elts)
            if k in self.env or v in self.env or k == v:
                raise Untranslatable("loop targets shadow a variable")
            src, _ = self.to_val(self.expr(st.iter.func.value))
            target = None
            for b in st.body:
                if self.is_skippable(b):
                    continue
                c = b.value if isinstance(b, ast.Expr) else None
                if not (isinstance(c, ast.Call) and isinstance(c.func, ast.Name) and c.func.id not in self.env
                        and getattr(builtins, c.func.id, None) is setattr and len(c.args) == 3 and not c.keywords
                        and isinstance(c.args[1], ast.Name) and c.args[1].id == k and isinstance(c.args[2], ast.Name) and c.args[2].id == v):
                    raise Untranslatable("loop body is not setattr(obj, key, value)")
                ln = self.var(c.args[0], "exc")[0]
                if target not in (None, ln):
                    raise Untranslatable("loop body sets attributes of two objects")
                target = ln
            if target is None:
                raise Untranslatable("empty loop body")
            self.mutated.add(target)
            self.emit(ind, "%s := (← Src.items %s).foldl (fun acc kv => Src.setattr acc kv.1 kv.2) %s" % (target, src, target))
            return
        raise Untranslatable("loop form")

    LEAN_T = {"exc": "Exc", "val": "Val", "cls": "Str", "wrapper": "Exc", "selfcls": None}
    RET_T = {"pyobj": "Except DErr PyObj", "val": "Except DErr Val", "raises": "Except Exc Unit"}

    def translate(self):
        left = self.block(self.node.body, 1)
        if not left:
            raise Untranslatable("%s can fall off its end (returns None)" % self.func.__name__)
        head = "def %s %s%s : %s := do" % (
            self.lean_name, self.extra,
            " ".join("(%s : %s)" % (n, self.LEAN_T[t]) for n, t in self.params if self.LEAN_T[t]), self.RET_T[self.ret])
        pre = ["  let mut %s := %s" % (n, n) for n, t in self.params if n in self.mutated]
        body = [l.replace("let mut ", "let ") if l.strip().startswith("let mut ") and l.split()[2] not in self.mutated else l
                for l in self.lines]
        # a temporary that is bound once, never reassigned, and used exactly once by the very next statement (which has no
        # other effect of its own) is the same as writing its expression there
        import re
        out = []
        for l in body:
            if out:
                mt = re.match(r"^(\s*)let (v\d+) := (.*)$", out[-1])
                if mt and len(mt.group(1)) == len(l) - len(l.lstrip()) and "←" not in l \
                        and len(re.findall(r"\b%s\b" % mt.group(2), l)) == 1 \
                        and not any(re.search(r"\b%s\b" % mt.group(2), x) for x in body[body.index(l) + 1:]):
                    out[-1] = re.sub(r"\b%s\b" % mt.group(2), lambda _: mt.group(3), l)
                    continue
            out.append(l)
        return "\n".join([head] + pre + out)


class Translator:
    def __init__(self, exception_classes):
        self.exception_classes = exception_classes
        self.known = {}
        self.used = set()
        self.notes = []

    def run(self, serializers, core):
        SB = serializers.SerializerBase
        W = core._ExceptionWrapper
        out = []
        mk = SB.__dict__["make_exception"].__func__
        f = Fn(self, mk, SB, "makeExceptionSrc", ["cls", "val"], "pyobj", extra="(K : ClientEnv) ")
        out.append(("make_exception", f.translate()))
        ctd = SB.__dict__["class_to_dict"].__func__
        f = Fn(self, ctd, SB, "classToDictSrc", ["selfcls", "exc"], "val", extra="(reg : Str → Bool) ")
        out.append(("class_to_dict (for an exception instance)", f.translate()))
        self.known[ctd] = ("classToDictSrc", ["exc"], "val", "reg ")
        f = Fn(self, W.__dict__["__serialized_dict__"], W, "wrapperToDictSrc", ["wrapper"], "val", extra="(reg : Str → Bool) ")
        out.append(("_ExceptionWrapper.__serialized_dict__", f.translate()))
        f = Fn(self, W.__dict__["raiseIt"], W, "raiseItSrc", ["wrapper"], "raises")
        out.append(("_ExceptionWrapper.raiseIt", f.translate()))
        return out


def lean_source(exception_classes, serializers, core):
    tr = Translator(exception_classes)
    parts = tr.run(serializers, core)
    L = ["-- GENERATED by harness/props/c07_tr.py from the CURRENT source of Pyro5.serializers.SerializerBase.make_exception /",
         "-- class_to_dict and Pyro5.core._ExceptionWrapper (python ast -> shallow embedding over PyroModel/ExcSrc.lean) — do not edit",
         "import PyroModel.ExcSrc", "", "namespace Pyro.Gen.C07Src", "", "open Pyro.Exceptions", ""]
    for doc, text in parts:
        L.append("/-- transcription of `%s` -/" % doc)
        L.append(text)
        L.append("")
    for n in sorted(set(tr.notes)):
        L.append("-- note: " + n)
    L.append("")
    L.append("end Pyro.Gen.C07Src")
    return "\n".join(L) + "\n"
