"""C19 — URIs have one canonical text form that parses back to the same URI."""
import ast
import itertools
import json
import os
import random

import common
from common import cps
from props import c19_proxy
from props import c19_tr

ID = "C19"
LEAN_MODEL_TARGETS = ["drv_c19"]
LEAN_PROOF_TARGETS = ["PyroProps.C19Src", "PyroProps.C19"]      # C19Src imports C19: the audit sees both
AUDIT_FILES = ["PyroModel/Uri.lean", "PyroModel/Gen/C19.lean", "PyroProofs/UriLemmas.lean",
               "PyroProofs/UriParse.lean", "PyroProps/C19.lean",
               "PyroModel/UriPy.lean", "PyroModel/UriSrc.lean", "PyroProps/C19Src.lean"]
THEOREMS = ["Pyro.C19.C19_parse_valid", "Pyro.C19.C19_reparse", "Pyro.C19.C19_roundtrip",
            "Pyro.C19.C19_fixpoint", "Pyro.C19.C19_text_injective", "Pyro.C19.C19_eq_hash",
            "Pyro.C19.C19_unequal_locations", "Pyro.C19.C19_transport", "Pyro.C19.C19_state_transport", "Pyro.C19.C19_proxy_history", "Pyro.C19.C19_int_roundtrip",
            "Pyro.C19.C19_roundtrip_guarded", "Pyro.C19.C19_unguarded_fails",
            "Pyro.C19.C19_roundtrip_unguarded_false", "Pyro.C19.C19_gen_facts",
            # round 5: the transcription of _parseLocation / location = the model, property restated about it
            "Pyro.C19.C19_parseLocation_translated", "Pyro.C19.C19_location_translated",
            "Pyro.C19.C19_source_parse", "Pyro.C19.C19_source_roundtrip", "Pyro.C19.C19_source_unequal_locations",
            "Pyro.C19.C19_valid_iff_accepted", "Pyro.C19.C19_eq_iff_text"]
SUITES = ["parse", "eq", "int", "proxy", "src", "ploc"]
RULE = ("strings generated from the URI grammar (three protocols in random letter case; object names with @ and "
        "punctuation; tag lists with empty/duplicate/@ tags; hostnames, IPv4, bracketed IPv6 with garbage, empty and "
        "socket-prefix-like hosts; ports in every ASCII form int() accepts or refuses; default ports with several "
        "NS_PORT values; unix socket paths; trailing newlines) plus near-misses and 0-2 random character edits, from "
        "VERIF_SEED; strings with Unicode white space / decimal digits go to the Python-only stream; a case is "
        "non-trivial when the real parser ACCEPTED it; distinct = distinct (state tuple, NS_PORT, tag order)")
ASSUMPTIONS = ["config.NS_PORT is a non-negative int (checked by the extractor for the default)",
               "port literals stay below CPython's 4300-digit int<->str limit",
               "a set is iterated in some permutation of its elements (the theorems quantify over all of them)",
               "serializers deliver a str unchanged (C01); used only by C19_transport, exercised by the transport oracle"]
TRUSTED = ["re.match / int() / str.isspace agree with the model's explicit string functions on the model domain "
           "(validated by the correspondence suites parse/int, not proved)"]

NS_PORTS = [9090, 9090, 9090, 0, 1, 65535, 12345]
UNRESOLVED = "<unresolved>"


# ----------------------------------------------------------------------------------------
# A: extractor — facts are PROBED on the real classes (behaviour tables), not read off the syntax;
#    only the two regular-expression patterns are taken as such (resolved through the real module).
# ----------------------------------------------------------------------------------------
def _lean_str(s):
    return json.dumps(s, ensure_ascii=False)


def _lean_text(s):
    return "[" + ", ".join(str(ord(c)) for c in s) + "]"


def _lean_opt_text(s):
    return "none" if s is None else "(some %s)" % _lean_text(s)


def _lean_uri(u):
    """Lean term of type Pyro.Uri.Uri for the state of a real URI; raises if the state has a shape the model lacks"""
    proto, obj, sock, host, port = u.__getstate__()
    if proto == "PYROMETA":
        if not isinstance(obj, (set, frozenset)) or not all(isinstance(t, str) for t in obj):
            raise ValueError("PYROMETA object is %r" % (obj,))
        kind = "Pyro.Uri.Kind.pyrometa [%s]" % ", ".join(_lean_text(t) for t in sorted(obj))
    elif proto in ("PYRO", "PYRONAME") and isinstance(obj, str):
        kind = "Pyro.Uri.Kind.%s %s" % (proto.lower(), _lean_text(obj))
    else:
        raise ValueError("state %r" % ((proto, obj),))
    if sock is None and host is None and port is None:
        loc = "Pyro.Uri.Loc.none"
    elif isinstance(sock, str) and host is None and port is None:
        loc = "Pyro.Uri.Loc.sock %s" % _lean_text(sock)
    elif sock is None and isinstance(host, str) and type(port) is int:
        loc = "Pyro.Uri.Loc.tcp %s (%d)" % (_lean_text(host), port)
    else:
        raise ValueError("location state %r" % ((sock, host, port),))
    return "⟨%s, %s⟩" % (kind, loc)


_ERR_TERM = {"invalid": "invalid", "protocol": "protocol", "location": "location", "brackets": "brackets",
             "ipv6": "ipv6", "port": "port", "metadata": "metadata"}

PARSE_PROBES = [
    "PYRO:obj@localhost:55", "pyro:obj@h:1", "PyRoNaMe:x", "PYRONAME:x@h", "PYRONAME:x@h:", "PYRONAME:x@h:77",
    "pyrometa:b,a,,b@[::1]:007\n", "PYROMETA:a", "PYROMETA:,a", "PYRO:o@./u:/tmp/s", "PYRO:o@./u:", "PYRO:o@./u:x:y",
    "PYRONAME:n@./u:s@t", "PYRO:a@[::1]:55xyz", "PYRO:a@[abc]:5", "PYRO:a@[::1]", "PYRONAME:a@[::1]", "PYRONAME:a@[::1]:-5",
    "PYRO:a@[fe80::1%25]:1", "PYRO:a@[[::1]]:5", "PYRO:a@[xyz]:5", "PYRO:a@[]:5", "PYRO:a@[::1:5", "PYRO:a@h: +5_0 ",
    "PYRO:a@h:1__0", "PYRO:a@h:_1", "PYRO:a@h:-5", "PYRO:a@h:\x1c5", "PYRO:a@h:\t5\r", "PYRO:a@h:1:2", "PYRO:a@h:0x10",
    "PYRO:a@h", "PYRO:a@h:", "PYRO:a", "PYROX:x@h:1", "PYRONAMES:x", "PYR:x", "PYRO x", "PYRO:", "PYRO:a b@h:1",
    "PYRO:a\x1cb@h:1", " PYRO:a@h:1", "PYRO:a@h:1\n", "PYRO:a@h:1\n\n", "PYRONAME:a@", "PYRONAME:a@\n", "PYRONAME:@x@h:1",
    "PYRO:a@b@h:1", "PYRO:a@h\r:1", "PYRO:a@ h :5", "PYRONAME:./u:@5%A", "PYRONAME:a@@",
    "PYRO:o@:55", "PYRONAME:o@:9090", "pyroname:c@:", "PYRONAME:x@./u", "PYROMETA:,", "PYROMETA:,@h:1", "PYROMETA:b,a@",
    "PYROMETA:@x,b", "PYROMETA:@", "PYROMETA:a,,", "PYROMETA:b,a@h",
]

EQ_PROBES = [
    ("PYRO:a@h:5", "pyro:a@h: 5 "), ("PYRO:a@h:5", "PYRO:a@h:6"), ("PYRO:a@h:5", "PYRO:a@g:5"), ("PYRO:a@h:5", "PYRO:b@h:5"),
    ("PYRONAME:a@h:5", "PYRO:a@h:5"), ("PYROMETA:a,b", "PYROMETA:b,a,a"), ("PYROMETA:a,b", "PYROMETA:a"),
    ("PYROMETA:a,b@h:1", "PYROMETA:b,a@h:2"), ("PYRO:a@./u:s", "PYRO:a@./u:t"), ("PYRO:a@./u:s", "PYRO:a@./u:s\n"),
    ("PYRONAME:a", "PYRONAME:a@h"), ("PYRONAME:a@h", "PYRONAME:a@h:%(nsport)d"), ("PYRO:a@[::1]:5", "PYRO:a@[::1]:5garbage"),
    ("PYRO:a@[abc]:5", "PYRO:a@abc:5"), ("PYRONAME:a", "PYROMETA:a"),
]


def _resolve_ipv6_regex(core):
    """pattern/flags of the regex `URI._parseLocation` (or a private helper it calls) matches a bracketed location
    against: a literal, or whatever object the name it uses denotes in the real module. (UNRESOLVED, 0) if unclear."""
    import inspect
    import re
    import textwrap
    main = core.URI.uriRegEx.pattern
    found = []

    def value_of(node):
        if isinstance(node, ast.Constant) and isinstance(node.value, str):
            return node.value
        if isinstance(node, ast.Name):
            return getattr(core, node.id, None)
        if isinstance(node, ast.Attribute) and isinstance(node.value, ast.Name):
            if node.value.id in ("self", "cls", "URI"):
                return getattr(core.URI, node.attr, None)
            mod = getattr(core, node.value.id, None)
            return getattr(mod, node.attr, None) if mod is not None else None
        return None

    def scan(fn, depth):
        try:
            tree = ast.parse(textwrap.dedent(inspect.getsource(fn)))
        except (OSError, TypeError, SyntaxError):
            return
        for node in ast.walk(tree):
            if not isinstance(node, ast.Call):
                continue
            if isinstance(node.func, ast.Name):
                helper = getattr(core, node.func.id, None)
                if depth < 2 and inspect.isfunction(helper) and helper.__module__ == core.__name__ \
                        and node.func.id.startswith("_"):
                    scan(helper, depth + 1)
                continue
            if not isinstance(node.func, ast.Attribute):
                continue
            f = node.func
            if f.attr in ("match", "fullmatch", "search", "compile"):
                if isinstance(f.value, ast.Name) and f.value.id == "re":
                    v = value_of(node.args[0]) if node.args else None
                    flags = 32
                    if len(node.args) > 2 or node.keywords or (f.attr == "compile" and len(node.args) > 1):
                        flags = -1
                else:
                    v, flags = value_of(f.value), None
                if isinstance(v, str):
                    found.append((v, flags if flags is not None else 32))
                elif isinstance(v, re.Pattern):
                    found.append((v.pattern, int(v.flags)))
            elif depth < 2 and isinstance(f.value, ast.Name) and f.value.id in ("self", "cls", "URI"):
                helper = getattr(core.URI, f.attr, None)
                if callable(helper) and f.attr.startswith("_") and not f.attr.startswith("__"):
                    scan(helper, depth + 1)
    scan(core.URI._parseLocation, 0)
    pats = sorted({(p, f) for p, f in found if p != main})
    if len(pats) == 1 and pats[0][1] >= 0:
        return pats[0]
    return UNRESOLVED, 0


def _raises(URI, errors, s):
    try:
        URI(s)
        return False
    except errors.PyroError:
        return True


def _probe_parse(URI, errors, s):
    """Lean tuple (input, expected parse result, expected str (ascending tags), expected location)"""
    try:
        u = URI(s)
    except errors.PyroError as x:
        k = err_kind(x)
        if k not in _ERR_TERM:
            raise RuntimeError("URI(%r) raises an unknown kind of PyroError: %s" % (s, x))
        return "(%s, Except.error Pyro.Uri.Err.%s, [], none)" % (_lean_text(s), _ERR_TERM[k])
    obj = u.object
    text = str_in_order(URI, u, sorted(obj)) if isinstance(obj, (set, frozenset)) else str(u)
    return "(%s, Except.ok %s, %s, %s)" % (_lean_text(s), _lean_uri(u), _lean_text(text), _lean_opt_text(u.location))


def _proxy_probes(URI, errors):
    """histories run on a real Proxy through its own state pair / copy.copy; Lean terms for the model's proxyRun"""
    import copy
    from Pyro5 import client
    hist = [
        ("PYRONAME:svc", ["s", ("u", "PYRO:obj@localhost:4444"), "s", "c"]),
        ("PYROMETA:b,a,tag@ns:9091", ["c", "s", ("u", "PYRO:o@[::1]:5"), "c", "s", ("u", "PYROMETA:x,y"), "s"]),
        ("PYRO:o@./u:sock", ["s", "c", ("u", "PYRONAME:n@h"), "c"]),
    ]
    out = []
    is_text = True
    for init, ops in hist:
        p = client.Proxy(init)
        terms, delivered = [], []
        for op in ops:
            if isinstance(op, tuple):
                new = URI(op[1])
                p._pyroUri = new                      # what bind does with the resolved uri
                terms.append("Pyro.Uri.ProxyOp.setUri %s" % _lean_uri(new))
                continue
            terms.append("Pyro.Uri.ProxyOp.send" if op == "s" else "Pyro.Uri.ProxyOp.copy")
            try:
                if op == "s":
                    state = p.__getstate__()
                    if not (type(state[0]) is str and state[0] == str(p._pyroUri)):
                        is_text = False
                    q = client.Proxy.__new__(client.Proxy)
                    q.__setstate__(state)
                else:
                    q = copy.copy(p)
                delivered.append("Except.ok %s" % _lean_uri(q._pyroUri))
            except (errors.PyroError, ValueError, TypeError, AttributeError):
                delivered.append("Except.error Pyro.Uri.Err.metadata")   # a marker the model never produces here
        out.append("(%s, [%s], [%s])" % (_lean_uri(URI(init)), ", ".join(terms), ", ".join(delivered)))
    return out, is_text


def _facts():
    common.repo_on_path()
    from Pyro5 import core, errors, config
    URI = core.URI
    rx = getattr(URI, "uriRegEx", None)
    if rx is None or not hasattr(rx, "pattern"):
        raise RuntimeError("URI.uriRegEx is not a compiled pattern")
    nsport = config.NS_PORT
    if type(nsport) is not int or nsport < 0:
        raise RuntimeError("config.NS_PORT default is not a non-negative int: %r" % (nsport,))
    v6, v6flags = _resolve_ipv6_regex(core)
    parse = [_probe_parse(URI, errors, s) for s in PARSE_PROBES]
    eqs, hashes_agree = [], True
    for a, b in EQ_PROBES:
        b = b % {"nsport": nsport} if "%(" in b else b
        ua, ub = URI(a), URI(b)
        eq = (ua == ub)
        if (ua != ub) == eq or (ub == ua) != eq or ua == a or not (ua == URI(ua)):
            hashes_agree = False         # == / != inconsistent: recorded through the same flag (obligation demands true)
        if eq:
            try:
                if hash(ua) != hash(ub):
                    hashes_agree = False
            except TypeError:
                pass
        eqs.append("(%s, %s, %s)" % (_lean_text(a), _lean_text(b), "true" if eq else "false"))
    hashable = []
    for s in ("PYRO:a@h:5", "PYRONAME:a", "PYRO:a@./u:s", "PYROMETA:a,b", "PYROMETA:a@h:1"):
        try:
            hash(URI(s))
            h = True
        except TypeError:
            h = False
        hashable.append("(%s, %s)" % (_lean_text(s), "true" if h else "false"))
    proxy, is_text = _proxy_probes(URI, errors)
    from Pyro5 import serializers as _sers
    state_ok = True
    for name in sorted(_sers.serializers):
        ser = _sers.serializers[name]
        for text in ("PYROMETA:b,a,tag@ns:9091", "PYROMETA:x", "PYRO:o@h:1", "PYRONAME:n@./u:s"):
            if uri_arrival_difference(URI, name, ser, ser.loads(ser.dumps(URI(text))), URI(text)):
                state_ok = False
    return {
        "path": os.path.relpath(core.__file__, common.REPO),
        "regex": rx.pattern, "flags": int(rx.flags), "v6": v6, "v6flags": v6flags, "nsport": nsport,
        "parse": parse, "eq": eqs, "hashable": hashable, "hashes_agree": hashes_agree,
        "proxy": proxy, "proxy_text": is_text, "state_ok": state_ok,
        # the two parse-time guards: present iff the behaviour is (both witnesses of each are refused)
        "guard_host": _raises(URI, errors, "PYRO:o@:55") and _raises(URI, errors, "PYRONAME:x@./u"),
        "guard_tags": _raises(URI, errors, "PYROMETA:,") and _raises(URI, errors, "PYROMETA:b,a@"),
        # round 5: URI._parseLocation and the `location` property TRANSCRIBED from the source (c19_tr.py; raises
        # Untranslatable -> the runner reports a broken tie and searches with the oracle)
        "src": c19_tr.translate_uri(core, errors),
    }


def extract():
    """facts probed on the real classes -> Lean (PyroModel/Gen/C19.lean)"""
    f = _facts()
    b = lambda x: "true" if x else "false"
    lst = lambda items: "[\n  " + ",\n  ".join(items) + "]"
    return f"""-- GENERATED by harness/props/c19.py from {f['path']} / client.py (probed on the imported classes) — do not edit
import PyroModel.Uri
import PyroModel.UriPy
namespace Pyro.Gen.C19
open Pyro.Uri
/-- URI.uriRegEx.pattern / .flags (32 = re.UNICODE only, i.e. no flags given) -/
def uriRegex : String := {_lean_str(f['regex'])}
def uriRegexFlags : Nat := {f['flags']}
/-- pattern / flags of the regex URI._parseLocation uses for a bracketed location (literal, or the object its name
    denotes in the real module); "{UNRESOLVED}" when the extractor cannot tell — then only the probes below speak -/
def ipv6Regex : String := {_lean_str(f['v6'])}
def ipv6RegexFlags : Nat := {f['v6flags']}
def nsPortDefault : Nat := {f['nsport']}
/-- are an empty host and the host "./u" refused (URI("PYRO:o@:55"), URI("PYRONAME:x@./u") raise PyroError) ? -/
def guardHost : Bool := {b(f['guard_host'])}
/-- are the tag set {{""}} and tags holding "@" refused (URI("PYROMETA:,"), URI("PYROMETA:b,a@") raise PyroError) ? -/
def guardTags : Bool := {b(f['guard_tags'])}
/-- (input, what URI(input) did with NS_PORT = nsPortDefault, str(uri) with ascending tags, uri.location) -/
def parseProbes : List (Text × Except Err Uri × Text × Option Text) := {lst(f['parse'])}
/-- (a, b, URI(a) == URI(b)) -/
def eqProbes : List (Text × Text × Bool) := {lst(f['eq'])}
/-- (a, is hash(URI(a)) defined) ; did every equal pair above hash alike, with ==/!= consistent both ways -/
def hashProbes : List (Text × Bool) := {lst(f['hashable'])}
def equalHashesAgree : Bool := {b(f['hashes_agree'])}
/-- histories on a real Proxy: (initial uri, ops, uri of each proxy delivered by __getstate__/__setstate__ or copy.copy) -/
def proxyProbes : List (Uri × List ProxyOp × List (Except Err Uri)) := {lst(f['proxy'])}
/-- was Proxy.__getstate__()[0] always a str equal to str(proxy._pyroUri) at the time of the call ? -/
def proxyStateIsText : Bool := {b(f['proxy_text'])}
/-- does every installed serializer deliver a URI object (PYRO, PYRONAME, PYROMETA) as an equal URI — up to the list type
    that a codec without a set type (probed on a plain set) gives the tags ? -/
def uriStateTravels : Bool := {b(f['state_ok'])}

/-! ### transcribed from the source by harness/props/c19_tr.py (shallow embedding over PyroModel/UriPy.lean):
    `URI._parseLocation(self, location, defaultPort)` and the property `URI.location`.
    Locals are substituted away, `v<n>` are binders of the translator, `p<n>` the parameters; private helpers inlined,
    module constants resolved, early-return / else forms normalised.  PyroProps/C19Src.lean proves them equal to the
    hand-written `Uri.parseLocation` / `Uri.renderLoc` for all inputs. -/
{f['src']}
end Pyro.Gen.C19
"""


# ----------------------------------------------------------------------------------------
# generators
# ----------------------------------------------------------------------------------------
UNI_WS = ["\x85", "\xa0", "\u2003", "\u2028", "\u3000"]
UNI_DIG = ["\u0663", "\u0967", "\uff15", "\U0001d7d8"]
UNI_OTHER = ["\xe9", "\xdf", "\u6f22", "\u0301", "\ud800", "\udfff", "\xb2", "\xbd", "\U0001f600", "\x7f", "\x80"]
ASCII_WS = ["\t", "\n", "\x0b", "\x0c", "\r", " ", "\x1c", "\x1d", "\x1e", "\x1f"]
EDIT_ALPHABET = list("@@::,,[]./u%_+- 0159afgzPYROpyroNAMEMETA") + ["\n", "\t", "\x1c", "\r"] + \
    list("%%%{}\\$sd(")      # characters special to %-formatting / str.format / templates


def in_model_domain(s):
    return all(ord(c) < 128 or not (c.isspace() or c.isdecimal()) for c in s)


def _randcase(rng, w):
    m = rng.random()
    if m < 0.4:
        return w
    if m < 0.6:
        return w.lower()
    return "".join(c.lower() if rng.random() < 0.5 else c for c in w)


def _gen_protocol(rng):
    r = rng.random()
    if r < 0.30:
        return _randcase(rng, "PYRO"), "PYRO"
    if r < 0.58:
        return _randcase(rng, "PYRONAME"), "PYRONAME"
    if r < 0.88:
        return _randcase(rng, "PYROMETA"), "PYROMETA"
    p = rng.choice(["PYR", "PYROS", "PYRONAM", "PYRONAMEX", "PYROMETAA", "PYRO1", "PYRO-", "", "PYR\xd6", " PYRO",
                    "PYRO ", "PYROname", "XPYRO", "PYRO\n"])
    return p, "?"


NAME_ATOMS = ["obj", "o", "Pyro.NameServer", "Pyro.Daemon", "obj_7f3a", "a.b-c", "x/y", "$%&", "~!*'()", "a,b", "0",
              "@", "a@", "@a", "a@b", "@@", "a@@", "[x]", "./u:", ":", "\xe9", "\u6f22",
              "%", "%%", "%s", "%d", "obj%d", "100%", "%(x)s", "{}", "{0}", "a\\b", "$", "${x}"]
TAG_ATOMS = ["", "", "a", "b", "tag1", "x.y", "A", "class:device", "a@", "@b", "a@b", "@", "0", ".", "\xe9", "z",
             "%", "%%", "%s", "%d", "{}", "{0}", "\\", "$", "t%20x"]


def _gen_object(rng, proto):
    r = rng.random()
    if proto == "PYROMETA" or (proto == "?" and r < 0.3):
        n = rng.choice([1, 1, 2, 2, 3, 3, 4, 5])
        tags = [rng.choice(TAG_ATOMS) for _ in range(n)]
        if rng.random() < 0.15 and tags:
            tags.append(rng.choice(tags))
        if rng.random() < 0.05:
            tags[rng.randrange(len(tags))] += rng.choice([" ", "\t", "\x1c"])
        return ",".join(tags)
    if r < 0.04:
        return ""
    o = rng.choice(NAME_ATOMS)
    if rng.random() < 0.25:
        o += rng.choice(NAME_ATOMS)
    if rng.random() < 0.04:
        i = rng.randrange(len(o) + 1)
        o = o[:i] + rng.choice(ASCII_WS + UNI_WS) + o[i:]
    return o


def gen_port_text(rng):
    r = rng.random()
    if r < 0.40:
        return str(rng.choice([0, 1, 7, 55, 80, 4444, 9090, 65535, 65536, rng.randrange(100000), 10 ** 20 + 7]))
    if r < 0.50:
        return "0" * rng.randint(1, 3) + str(rng.randrange(1000))
    if r < 0.60:
        return rng.choice("+-") + str(rng.randrange(70000))
    if r < 0.70:
        d = str(rng.randrange(10 ** 7))
        i = rng.randrange(1, len(d)) if len(d) > 1 else 0
        return d[:i] + "_" + d[i:] if i else d
    if r < 0.82:
        ws = [" ", "\t", "\r", "\x0b", "\x0c", "  "]
        core = rng.choice(["5", "-5", "+44", "1_0", "9090"])
        return rng.choice(ws + [""]) + core + rng.choice(ws + [""])
    return rng.choice(["_1", "1_", "1__0", "0x10", "+", "-", " ", "5 5", "+ 5", "- 5", "--5", "+-5", "5a", "a", "5:6", ":",
                       "\x1c5", "5\x1f", "\x1c", "5.0", "1e3", "\u0663", "\uff15\uff15", "\xb2", "\xbd", "\u20035", "5\xa0",
                       "\x1c5\u2003", "5\xe9", "_", "1_2_3", "0_0", "-0", "+0", "00", "\x005"])


HOSTS = ["localhost", "h", "example.com", "127.0.0.1", "10.0.0.1", "0.0.0.0", "a b", " h", "h ", "", "", "./u", "./u", "./u ",
         ".", "./", "./U", "h[", "@", "h@g", "x]", "\xe9.com", "host-1", "h\r", "h\x1c", "abc", "fe80",
         "h%41", "h%", "%s", "%d", "h%%", "h{}", "{0}", "a\\b", "$h", "h%(p)s"]
V6HOSTS = ["::1", "::1", "2001:db8::ff00:42:8329", "fe80::1%25", "fe80::1%eth0", "abc", "1", "::", "%", ":", "", "g::1",
           "::1 ", "[::1]", "AB:cd", "::ffff:10.0.0.1", "0:0",
           "fe80::1%2", "fe80::1%2", "fe80::1%%", "fe80::1%d", "::1%5", "%%", "fe80::1%{}"]
SOCKS = ["sock", "/tmp/pyro.sock", "a b", "", "x:y", ":", "s@t", "\xe9", "sock\t", "9090", "./u:x", "[x]",
         "/tmp/app%d.sock", "a%%b", "%s", "100%", "%", "{0}", "{}.sock", "a\\b", "$x", "%(n)s"]


def _gen_location(rng):
    """returns '' (no location part) or '@...'"""
    r = rng.random()
    if r < 0.14:
        return ""
    if r < 0.50:
        h = rng.choice(HOSTS)
        q = rng.random()
        if q < 0.68:
            return "@" + h + ":" + gen_port_text(rng)
        if q < 0.78:
            return "@" + h + ":"
        return "@" + h
    if r < 0.72:
        h = rng.choice(V6HOSTS)
        q = rng.random()
        loc = "[" + h + "]"
        if q < 0.05:
            loc = "[" + loc + "]"
        q = rng.random()
        if q < 0.55:
            loc += ":" + gen_port_text(rng)
        elif q < 0.70:
            loc += rng.choice(["x", ":", ":x", " ", "]", ":5x", ":-5", ": 5", "5"])
        return "@" + loc
    if r < 0.86:
        return "@./u:" + rng.choice(SOCKS)
    return "@" + "".join(rng.choice(EDIT_ALPHABET) for _ in range(rng.randint(0, 6)))


def _edit(rng, s):
    alphabet = EDIT_ALPHABET if rng.random() < 0.9 else UNI_WS + UNI_DIG + UNI_OTHER
    k = rng.random()
    i = rng.randrange(len(s) + 1)
    if k < 0.4 or not s:
        return s[:i] + rng.choice(alphabet) + s[i:]
    i = min(i, len(s) - 1)
    if k < 0.7:
        return s[:i] + s[i + 1:]
    if k < 0.9:
        return s[:i] + rng.choice(alphabet) + s[i + 1:]
    return s[:i] + s[i] + s[i:]


def gen_uri(rng):
    p, proto = _gen_protocol(rng)
    colon = ":" if rng.random() < 0.96 else rng.choice(["", "::", ";", " :"])
    s = p + colon + _gen_object(rng, proto) + _gen_location(rng)
    r = rng.random()
    if r < 0.07:
        s += "\n"
    elif r < 0.10:
        s += rng.choice(["\n\n", " ", "\r\n", "\r", "\n ", "\x1c"])
    for _ in range(rng.choice([0, 0, 0, 0, 1, 1, 2])):
        s = _edit(rng, s)
    return s


def gen_int_text(rng):
    s = gen_port_text(rng)
    for _ in range(rng.choice([0, 0, 1, 2])):
        alphabet = list("0123456789_+- \t\r\x0b\x0c\x1c\x1fa") + ["\xb2", "\xe9"]
        i = rng.randrange(len(s) + 1)
        s = s[:i] + rng.choice(alphabet) + s[i:]
    return s


# ----------------------------------------------------------------------------------------
# the real code, canonicalised
# ----------------------------------------------------------------------------------------
class OSet(set):
    """a set that is iterated in a chosen order: makes `",".join(self.object)` of the REAL __str__ deterministic"""

    def __init__(self, order):
        super().__init__(order)
        self._order = list(order)

    def __iter__(self):
        return iter(self._order)


ERR_KINDS = [("invalid uri (protocol)", "protocol"), ("invalid uri (location)", "location"),
             ("invalid uri (metadata)", "metadata"), ("invalid ipv6 address: enclosed", "brackets"),
             ("invalid ipv6 address: the part", "ipv6"), ("invalid port in uri", "port"), ("invalid uri", "invalid")]


def err_kind(x):
    msg = str(x)
    for prefix, kind in ERR_KINDS:
        if msg.startswith(prefix):
            return kind
    return "other:" + msg[:40]


def _mods():
    common.repo_on_path()
    from Pyro5 import core, errors, config
    return core.URI, errors, config


def str_in_order(URI, u, order):
    """the real __str__ with the tag set iterated in `order` (None = as the interpreter iterates it)"""
    if order is None or not isinstance(u.object, (set, frozenset)):
        return str(u)
    v = URI(u)
    v.object = OSet(order)
    return str(v)


def _txt(x):
    return "N" if x is None else cps(x)


def real_line(URI, errors, s, perm_rng):
    """canonical line for the `p` op; returns (line, uri or None, perm)"""
    try:
        u = URI(s)
    except errors.PyroError as x:
        return "err " + err_kind(x), None, []
    except Exception as x:          # anything else is not a behaviour the model has
        return "exc " + type(x).__name__, None, []
    proto, obj, sock, host, port = u.__getstate__()
    perm = []
    if isinstance(obj, (set, frozenset)):
        tags = sorted(obj)
        if len(tags) > 1 and perm_rng is not None:
            perm = list(range(len(tags)))
            perm_rng.shuffle(perm)
        order = [tags[i] for i in perm] if perm else tags
        o = "m:" + ";".join(cps(t) for t in tags)
    else:
        o = "s:" + cps(obj)
        order = None
    try:
        loc = _txt(u.location)
    except Exception as x:            # the text form must be computable: shown in the line, flagged by the oracle
        loc = "exc " + type(x).__name__
    try:
        text = cps(str_in_order(URI, u, order))
    except Exception as x:
        text = "exc " + type(x).__name__
    line = "ok proto=%s obj=%s sock=%s host=%s port=%s loc=%s str=%s" % (
        cps(proto), o, _txt(sock), _txt(host), "N" if port is None else str(port), loc, text)
    return line, u, perm


def canon_state(u):
    proto, obj, sock, host, port = u.__getstate__()
    if isinstance(obj, (set, frozenset, list, tuple)):
        obj = ["set"] + sorted(obj)
    return [proto, obj, sock, host, port]


def failure_class(u):
    """stable class of an accepted URI whose text form does not come back (root cause, read off the state)"""
    proto, obj, sock, host, port = u.__getstate__()
    if host == "":
        return "empty-host"
    if host == "./u":
        return "sockprefix-host"
    if isinstance(obj, (set, frozenset)):
        if not any(obj):
            return "meta-empty-tags"
        if any("@" in t for t in obj):
            return "meta-at-tag"
    return "reparse-other"


# ----------------------------------------------------------------------------------------
# D: the property, on the real code only
# ----------------------------------------------------------------------------------------
def _orders(u, rng):
    obj = u.object
    if not isinstance(obj, (set, frozenset)):
        return [None]
    tags = sorted(obj)
    if len(tags) <= 3:
        return [None] + [list(p) for p in itertools.permutations(tags)]
    out = [None, tags, tags[::-1]]
    for _ in range(3):
        t = tags[:]
        rng.shuffle(t)
        out.append(t)
    return out


def _natural(u):
    """the order in which the interpreter iterates the tag set of u (None for str objects)"""
    return list(u.object) if isinstance(u.object, (set, frozenset)) else None


def check_reparse(ctx, URI, errors, s, u, rng, case):
    """URI(str(u)) is accepted, equals u, prints the same; for every iteration order of the tag set tried"""
    bad = 0
    for order in _orders(u, rng):
        ctx.evaluations += 1
        try:
            text = str_in_order(URI, u, order)
        except Exception as x:
            # an accepted URI has no text form at all ("yields a URI whose text form is accepted again")
            c = dict(case)
            c["order"] = order
            ctx.fail("str-raises", "URI(%r) = %r is accepted but str(uri) raises %s: %s"
                     % (s, u.__getstate__(), type(x).__name__, x), c)
            bad += 1
            break
        what = None
        try:
            v = URI(text)
        except errors.PyroError as x:
            what = "is rejected (%s)" % x
        else:
            if not (v == u) or v != u:
                what = "parses to a different URI %r" % (v.__getstate__(),)
            elif str_in_order(URI, v, order if order is not None else _natural(u)) != text:
                # fixed point for the SAME iteration order (the order of a set is not part of the URI)
                what = "is not a fixed point: prints as %r" % str_in_order(URI, v, order if order is not None else _natural(u))
            else:
                try:
                    hu = hash(u)
                except TypeError:
                    hu = None
                if hu is not None and hash(v) != hu:
                    what = "parses to an equal URI with a different hash"
        if what:
            c = dict(case)
            c["order"] = order
            ctx.fail(failure_class(u), "URI(%r) = %r prints as %r which %s" % (s, u.__getstate__(), text, what), c)
            bad += 1
            break
    return bad


def _variant(rng, s):
    """a string that should denote the same URI, or a nearby different one"""
    r = rng.random()
    i = s.find(":")
    if r < 0.3 and i > 0:
        return _randcase(rng, s[:i].upper()) + s[i:]
    if r < 0.45:
        return s + "\n" if not s.endswith("\n") else s[:-1]
    j = s.rfind(":")
    if r < 0.7 and j > i >= 0 and s[j + 1:].isascii() and s[j + 1:].strip(" \t\r").isdigit():
        n = int(s[j + 1:])
        return s[:j + 1] + rng.choice([" %d" % n, "%d " % n, "+%d" % n, "0%d" % n, "%d" % (n + 1), "%d" % n])
    return _edit(rng, s)


def check_pair(ctx, URI, errors, s, u, rng, case):
    """== is equality of the visible state; equal URIs hash alike; different locations never compare equal"""
    t = _variant(rng, s)
    try:
        v = URI(t)
    except Exception:
        return
    ctx.evaluations += 1
    same = canon_state(u) == canon_state(v)
    eq = (u == v)
    c = dict(case)
    c["other"] = t
    if eq != same or (u != v) == eq or (v == u) != eq:
        ctx.fail("eq-not-state", "URI(%r) == URI(%r) is %r but the states are %r / %r" % (s, t, eq, canon_state(u), canon_state(v)), c)
        return
    if u.location != v.location and eq:
        ctx.fail("eq-ignores-location", "URI(%r) == URI(%r) although the locations differ (%r / %r)" % (s, t, u.location, v.location), c)
    if eq:
        try:
            hu, hv = hash(u), hash(v)
        except TypeError:
            ctx.count("hash:unhashable-set-object")
            return
        if hu != hv:
            ctx.fail("eq-hash-differs", "URI(%r) == URI(%r) but their hashes differ" % (s, t), c)
    ctx.count("pair:equal" if eq else "pair:unequal")


def _designates(v, u):
    return hasattr(v, "__getstate__") and canon_state(v) == canon_state(u)


def _transport_sig(u, kind):
    """root-cause class when the URI is one whose text form does not come back, else the transport that lost it"""
    cls = failure_class(u)
    return cls if cls != "reparse-other" else "transport-" + kind


_KEEPS_SETS = {}


def codec_keeps_sets(name, ser):
    """does this serializer deliver a plain set of strings as an equal set? (its own type mapping, C01) — probed"""
    if name not in _KEEPS_SETS:
        try:
            r = ser.loads(ser.dumps({"a", "b"}))
            _KEEPS_SETS[name] = type(r) in (set, frozenset) and r == {"a", "b"}
        except Exception:
            _KEEPS_SETS[name] = False
    return _KEEPS_SETS[name]


def uri_arrival_difference(URI, name, ser, v, u):
    """a URI object travels as its state tuple (C19_state_transport): through a codec that keeps sets the receiver must
    hold an EQUAL uri (==, same hashability, object of the same type, equal to a fresh parse of its own text);
    through a codec without a set type (json, msgpack) the tags may arrive in the codec's list type, nothing else differs"""
    if not isinstance(v, URI):
        return "arrives as %r" % (v,)
    if codec_keeps_sets(name, ser) or not isinstance(u.object, (set, frozenset)):
        what = c19_proxy.uri_difference(URI, v, u)
        if what:
            return "arrives as a URI that " + what
        try:
            if URI(str(v)) != v:
                return "arrives as a URI that is unequal to URI(str(it))"
        except Exception as x:
            return "arrives as a URI whose text form is refused (%s)" % x
        return None
    if not _designates(v, u):
        return "arrives as %r" % (v.__getstate__(),)
    return None


def check_transport(ctx, URI, errors, s, u, case, ns):
    """a URI, or a proxy holding it, through each serializer (as value / call argument / keyword / nested) and through
    the name server"""
    from Pyro5 import serializers, client
    for k, name in enumerate(sorted(serializers.serializers)):
        ser = serializers.serializers[name]
        ctx.evaluations += 1
        for kind in ("uri", "proxy"):
            what = None
            shapes = ["value", c19_proxy.SHAPES[1 + (ctx.evaluations + k) % 4]] if kind == "uri" else ["value"]
            for shape in shapes:
                try:
                    v = c19_proxy.transport(ser, u if kind == "uri" else client.Proxy(URI(u)), shape)
                except errors.PyroError as x:
                    what = "cannot be rebuilt by the receiver (%s)" % x
                    break
                except Exception as x:  # the codec refuses the value (e.g. a lone surrogate): nothing is transported
                    ctx.count("transport:%s-refuses-%s" % (name, type(x).__name__))
                    continue
                if kind == "proxy":
                    # a proxy carries the uri as text: the receiver must hold an EQUAL uri of the same shape
                    what = c19_proxy.uri_difference(URI, v._pyroUri, u)
                elif shape != "value" and not isinstance(v, URI):
                    ctx.count("transport:%s/%s-uri-not-rebuilt" % (name, shape))
                else:
                    what = uri_arrival_difference(URI, name, ser, v, u)
                if what:
                    break
            if what:
                c = dict(case)
                c["via"] = "%s/%s" % (name, kind)
                ctx.fail(_transport_sig(u, kind), "URI(%r) = %r sent as %s (%s) through %s %s" % (s, u.__getstate__(), kind, shape, name, what), c)
                return
    ctx.evaluations += 1
    for how, val in (("uri", u), ("text", s)):
        what = None
        try:
            ns.register("c19.obj", val)
            v = ns.lookup("c19.obj")
            if not _designates(v, u):
                what = "is looked up as %r" % (v.__getstate__(),)
        except errors.PyroError as x:
            what = "cannot be looked up again (%s)" % x
        if what:
            c = dict(case)
            c["via"] = "nameserver/" + how
            ctx.fail(_transport_sig(u, "nameserver"), "URI(%r) = %r registered in the name server as %s %s" % (s, u.__getstate__(), how, what), c)
            return
    ctx.count("transport:ok")


# ----------------------------------------------------------------------------------------
# C + D driver loop
# ----------------------------------------------------------------------------------------
def _corpus():
    d = os.path.join(common.VERIF, "corpus", "C19")
    out = []
    if os.path.isdir(d):
        for f in sorted(os.listdir(d)):
            if f.endswith(".json"):
                c = json.load(open(os.path.join(d, f)))
                if "s" not in c:        # proxy-history witnesses are run by c19_proxy.history_suite
                    continue
                out.append({"s": c["s"], "nsport": c.get("nsport", 9090), "corpus": f})
    return out


def _minimise(URI, errors, s, sig):
    """greedy character deletion keeping the failure class (for the replay file only)"""
    def fails(t):
        try:
            u = URI(t)
        except Exception:
            return False
        if failure_class(u) != sig and sig != "str-raises":
            return False
        for order in ([None] if not isinstance(u.object, set) else [None, sorted(u.object), sorted(u.object)[::-1]]):
            try:
                text = str_in_order(URI, u, order)
            except Exception:
                return True
            try:
                if URI(text) != u:
                    return True
            except errors.PyroError:
                return True
        return False
    if not fails(s):
        return s
    changed = True
    while changed:
        changed = False
        for i in range(len(s)):
            t = s[:i] + s[i + 1:]
            if fails(t):
                s, changed = t, True
                break
    return s


def _run(ctx, name, n, do_model, transport_every):
    URI, errors, config = _mods()
    from Pyro5 import nameserver
    rng = ctx.sub_rng(name)
    def cases():
        for c in _corpus():
            yield c
        for _ in range(n):
            yield {"s": gen_uri(rng), "nsport": rng.choice(NS_PORTS)}

    def flush():
        if do_model and lines:
            outs = common.run_driver("drv_c19", lines)
            ctx.corr_cases += len(lines)
            for c, l, r, out in zip(kept, lines, reals, outs):
                # answer = <hand-written model> ## <source-derived functions (transcribed _parseLocation / location)>
                m, _, src = out.partition(" ## ")
                if r != m and len(ctx.mismatches) < 200:
                    ctx.mismatch("parse", {"line": l, "case": c}, r[:400], m[:400])
                if r != src and len(ctx.mismatches) < 200:
                    ctx.mismatch("src", {"line": l, "case": c}, r[:400], src[:400])
        del lines[:], reals[:], kept[:]
    old_port = config.NS_PORT
    ns = nameserver.NameServer()
    lines, reals, kept = [], [], []
    seen_fail = set()
    try:
        for idx, c in enumerate(cases()):
            if len(lines) >= 50000:
                flush()
            s = c["s"]
            config.NS_PORT = c["nsport"]
            crng = random.Random(rng.getrandbits(48))
            domain = in_model_domain(s)
            line, u, perm = real_line(URI, errors, s, crng)
            ctx.count("stream:model" if domain else "stream:python-only")
            if u is None:
                ctx.count("reject:" + line.split(" ", 1)[1][:24])
            else:
                st = u.__getstate__()
                lk = "sock" if st[2] is not None else "none" if st[3] is None else "v6" if ":" in st[3] else "tcp"
                ctx.count("accept:%s/%s" % (st[0], lk))
                ctx.nontriv(json.dumps([canon_state(u), c["nsport"], perm], ensure_ascii=True))
                if len(ctx.samples) < 6 and idx % 7 == 3:
                    ctx.sample({"input": s, "state": canon_state(u), "text": line.rsplit(" str=", 1)[-1]})
            if do_model and domain:
                lines.append("p %d %s %s" % (c["nsport"], cps(s), ",".join(map(str, perm)) if perm else "-"))
                reals.append(line)
                kept.append(c)
            # ---- D: the property itself on the real code (model not consulted)
            if u is not None:
                nbefore = len(ctx.failures)
                bad = check_reparse(ctx, URI, errors, s, u, crng, c)
                if not bad:
                    check_pair(ctx, URI, errors, s, u, crng, c)
                    if transport_every and (idx % transport_every == 0 or "corpus" in c):
                        check_transport(ctx, URI, errors, s, u, c, ns)
                elif transport_every and "corpus" in c:
                    try:
                        check_transport(ctx, URI, errors, s, u, c, ns)
                    except Exception:          # the text form already failed above (reported there)
                        pass
                for f in ctx.failures[nbefore:]:
                    if f["signature"] not in seen_fail:
                        seen_fail.add(f["signature"])
                        f["case"]["minimal"] = _minimise(URI, errors, s, f["signature"])
        # keep the failure list short: one (the first, minimised) witness per signature and 'via'
        uniq, out = set(), []
        for f in ctx.failures:
            k = (f["signature"], f["case"].get("via"))
            if k not in uniq:
                uniq.add(k)
                out.append(f)
        out.sort(key=lambda f: f["case"].get("via") is not None)     # one witness per root cause first
        ctx.failures[:] = out
    finally:
        config.NS_PORT = old_port
    flush()


def _eq_suite(ctx, n):
    URI, errors, config = _mods()
    rng = ctx.sub_rng("eq")
    lines, reals, kept = [], [], []
    old_port = config.NS_PORT
    try:
        tries = 0
        while len(lines) < n and tries < 20 * n:
            tries += 1
            a = gen_uri(rng)
            b = _variant(rng, a)
            nsport = rng.choice(NS_PORTS)
            if not (in_model_domain(a) and in_model_domain(b)):
                continue
            config.NS_PORT = nsport
            try:
                r = "eq %d" % (URI(a) == URI(b))
            except errors.PyroError:
                if rng.random() < 0.9:
                    continue
                r = "err"
            lines.append("e %d %s %s" % (nsport, cps(a), cps(b)))
            reals.append(r)
            kept.append({"a": a, "b": b, "nsport": nsport})
            ctx.count("eqsuite:" + r)
    finally:
        config.NS_PORT = old_port
    outs = common.run_driver("drv_c19", lines)
    ctx.corr_cases += len(lines)
    for c, l, r, m in zip(kept, lines, reals, outs):
        if r != m:
            ctx.mismatch("eq", {"line": l, "case": c}, r, m)


def _int_suite(ctx, n):
    """int() on port texts vs the model's pyInt (the model of an external: validated, not proved)"""
    rng = ctx.sub_rng("int")
    lines, reals, kept = [], [], []
    for _ in range(n):
        s = gen_int_text(rng)
        if not in_model_domain(s) or not s:
            continue
        try:
            r = "ok %d" % int(s)
        except ValueError:
            r = "err"
        lines.append("i " + cps(s))
        reals.append(r)
        kept.append({"text": s})
        ctx.count("int:" + r[:3])
    outs = common.run_driver("drv_c19", lines)
    ctx.corr_cases += len(lines)
    for c, l, r, m in zip(kept, lines, reals, outs):
        if r != m:
            ctx.mismatch("int", {"line": l, "case": c}, r, m)


def _ploc_suite(ctx, n):
    """the real URI._parseLocation(location, defaultPort) on a blank instance vs its transcription (driver op `l`):
    locations from the grammar (incl. None / ''), 0-2 edits; defaultPort None, 0 and positive ints"""
    URI, errors, config = _mods()
    rng = ctx.sub_rng("ploc")
    lines, reals, kept = [], [], []
    fixed = [(None, None), (None, 9090), ("", None), ("", 0), ("h", None), ("h", 0), ("h:", 7), ("[::1]", None),
             ("[::1]:", 5), ("./u:s", None), ("./u", 9090), (":5", None), ("h:0", 1)]
    for i in range(n):
        if i < len(fixed):
            loc, dp = fixed[i]
        else:
            loc = _gen_location(rng)[1:]
            for _ in range(rng.choice([0, 0, 0, 1, 1, 2])):
                loc = _edit(rng, loc)
            if rng.random() < 0.03:
                loc = None
            dp = rng.choice([None, None, 0, 1, 9090, 65535])
        if loc is not None and not in_model_domain(loc):
            continue
        u = URI.__new__(URI)
        u.sockname = u.host = u.port = None
        try:
            u._parseLocation(loc, dp)
            port = u.port
            ps = "N" if port is None else str(port) if type(port) is int else "s:" + cps(port) if isinstance(port, str) else "?"
            r = "ok sock=%s host=%s port=%s" % (_txt(u.sockname), _txt(u.host), ps)
        except errors.PyroError as x:
            r = "err " + err_kind(x)
        except Exception as x:
            r = "exc " + type(x).__name__
        lines.append("l %s %s" % ("N" if dp is None else dp, "N" if loc is None else cps(loc)))
        reals.append(r)
        kept.append({"location": loc, "defaultPort": dp})
        ctx.count("ploc:" + r.split(" ")[0] + ("/" + r.split(" ")[1] if not r.startswith("ok") else ""))
    outs = common.run_driver("drv_c19", lines)
    ctx.corr_cases += len(lines)
    for c, l, r, m in zip(kept, lines, reals, outs):
        if r != m and len(ctx.mismatches) < 200:
            ctx.mismatch("ploc", {"line": l, "case": c}, r, m)


def correspondence(ctx):
    _run(ctx, "corr", ctx.n(40000, 2000000), True, ctx.n(40, 60))
    _ploc_suite(ctx, ctx.n(4000, 100000))
    _eq_suite(ctx, ctx.n(3000, 100000))
    _int_suite(ctx, ctx.n(6000, 200000))
    c19_proxy.history_suite(ctx, "proxy", ctx.n(600, 12000), True)
    c19_proxy.bind_histories(ctx, ctx.n(3, 12))


def oracle(ctx):
    # the oracle of step D runs inside _run on the same cases (and on the Python-only stream);
    # in search mode it runs again on fresh cases, without the model
    if ctx.search_mode:
        _run(ctx, "search", ctx.n(40000, 400000), False, 25)
        c19_proxy.history_suite(ctx, "proxy-search", ctx.n(1500, 12000), False)
        c19_proxy.bind_histories(ctx, ctx.n(3, 12))


def replay(ctx, case):
    f = case.get("failing_input") or {}
    c = f.get("case")
    if not c:
        print("replay file names no failing input:", case.get("no_longer_checks"))
        return 1
    if c.get("history") is not None:
        return c19_proxy.replay_history(c)
    URI, errors, config = _mods()
    old = config.NS_PORT
    config.NS_PORT = c.get("nsport", 9090)
    try:
        bad = 0
        for s in [c["s"]] + ([c["minimal"]] if c.get("minimal") and c["minimal"] != c["s"] else []):
            try:
                u = URI(s)
            except errors.PyroError as x:
                print("URI(%r) is rejected: %s" % (s, x))
                continue
            orders = [c["order"]] if c.get("order") else _orders(u, random.Random(0))
            for order in orders:
                try:
                    text = str_in_order(URI, u, order)
                except Exception as x:
                    print("URI(%r) = %r ; str(uri) raises %s: %s" % (s, u.__getstate__(), type(x).__name__, x))
                    bad = 1
                    break
                try:
                    v = URI(text)
                    res = "parses to %r (%s)" % (v.__getstate__(), "equal" if v == u else "NOT equal")
                    ok = v == u and str_in_order(URI, v, order) == text
                except errors.PyroError as x:
                    res, ok = "is rejected: %s" % x, False
                print("URI(%r) = %r ; text form %r %s" % (s, u.__getstate__(), text, res))
                if not ok:
                    bad = 1
                    break
            if c.get("other"):
                try:
                    v = URI(c["other"])
                    print("URI(%r) == URI(%r): %r ; states %r / %r" % (s, c["other"], u == v, canon_state(u), canon_state(v)))
                    if (u == v) != (canon_state(u) == canon_state(v)):
                        bad = 1
                except errors.PyroError:
                    pass
            if c.get("via"):
                from Pyro5 import nameserver

                class _C:
                    failures = []
                    evaluations = 0

                    def fail(self, sig, desc, case):
                        self.failures.append(desc)

                    def count(self, k):
                        pass
                cc = _C()
                check_transport(cc, URI, errors, s, u, {}, nameserver.NameServer())
                for d in cc.failures:
                    print(d)
                    bad = 1
        print("VIOLATION reproduced" if bad else "not reproduced")
        return 1 if bad else 0
    finally:
        config.NS_PORT = old
