"""c10_retry.py — oracle suite (model-independent): the client iterator under a retry setting with communication faults
during an item fetch.

Real `Daemon` / `DaemonObject` / `_StreamResultIterator` on the virtual clock (the rig of c10.py); the proxy carries
`_pyroMaxRetries` in {0, 1, 2} (and `config.MAX_RETRIES` has the same value, as `Proxy.__init__` would copy it).  Faults at a
fetch round trip, the way `Proxy._pyroInvoke` behaves on them (client.py: a CommunicationError releases the connection and
is re-raised):
  reply-lost   the request reached the daemon (the server-side iterator WAS advanced), the connection drops before the reply
  timeout      same, but the client sees TimeoutError
  request-lost the connection drops before the request reaches the daemon
A fetch is not idempotent.  Property clause judged here (C10: "none lost, repeated …"): a `next(it)` that RETURNS a value
returns the one and only reply the server produced for this stream during that call; whatever the server consumed in a call
whose reply was lost must surface as an error (or the end of the stream) of that same call — never as a silent gap.
"""
import common
from props import c10


class RetryProxy(c10.FakeProxy):
    def __init__(self, world, retries, log):
        c10.FakeProxy.__init__(self, world, 0)
        self._pyroMaxRetries = retries
        self.fault = None            # fault of the next fetch round trip
        self.log = log               # replies the server produced (per fetch that reached it)

    def _pyroInvoke(self, methodname, vargs, kwargs, flags=0, objectId=None):
        from Pyro5 import errors
        if methodname != "get_next_stream_item":
            return c10.FakeProxy._pyroInvoke(self, methodname, vargs, kwargs, flags=flags, objectId=objectId)
        conn = self._prepare()
        fault, self.fault = self.fault, None
        if fault == "request-lost":
            self._pyroRelease()
            raise errors.ConnectionClosedError("connection lost")
        try:
            r = self.world.next(vargs[0], conn)
            self.log.append("item%r" % (r,))
        except Exception as x:
            self.log.append(c10.canon_exc(x))
            if fault is None:
                raise
            r = None
        if fault == "reply-lost":
            self._pyroRelease()
            raise errors.ConnectionClosedError("receiving: connection lost")
        if fault == "timeout":
            self._pyroRelease()
            raise errors.TimeoutError("receiving: timeout")
        return r

    def __copy__(self):
        return RetryProxy(self.world, self._pyroMaxRetries, [])


def gen_case(rng):
    n = rng.randint(2, 7)
    items = [["v", rng.randrange(100)] for _ in range(n)]
    if rng.random() < 0.25:
        items[rng.randrange(1, n)] = ["r", rng.randrange(9)]
    steps = []
    for _ in range(rng.randint(2, n + 2)):
        steps.append(rng.choice([None, None, "reply-lost", "timeout", "request-lost"]))
    return {"retries": rng.choice([0, 1, 1, 2, 2]), "linger": rng.choice([0, 4, 4, 30, -3]), "lifetime": rng.choice([0, 0, 50]),
            "kind": rng.choice(["gen", "iter", "list"]), "items": items, "steps": steps, "tick": rng.choice([0, 1, 3])}


def run_case(world, c):
    """returns list of (signature, description)"""
    from Pyro5 import config
    saved_retries = config.MAX_RETRIES
    config.ITER_STREAMING, config.ITER_STREAM_LIFETIME, config.ITER_STREAM_LINGER = True, c["lifetime"], c["linger"]
    config.MAX_RETRIES = c["retries"]
    world.reset(1000)
    log = []
    px = RetryProxy(world, c["retries"], log)
    fails = []
    it = None
    try:
        it = px.call((c["items"], c["kind"]))
        want = ["item%d" % v if k == "v" else "raised%d" % v for k, v in c["items"]]
        trace = []
        for fault in c["steps"]:
            px.fault = fault
            before = len(log)
            try:
                v = next(it)
                out = "item%r" % (v,)
                returned = True
            except BaseException as x:     # noqa: the iterator's own exception / StopIteration / communication errors
                if not isinstance(x, (Exception, StopIteration)):
                    raise
                out = c10.canon_exc(x)
                returned = False
            during = log[before:]
            trace.append((fault, out, during))
            if returned and during != [out]:
                fails.append(("retry:item-lost",
                              "next() with _pyroMaxRetries=%d and fault %r at the fetch returned %s without any error, but the server "
                              "produced %s for this stream during that call (source %s): an item was silently lost"
                              % (c["retries"], fault, out, during, want)))
                break
            world.clock.now += c["tick"]
        # the values returned, in order, are a subsequence of the source that only skips replies whose loss was reported
        return fails, trace
    finally:
        config.MAX_RETRIES = saved_retries
        if it is not None:
            it.proxy = None            # neutralise __del__


def retry_faults(ctx, n):
    rng = ctx.sub_rng("retry-faults")
    world, restore = c10.make_world()
    try:
        cases = [(c["case"], f) for f, c in c10._corpus("retry")] + [(gen_case(rng), None) for _ in range(n)]
        for c, origin in cases:
            fails, trace = run_case(world, c)
            ctx.evaluations += 1
            ctx.count("retry:retries=%d/linger%s" % (c["retries"], "+" if c["linger"] > 0 else "0"))
            for fault, out, during in trace:
                if fault:
                    ctx.count("retry:fault=%s->%s" % (fault, out.rstrip("0123456789")))
            if c["retries"] > 0 and any(f in ("reply-lost", "timeout") for f, _, _ in trace):
                ctx.nontriv("retry:" + repr(sorted(c.items())))
            for sig, desc in fails:
                ctx.fail(sig, desc + ("" if origin is None else " (corpus %s)" % origin), {"kind": "retry", "case": c})
    finally:
        restore()


def replay_case(c):
    world, restore = c10.make_world()
    try:
        fails, trace = run_case(world, c["case"])
        for t in trace:
            print("fault=%r -> client: %s   server produced during the call: %s" % t)
        for sig, desc in fails:
            print("VIOLATION reproduced [%s]: %s" % (sig, desc))
        return 1 if fails else 0
    finally:
        restore()
