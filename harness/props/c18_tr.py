"""
C18 — translator: python `ast` of svr_threads.Pool.process / notify_done / close  ->  Lean source text (shallow embedding
over Pyro.Pool.St with the combinators of lean/PyroModel/PoolSrc.lean), regenerated on every run.

SOUND BY REFUSAL: every statement kind, call target, attribute, operator that is not explicitly understood below raises
`Untranslatable`.  Silently skipped are only: docstrings, `log.<level>(...)` calls whose arguments are free of calls with
effects, type annotations, `pass`, comments.

Normal form (so that harmless refactorings give the SAME text, and the Lean proof about that text keeps closing):
  * continuation-passing decision tree: the statements after an `if` are copied into both branches, so `if c: A; return`,
    `if c: A else: B`, elif chains and early returns of helpers are one form;
  * `self._helper(...)` / `Pool._helper(...)` / `self.num_workers()` (methods of the same class, also staticmethods) are
    inlined at the call site, `return v` continues the caller with `v`;
  * locals / parameters do not show: values produced by the source are Lean binders v0, v1, ... numbered by binder depth;
    a pure expression bound to a local is substituted where it is used (refused if the pool state changed in between);
  * `config.THREADPOOL_SIZE` / `config.THREADPOOL_SIZE_MIN` are the parameters `mx` / `mn`; other module-level names are
    resolved through the real module (int constants -> literal, classes -> which exception of the model);
  * `a >= b` = `b <= a`, `a > b` = `b < a`, `not x in y` = `x not in y`, `if x in S: S.remove(x)` = `S.discard(x)`.
"""
import ast


class Untranslatable(Exception):
    pass


SETS = ("idle", "busy")


class Sym:
    def __init__(self, kind, text=None, ver=None):
        self.kind, self.text, self.ver = kind, text, ver       # kind: wid job none wset bool nat cur self pool

    def __repr__(self):
        return "Sym(%s,%s)" % (self.kind, self.text)


NONE = Sym("none")


class Tr:
    def __init__(self, module, cls_node, cls_name="Pool"):
        self.mod = module
        self.cls = cls_node
        self.cls_name = cls_name
        self.methods = {f.name: f for f in cls_node.body if isinstance(f, ast.FunctionDef)}
        self.ver = 0
        self.kind = None

    # ------------------------------------------------------------------ helpers
    def bump(self):
        self.ver += 1

    def resolve(self, node):
        """value of a module-level name / dotted name through the REAL module, or Untranslatable"""
        if isinstance(node, ast.Name):
            if not hasattr(self.mod, node.id):
                raise Untranslatable("unknown name %s" % node.id)
            return getattr(self.mod, node.id)
        if isinstance(node, ast.Attribute):
            base = self.resolve(node.value)
            if not hasattr(base, node.attr):
                raise Untranslatable("unknown attribute %s" % ast.unparse(node))
            return getattr(base, node.attr)
        raise Untranslatable("not a name: %s" % ast.unparse(node))

    def is_self_attr(self, node, env, names):
        return (isinstance(node, ast.Attribute) and isinstance(node.value, ast.Name)
                and env.get(node.value.id) is not None and env[node.value.id].kind == "self" and node.attr in names)

    def fresh(self, env):
        n = env["#n"]
        return "v%d" % n, n + 1

    def small_number(self, node, env):
        """a duration: a numeric literal, or a module-level / dotted name resolved through the REAL module to its value;
        must be a number in [0, 5] (a bounded wait); None otherwise"""
        if isinstance(node, ast.Constant):
            v = node.value
        elif isinstance(node, (ast.Name, ast.Attribute)):
            root = node
            while isinstance(root, ast.Attribute):
                root = root.value
            if not isinstance(root, ast.Name) or root.id in env:
                return None
            try:
                v = self.resolve(node)
            except Untranslatable:
                return None
        else:
            return None
        if isinstance(v, bool) or not isinstance(v, (int, float)) or not (0 <= v <= 5):
            return None
        return v

    def is_log(self, call):
        f = call.func
        if not (isinstance(f, ast.Attribute) and isinstance(f.value, ast.Name) and f.value.id == "log"):
            return False
        if getattr(self.mod, "log", None) is None or not hasattr(self.mod.log, f.attr):
            return False
        for a in list(call.args) + [k.value for k in call.keywords]:
            for n in ast.walk(a):
                if isinstance(n, ast.Call):
                    g = n.func
                    if not (isinstance(g, ast.Name) and g.id in ("len", "id", "str", "repr")):
                        raise Untranslatable("call inside a log statement: %s" % ast.unparse(n))
                if isinstance(n, (ast.NamedExpr, ast.Await, ast.Yield, ast.YieldFrom, ast.Lambda)):
                    raise Untranslatable("effect inside a log statement")
        return True

    # ------------------------------------------------------------------ pure expressions over the pool state `s`
    def pure(self, node, env):
        """-> Sym of kind bool / nat / wid / job / none / wset / cur, text mentions the CURRENT state `s`"""
        if isinstance(node, ast.Constant):
            if node.value is None:
                return NONE
            if isinstance(node.value, bool):
                return Sym("bool", "true" if node.value else "false", None)
            if isinstance(node.value, int) and node.value >= 0:
                return Sym("nat", str(node.value), None)
            raise Untranslatable("constant %r" % (node.value,))
        if isinstance(node, ast.Name):
            if node.id in env:
                v = env[node.id]
                if v.ver is not None and v.ver != self.ver:
                    raise Untranslatable("local %s was computed from an earlier pool state" % node.id)
                return v
            val = self.resolve(node)
            if isinstance(val, bool):
                return Sym("bool", "true" if val else "false")
            if isinstance(val, int) and val >= 0:
                return Sym("nat", str(val))
            raise Untranslatable("module name %s of unsupported value" % node.id)
        if isinstance(node, ast.Attribute):
            if self.is_self_attr(node, env, ("closed",)):
                return Sym("bool", "s.closed", self.ver)
            if self.is_self_attr(node, env, SETS):
                return Sym("liveset", node.attr, self.ver)
            if isinstance(node.value, ast.Name) and node.value.id not in env:
                base = self.resolve(node.value)
                if base is getattr(self.mod, "config", object()):
                    if node.attr == "THREADPOOL_SIZE":
                        return Sym("nat", "mx")
                    if node.attr == "THREADPOOL_SIZE_MIN":
                        return Sym("nat", "mn")
                    raise Untranslatable("config item %s" % node.attr)
                val = self.resolve(node)
                if isinstance(val, int) and not isinstance(val, bool) and val >= 0:
                    return Sym("nat", str(val))
            raise Untranslatable("attribute %s" % ast.unparse(node))
        if isinstance(node, ast.Call):
            f = node.func
            if isinstance(f, ast.Name) and f.id == "len" and f.id not in env and len(node.args) == 1 and not node.keywords:
                a = self.pure(node.args[0], env)
                if a.kind == "liveset":
                    return Sym("nat", "s.%s.length" % a.text, self.ver)
                if a.kind == "wset":
                    return Sym("nat", "%s.length" % a.text)
                raise Untranslatable("len of %s" % a.kind)
            m = self.method_target(f, env)
            if m is not None:
                # a helper that only computes: `def num_workers(self): return <pure expression>`
                body = [b for b in m.body if not self.skippable(b)]
                if len(body) == 1 and isinstance(body[0], ast.Return) and body[0].value is not None \
                        and not isinstance(body[0].value, ast.Call):
                    return self.pure(body[0].value, self.helper_env(m, node, env))
                raise Untranslatable("#inline")              # handled at the statement level
            raise Untranslatable("call %s" % ast.unparse(node))
        if isinstance(node, ast.BinOp) and isinstance(node.op, ast.Add):
            l, r = self.nat(node.left, env), self.nat(node.right, env)
            return Sym("nat", "%s + %s" % (l.text, r.text), self.join_ver(l, r))
        if isinstance(node, ast.UnaryOp) and isinstance(node.op, ast.Not):
            b = self.truth(node.operand, env)
            return Sym("bool", self.neg(b.text), b.ver)
        if isinstance(node, ast.BoolOp):
            vals = [self.truth(v, env) for v in node.values]
            op = " && " if isinstance(node.op, ast.And) else " || "
            ver = None
            for v in vals:
                ver = v.ver if v.ver is not None else ver
            return Sym("bool", "(" + op.join(v.text for v in vals) + ")", ver)
        if isinstance(node, ast.Compare) and len(node.ops) == 1:
            op = node.ops[0]
            if isinstance(op, (ast.In, ast.NotIn)):
                x = self.pure(node.left, env)
                c = self.pure(node.comparators[0], env)
                if x.kind != "wid":
                    raise Untranslatable("membership of a %s" % x.kind)
                if c.kind == "liveset":
                    t = "decide (%s ∈ s.%s)" % (x.text, c.text)
                elif c.kind == "wset":
                    t = "decide (%s ∈ %s)" % (x.text, c.text)
                else:
                    raise Untranslatable("membership in a %s" % c.kind)
                return Sym("bool", t if isinstance(op, ast.In) else self.neg(t), c.ver)
            l, r = self.nat(node.left, env), self.nat(node.comparators[0], env)
            ver = self.join_ver(l, r)
            if isinstance(op, ast.Lt):
                return Sym("bool", "decide (%s < %s)" % (l.text, r.text), ver)
            if isinstance(op, ast.Gt):
                return Sym("bool", "decide (%s < %s)" % (r.text, l.text), ver)
            if isinstance(op, ast.LtE):
                return Sym("bool", "decide (%s ≤ %s)" % (l.text, r.text), ver)
            if isinstance(op, ast.GtE):
                return Sym("bool", "decide (%s ≤ %s)" % (r.text, l.text), ver)
            if isinstance(op, ast.Eq):
                return Sym("bool", "decide (%s = %s)" % (l.text, r.text), ver)
            if isinstance(op, ast.NotEq):
                return Sym("bool", self.neg("decide (%s = %s)" % (l.text, r.text)), ver)
            raise Untranslatable("comparison %s" % type(op).__name__)
        raise Untranslatable("expression %s" % type(node).__name__)

    @staticmethod
    def neg(t):
        return t[2:-1] if t.startswith("!(") and t.endswith(")") else "!(%s)" % t

    @staticmethod
    def join_ver(a, b):
        return a.ver if a.ver is not None else b.ver

    def nat(self, node, env):
        v = self.pure(node, env)
        if v.kind != "nat":
            raise Untranslatable("number expected: %s" % ast.unparse(node))
        return v

    def truth(self, node, env):
        """python truthiness of an expression"""
        v = self.pure(node, env)
        if v.kind == "bool":
            return v
        if v.kind == "liveset":
            return Sym("bool", "!(s.%s.isEmpty)" % v.text, v.ver)
        if v.kind == "wset":
            return Sym("bool", "!(%s.isEmpty)" % v.text)
        raise Untranslatable("truth value of a %s" % v.kind)

    # ------------------------------------------------------------------ statements, continuation-passing
    def method_target(self, f, env):
        """`self.m` / `Pool.m` / `cls.m` where m is a method of the class that may be inlined -> FunctionDef"""
        if isinstance(f, ast.Attribute) and isinstance(f.value, ast.Name) and f.attr in self.methods:
            b = f.value.id
            if (b in env and env[b].kind == "self") or (b not in env and b == self.cls_name):
                if f.attr in ("process", "notify_done", "close", "__init__"):
                    raise Untranslatable("re-entrant call of %s" % f.attr)
                return self.methods[f.attr]
        return None

    def block(self, stmts, env, k, C):
        if not stmts:
            return k(env)
        st, rest = stmts[0], stmts[1:]
        return self.stmt(st, env, lambda e: self.block(rest, e, k, C), C)

    def helper_env(self, fn, call, env):
        static = any(isinstance(d, ast.Name) and d.id == "staticmethod" for d in fn.decorator_list)
        for d in fn.decorator_list:
            if not (isinstance(d, ast.Name) and d.id == "staticmethod"):
                raise Untranslatable("decorator on helper %s" % fn.name)
        a = fn.args
        if a.vararg or a.kwarg or a.kwonlyargs or a.defaults or a.posonlyargs or call.keywords:
            raise Untranslatable("helper signature of %s" % fn.name)
        params = [x.arg for x in a.args]
        henv = {"#n": env["#n"]}
        if not static:
            if not params:
                raise Untranslatable("helper without self")
            henv[params[0]] = Sym("self")
            params = params[1:]
        if len(params) != len(call.args):
            raise Untranslatable("helper arity of %s" % fn.name)
        for p_, arg in zip(params, call.args):
            henv[p_] = self.value(arg, env)
        return henv

    def inline(self, fn, call, env, kv, C, stack):
        """kv(value Sym, env) continues the caller"""
        if fn.name in stack or len(stack) > 4:
            raise Untranslatable("recursive helper %s" % fn.name)
        henv = self.helper_env(fn, call, env)
        C2 = dict(C)
        C2["stack"] = stack + (fn.name,)
        C2["ret"] = lambda v, e: kv(v, dict(env, **{"#n": e["#n"]}))
        return self.block(list(fn.body), henv, lambda e: C2["ret"](NONE, e), C2)

    def value(self, node, env):
        """argument / right-hand side that is a plain value"""
        if isinstance(node, ast.Name) and node.id in env and env[node.id].kind in ("self",):
            return env[node.id]
        return self.pure(node, env)

    def effect(self, text, k, env):
        self.bump()
        return "%s <|\n%s" % (text, k(env))

    def bindv(self, head, kind, k, env, name):
        v, n = self.fresh(env)
        self.bump()
        e2 = dict(env)
        e2["#n"] = n
        if name is not None:
            e2[name] = Sym(kind, v)
        return "%s fun %s =>\n%s" % (head, v, k(e2))

    def set_call(self, call, env):
        """`self.<set>.<op>(x)` -> (set name, op, arg Sym) or None"""
        f = call.func
        if isinstance(f, ast.Attribute) and self.is_self_attr(f.value, env, SETS):
            if call.keywords:
                raise Untranslatable("keywords on a set method")
            return f.value.attr, f.attr, [self.pure(a, env) for a in call.args]
        return None

    def call_stmt(self, call, env, kv, C, target=None):
        """a call evaluated for its effect; kv(value, env) continues"""
        f = call.func
        if self.is_log(call):
            return kv(NONE, env)
        m = self.method_target(f, env)
        if m is not None:
            return self.inline(m, call, env, kv, C, C["stack"])
        sc = self.set_call(call, env)
        if sc is not None:
            which, op, args = sc
            if op == "pop" and not args:
                if which != "idle":
                    raise Untranslatable("pop from %s" % which)
                v, n = self.fresh(env)
                self.bump()
                e2 = dict(env)
                e2["#n"] = n
                return "popIdle pick fun %s =>\n%s" % (v, kv(Sym("wid", v), e2))
            if op in ("add", "remove", "discard") and len(args) == 1 and args[0].kind == "wid":
                name = {"add": "Add", "remove": "Remove", "discard": "Discard"}[op]
                if which in SETS:
                    return self.effect("%s%s %s" % (which, name, args[0].text), lambda e: kv(NONE, e), env)
            raise Untranslatable("set operation %s.%s" % (which, op))
        if isinstance(f, ast.Name) and f.id not in env:
            val = self.resolve(f)
            if val is getattr(self.mod, "Worker", object()):
                if len(call.args) != 1 or call.keywords or self.value(call.args[0], env).kind != "self":
                    raise Untranslatable("Worker(...) arguments")
                v, n = self.fresh(env)
                self.bump()
                e2 = dict(env)
                e2["#n"] = n
                return "newWorker fun %s =>\n%s" % (v, kv(Sym("wid", v), e2))
            raise Untranslatable("call of %s" % f.id)
        if isinstance(f, ast.Attribute):
            # module functions
            if isinstance(f.value, ast.Name) and f.value.id not in env:
                fn = self.resolve(f)
                import threading
                import time
                if fn is time.sleep and len(call.args) == 1 and not call.keywords:
                    if self.small_number(call.args[0], env) is None:
                        raise Untranslatable("sleep duration")
                    return self.effect("sleepStep", lambda e: kv(NONE, e), env)
                if fn is threading.current_thread and not call.args and not call.keywords:
                    return kv(Sym("cur"), env)
                raise Untranslatable("call of %s" % ast.unparse(f))
            recv = self.pure(f.value, env) if not (isinstance(f.value, ast.Name) and env.get(f.value.id, NONE).kind == "self") else None
            if recv is not None and recv.kind == "wid":
                if f.attr == "start" and not call.args and not call.keywords:
                    return self.effect("startW %s" % recv.text, lambda e: kv(NONE, e), env)
                if f.attr == "process" and len(call.args) == 1 and not call.keywords:
                    a = self.pure(call.args[0], env)
                    if a.kind == "none":
                        return self.effect("tellExit %s" % recv.text, lambda e: kv(NONE, e), env)
                    if a.kind == "job" and self.kind == "process":
                        return self.effect("handJob %s %s" % (recv.text, a.text), lambda e: kv(NONE, e), env)
                    raise Untranslatable("Worker.process argument")
                raise Untranslatable("worker method %s" % f.attr)
        raise Untranslatable("call %s" % ast.unparse(call))

    def join_loop(self, st, env):
        """`while L: p = L.pop(); [if p is not cur:] p.join(timeout=c)` over a local set -> its Lean name, else None"""
        if st.orelse or not isinstance(st.test, ast.Name) or st.test.id not in env or env[st.test.id].kind != "wset":
            return None
        L = st.test.id
        body = [b for b in st.body if not self.skippable(b)]
        if len(body) != 2:
            return None
        a, b = body
        if not (isinstance(a, ast.Assign) and len(a.targets) == 1 and isinstance(a.targets[0], ast.Name)
                and isinstance(a.value, ast.Call) and isinstance(a.value.func, ast.Attribute) and a.value.func.attr == "pop"
                and isinstance(a.value.func.value, ast.Name) and a.value.func.value.id == L and not a.value.args and not a.value.keywords):
            return None
        p = a.targets[0].id
        if p == L:
            return None
        if isinstance(b, ast.If) and not b.orelse:
            t = b.test
            if not (isinstance(t, ast.Compare) and len(t.ops) == 1 and isinstance(t.ops[0], ast.IsNot)
                    and isinstance(t.left, ast.Name) and t.left.id == p and isinstance(t.comparators[0], ast.Name)
                    and env.get(t.comparators[0].id, NONE).kind == "cur"):
                return None
            inner = [x for x in b.body if not self.skippable(x)]
            if len(inner) != 1:
                return None
            b = inner[0]
        if not (isinstance(b, ast.Expr) and isinstance(b.value, ast.Call) and isinstance(b.value.func, ast.Attribute)
                and b.value.func.attr == "join" and isinstance(b.value.func.value, ast.Name) and b.value.func.value.id == p):
            return None
        j = b.value
        tm = None
        if len(j.args) == 1 and not j.keywords:
            tm = j.args[0]
        elif not j.args and len(j.keywords) == 1 and j.keywords[0].arg == "timeout":
            tm = j.keywords[0].value
        if tm is None:
            raise Untranslatable("join without a timeout")
        if self.small_number(tm, env) is None:
            raise Untranslatable("join timeout: %s" % ast.unparse(tm))
        return env[L].text

    def skippable(self, st):
        if isinstance(st, ast.Pass):
            return True
        if isinstance(st, ast.Expr) and isinstance(st.value, ast.Constant) and isinstance(st.value.value, str):
            return True
        if isinstance(st, ast.Expr) and isinstance(st.value, ast.Call) and self.is_log(st.value):
            return True
        if isinstance(st, ast.AnnAssign) and st.value is None:
            return True
        return False

    def stmt(self, st, env, k, C):
        if self.skippable(st):
            return k(env)
        if isinstance(st, ast.Expr):
            if isinstance(st.value, ast.Call):
                return self.call_stmt(st.value, env, lambda v, e: k(e), C)
            raise Untranslatable("expression statement %s" % type(st.value).__name__)
        if isinstance(st, ast.AnnAssign):
            st = ast.Assign(targets=[st.target], value=st.value)
        if isinstance(st, ast.Assign):
            if len(st.targets) != 1:
                raise Untranslatable("chained assignment")
            t = st.targets[0]
            # `x, self.idle = self.idle, set()`
            if isinstance(t, ast.Tuple) and isinstance(st.value, ast.Tuple) and len(t.elts) == 2 and len(st.value.elts) == 2:
                a, b = t.elts
                va, vb = st.value.elts
                if (isinstance(a, ast.Name) and self.is_self_attr(b, env, SETS) and self.is_self_attr(va, env, SETS)
                        and va.attr == b.attr and isinstance(vb, ast.Call) and isinstance(vb.func, ast.Name)
                        and vb.func.id == "set" and "set" not in env and not hasattr(self.mod, "set")
                        and not vb.args and not vb.keywords):
                    return self.bindv("swap%s" % b.attr.capitalize(), "wset", k, env, a.id)
                raise Untranslatable("tuple assignment")
            if self.is_self_attr(t, env, ("closed",)):
                v = self.pure(st.value, env)
                if v.kind == "bool" and v.text == "true":
                    return self.effect("setClosed", k, env)
                raise Untranslatable("closed := %s" % v.text)
            if not isinstance(t, ast.Name):
                raise Untranslatable("assignment target %s" % ast.unparse(t))
            if t.id in env and env[t.id].kind in ("self",):
                raise Untranslatable("assignment to self")
            if isinstance(st.value, ast.Call):
                try:
                    v = self.pure(st.value, env)
                except Untranslatable:
                    v = None
                if v is None:
                    return self.call_stmt(st.value, env, lambda v, e: k(dict(e, **{t.id: v})), C)
            else:
                v = self.pure(st.value, env)
            if v.kind == "liveset":
                raise Untranslatable("alias of a live set")
            return k(dict(env, **{t.id: v}))
        if isinstance(st, ast.If):
            # `if x in self.S: self.S.remove(x)`  ==  `self.S.discard(x)`
            body = [b for b in st.body if not self.skippable(b)]
            t = st.test
            if (not st.orelse and len(body) == 1 and isinstance(t, ast.Compare) and len(t.ops) == 1 and isinstance(t.ops[0], ast.In)
                    and self.is_self_attr(t.comparators[0], env, SETS) and isinstance(body[0], ast.Expr)
                    and isinstance(body[0].value, ast.Call)):
                sc = self.set_call(body[0].value, env)
                x = self.pure(t.left, env)
                if sc is not None and sc[0] == t.comparators[0].attr and sc[1] == "remove" and len(sc[2]) == 1 \
                        and sc[2][0].kind == "wid" and x.kind == "wid" and sc[2][0].text == x.text:
                    return self.effect("%sDiscard %s" % (sc[0], x.text), k, env)
            c = self.truth(st.test, env)
            if c.text == "true":
                return self.block(list(st.body), env, k, C)
            if c.text == "false":
                return self.block(list(st.orelse), env, k, C)
            ver = self.ver                       # the version counts the effects on the current PATH
            a = self.block(list(st.body), env, k, C)
            self.ver = ver
            b = self.block(list(st.orelse), env, k, C)
            self.ver = ver
            ct = c.text
            if ct.startswith("!(") and ct.endswith(")") and self.neg(ct) == ct[2:-1] and not ct.endswith(".isEmpty)"):
                # `if not c: A else: B`  ==  `if c: B else: A`   (set truthiness keeps its canonical form `!(l.isEmpty)`)
                ct, a, b = ct[2:-1], b, a
            return "ifc (fun s => %s)\n(%s)\n(%s)" % (ct, a, b)
        if isinstance(st, ast.With):
            if len(st.items) != 1 or st.items[0].optional_vars is not None \
                    or not self.is_self_attr(st.items[0].context_expr, env, ("count_lock",)):
                raise Untranslatable("with %s" % ast.unparse(st.items[0].context_expr))
            C2 = dict(C)
            C2["ret"] = lambda v, e: "release <|\n" + C["ret"](v, e)
            C2["raise"] = lambda txt: "release <|\n" + C["raise"](txt)
            return "acquire <|\n" + self.block(list(st.body), env, lambda e: "release <|\n" + k(e), C2)
        if isinstance(st, ast.For):
            if st.orelse or not isinstance(st.target, ast.Name):
                raise Untranslatable("for statement shape")
            it = self.pure(st.iter, env)
            if it.kind != "wset":
                raise Untranslatable("iteration over a %s" % it.kind)
            body = [b for b in st.body if not self.skippable(b)]
            if len(body) == 1 and isinstance(body[0], ast.Expr) and isinstance(body[0].value, ast.Call):
                cl = body[0].value
                f = cl.func
                if (isinstance(f, ast.Attribute) and isinstance(f.value, ast.Name) and f.value.id == st.target.id
                        and f.attr == "process" and len(cl.args) == 1 and not cl.keywords
                        and isinstance(cl.args[0], ast.Constant) and cl.args[0].value is None):
                    return self.effect("tellExitAll %s" % it.text, k, env)
            raise Untranslatable("body of the for loop")
        if isinstance(st, ast.While):
            L = self.join_loop(st, env)
            if L is None:
                raise Untranslatable("while loop shape")
            return self.effect("joinAllTimed %s" % L, k, env)
        if isinstance(st, ast.Return):
            v = NONE
            if st.value is not None:
                if isinstance(st.value, ast.Call):
                    try:
                        v = self.pure(st.value, env)
                    except Untranslatable:
                        return self.call_stmt(st.value, env, lambda v2, e: C["ret"](v2, e), C)
                else:
                    v = self.pure(st.value, env)
            return C["ret"](v, env)
        if isinstance(st, ast.Raise):
            if st.cause is not None or st.exc is None:
                raise Untranslatable("raise form")
            exc = st.exc.func if isinstance(st.exc, ast.Call) else st.exc
            if isinstance(st.exc, ast.Call):
                for a in list(st.exc.args) + [kw.value for kw in st.exc.keywords]:
                    if not isinstance(a, ast.Constant) and not (isinstance(a, ast.Name) and isinstance(getattr(self.mod, a.id, None), str)):
                        raise Untranslatable("argument of the raised exception")
            cls = self.resolve(exc)
            if self.kind != "process" or not isinstance(cls, type):
                raise Untranslatable("raise %s in %s" % (ast.unparse(exc), self.kind))
            if issubclass(cls, self.mod.NoFreeWorkersError):
                return C["raise"]("raiseNoFree job")
            if cls is self.mod.PoolError:
                return C["raise"]("raiseClosed job")
            raise Untranslatable("raise of %s" % cls.__name__)
        raise Untranslatable("statement %s" % type(st).__name__)

    # ------------------------------------------------------------------ entry
    def method(self, name):
        fn = self.methods[name]
        self.kind = name
        self.ver = 0
        a = fn.args
        if a.vararg or a.kwarg or a.kwonlyargs or a.defaults or a.posonlyargs or fn.decorator_list:
            raise Untranslatable("signature of %s" % name)
        params = [x.arg for x in a.args]
        want = {"process": 2, "notify_done": 2, "close": 1}[name]
        if len(params) != want:
            raise Untranslatable("parameters of %s" % name)
        env = {"#n": 0, params[0]: Sym("self")}
        if name == "process":
            env[params[1]] = Sym("job", "job")
        if name == "notify_done":
            env[params[1]] = Sym("wid", "w")
        C = {"stack": (name,), "ret": lambda v, e: "ret", "raise": lambda txt: txt}
        return self.block(list(fn.body), env, lambda e: "ret", C)


def indent(text):
    """indent by parenthesis depth, one token group per line"""
    out, depth = [], 0
    for line in text.split("\n"):
        out.append("  " * (depth + 2) + line)
        depth += line.count("(") - line.count(")")
    return "\n".join(out)


# ---------------------------------------------------------------------------------------------------------
# lock skeleton (Pyro.LockSkeleton.Sk) of a method: what it does to count_lock and to idle / busy / closed
# ---------------------------------------------------------------------------------------------------------
def lock_skeleton(cls_node, name, data=("idle", "busy", "closed"), lock="count_lock", cls_name="Pool"):
    methods = {f.name: f for f in cls_node.body if isinstance(f, ast.FunctionDef)}

    def seq(parts):
        parts = [p for p in parts if p != ".nop"]
        if not parts:
            return ".nop"
        out = parts[-1]
        for p in reversed(parts[:-1]):
            out = "(.seq %s %s)" % (p, out)
        return out

    def is_lock(e):
        return isinstance(e, ast.Attribute) and e.attr == lock and getattr(e.value, "id", None) in ("self", cls_name, "cls")

    def expr(e, depth, deferred=False):
        if e is None:
            return ".nop"
        if isinstance(e, ast.Attribute) and e.attr in data and getattr(e.value, "id", None) in ("self", cls_name, "cls"):
            return ".deferred" if deferred else ".access"
        if isinstance(e, (ast.Lambda, ast.GeneratorExp)):
            return seq([expr(c, depth, True) for c in ast.walk(e) if isinstance(c, ast.Attribute)])
        if isinstance(e, (ast.ListComp, ast.SetComp, ast.DictComp)):
            return "(.star %s)" % seq([expr(c, depth, deferred) for c in ast.walk(e) if isinstance(c, (ast.Attribute, ast.Call)) and c is not e])
        if isinstance(e, ast.Call):
            f = e.func
            parts = [expr(a, depth, deferred) for a in list(e.args) + [k.value for k in e.keywords]]
            if isinstance(f, ast.Attribute) and getattr(f.value, "id", None) in ("self", cls_name, "cls") and f.attr in methods:
                if depth >= 4:
                    return seq(parts + [".deferred"])
                inner = stmts(methods[f.attr].body, depth + 1)
                return seq(parts + [".deferred" if (deferred and inner != ".nop") else inner])
            return seq([expr(f, depth, deferred)] + parts)
        return seq([expr(c, depth, deferred) if isinstance(c, ast.expr) else ".nop" for c in ast.iter_child_nodes(e)])

    def stmts(body, depth):
        return seq([stmt(st, depth) for st in body])

    def stmt(st, depth):
        if isinstance(st, ast.With):
            head = seq([expr(i.context_expr, depth) for i in st.items if not is_lock(i.context_expr)])
            body = stmts(st.body, depth)
            if any(is_lock(i.context_expr) for i in st.items):
                body = "(.locked %s)" % body
            return seq([head, body])
        if isinstance(st, ast.If):
            return seq([expr(st.test, depth), "(.alt %s %s)" % (stmts(st.body, depth), stmts(st.orelse, depth))])
        if isinstance(st, (ast.For, ast.While)):
            head = expr(st.iter if isinstance(st, ast.For) else st.test, depth)
            return seq([head, "(.star %s)" % seq([stmts(st.body, depth), head if isinstance(st, ast.While) else ".nop"]),
                        stmts(st.orelse, depth)])
        if isinstance(st, ast.Try):
            return seq([stmts(st.body, depth)] + ["(.alt .nop %s)" % stmts(h.body, depth) for h in st.handlers]
                       + [stmts(st.orelse, depth), stmts(st.finalbody, depth)])
        if isinstance(st, (ast.FunctionDef, ast.ClassDef, ast.AsyncFunctionDef)):
            return seq([expr(c, depth, True) for c in ast.walk(st) if isinstance(c, ast.Attribute)])
        return seq([expr(c, depth) for c in ast.iter_child_nodes(st) if isinstance(c, ast.expr)])

    return stmts(methods[name].body, 0)


def generate(module, tree):
    """Lean source of lean/PyroModel/Gen/C18Src.lean"""
    classes = {n.name: n for n in tree.body if isinstance(n, ast.ClassDef)}
    pool = classes["Pool"]
    tr = Tr(module, pool)
    p = tr.method("process")
    n = tr.method("notify_done")
    c = tr.method("close")
    sk = {m: lock_skeleton(pool, m) for m in ("process", "notify_done", "close")}
    return ("-- GENERATED by harness/props/c18_tr.py from Pyro5/svr_threads.py (class Pool) — do not edit\n"
            "import PyroModel.PoolSrc\nimport PyroModel.LockSkeleton\n"
            "namespace Pyro.Gen.C18Src\nopen Pyro.Pool Pyro.PoolSrc\n\n"
            "/-- `Pool.process(job)`; `mx` = config.THREADPOOL_SIZE, `pick` = which element `set.pop()` returns -/\n"
            "def processSrc (mx pick : Nat) : Prog :=\n  enterProcess fun job =>\n" + indent(p) + "\n\n"
            "/-- `Pool.notify_done(w)`; `mn` = config.THREADPOOL_SIZE_MIN -/\n"
            "def notifySrc (mn : Nat) (w : Wid) : Prog :=\n" + indent(n) + "\n\n"
            "/-- `Pool.close()` -/\n"
            "def closeSrc : Prog :=\n" + indent(c) + "\n\n"
            "def impl : Impl :=\n  { process := fun _ mx pick => processSrc mx pick, notify := fun mn _ w => notifySrc mn w, close := fun _ _ => closeSrc }\n\n"
            "/-! lock skeletons: accesses of self.idle / self.busy / self.closed and `with self.count_lock:` (helpers inlined) -/\n"
            + "".join("def %sSk : Pyro.LockSkeleton.Sk :=\n  %s\n" % (nm, sk[m]) for nm, m in
                      (("process", "process"), ("notify", "notify_done"), ("close", "close")))
            + "end Pyro.Gen.C18Src\n")
