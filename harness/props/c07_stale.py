"""
C07, "carrying the remote traceback text": the text is that of THIS failure.  A server object that raises the same
exception INSTANCE from different methods / on successive calls (a pre-built error object, or a relayed exception):
every time the caller's `_pyroTraceback` must show the frame of the method that was just called.
Real-code oracle only (the Lean model treats the traceback as an opaque list of lines produced per call).
"""
import threading

import common


def run(ctx):
    common.repo_on_path()
    from Pyro5 import server, client, config, errors
    rng = ctx.sub_rng("stale-tb")
    shared = ValueError("shared instance")

    @server.expose
    class T(object):
        def fail_alpha(self):
            raise shared

        def fail_beta(self):
            raise shared

        def fail_gamma(self):
            raise shared

        def items(self):
            yield 1
            raise shared

    saved = (config.SERVERTYPE, config.SERIALIZER, config.MAX_RETRIES)
    config.SERVERTYPE = "thread"
    config.MAX_RETRIES = 0
    d = server.Daemon(host="127.0.0.1", port=0)
    uri = d.register(T(), "t")
    th = threading.Thread(target=d.requestLoop, daemon=True)
    th.start()
    try:
        for ser in ("serpent", "json", "marshal", "msgpack"):
            config.SERIALIZER = ser
            with client.Proxy(uri) as p:
                p._pyroTimeout = 10.0       # watchdog: a server that does not answer must become a failing input, not a hang
                order = [rng.choice(["fail_alpha", "fail_beta", "fail_gamma"]) for _ in range(5)]
                for i, name in enumerate(order):
                    kind = rng.choice(["call", "batch"])
                    try:
                        if kind == "call":
                            getattr(p, name)()
                        else:
                            b = client.BatchProxy(p)
                            getattr(b, name)()
                            list(b())
                        got = None
                    except ValueError as e:
                        got = "".join(getattr(e, "_pyroTraceback", []) or [])
                    except errors.TimeoutError:
                        ctx.fail("no-reply:builtins.ValueError", "%s/%s: %s raised ValueError remotely but the caller got no reply "
                                 "(ended by the rig's watchdog)" % (ser, kind, name), {"serializer": ser, "order": order, "kind": kind})
                        return
                    ctx.evaluations += 1
                    if got is None:
                        ctx.fail("exception-not-raised", "%s/%s: %s did not raise" % (ser, kind, name), {"serializer": ser, "order": order})
                        break
                    if name not in got:
                        others = [n for n in ("fail_alpha", "fail_beta", "fail_gamma") if n != name and n in got]
                        ctx.fail("stale-remote-traceback", "%s/%s: the exception raised by %s() (call %d of %r) carries a remote traceback that "
                                 "does not mention %s%s" % (ser, kind, name, i + 1, order, name,
                                                            " but shows " + ",".join(others) if others else ""),
                                 {"serializer": ser, "order": order, "kind": kind})
                        break
    finally:
        d.shutdown()
        config.SERVERTYPE, config.SERIALIZER, config.MAX_RETRIES = saved
