"""
C05 over REAL sockets (oracle only, no model): a real Daemon on a unix-domain socket whose requestLoop()
runs in a thread, real Pyro5 client proxies as witnesses, raw sockets as hostile peers.

  stage 1  hostile connections while the pool has room (mutated handshakes; valid handshake then mutated invoke),
           each closed at once (the daemon's answer hits a closed socket) or drained first
  stage 2  thread server: idle connections ("squatters") fill the pool, so the acceptor itself denies the next hostile ones
  stage 3  squatters leave; worker / selector accounting must come back; a new proxy must connect and call

Everything checked is an "eventually" fact (polled with a deadline), so thread timing cannot flip a verdict.
"""
import os
import shutil
import socket
import struct
import tempfile
import threading
import time

import common
import srvkit
from props import c05_gen

common.repo_on_path()

DEADLINE = 20.0
WAIT_REFUSAL = 10.0


class RealDaemon:
    def __init__(self, servertype, poolsize, commtimeout, tcp=False):
        from Pyro5 import config, server
        self.saved = (config.SERVERTYPE, config.THREADPOOL_SIZE, config.THREADPOOL_SIZE_MIN, config.COMMTIMEOUT,
                      config.MAX_MESSAGE_SIZE, config.POLLTIMEOUT)
        config.SERVERTYPE = servertype
        config.THREADPOOL_SIZE = poolsize
        config.THREADPOOL_SIZE_MIN = min(poolsize, 2)
        config.COMMTIMEOUT = commtimeout
        config.MAX_MESSAGE_SIZE = c05_gen.MAXSIZE
        config.POLLTIMEOUT = 0.5
        self.servertype = servertype
        self.tmp = tempfile.mkdtemp(prefix="c05real")
        self.path = os.path.join(self.tmp, "s")
        self.execs = []

        rd = self

        @server.expose
        class Target(object):
            def run(self, spec):
                rd.execs.append(spec["token"])
                if spec.get("out") == "raise":
                    e = ValueError("boom %d" % spec["token"])
                    if not spec.get("ser", True):
                        e.unserialisable = threading.Lock()
                    raise e
                if spec.get("out") == "retbad":
                    return threading.Lock()
                return spec["token"]

            def boom(self, kind, token):
                from props import c05_rig
                rd.execs.append(token)
                e = ValueError("boom %d" % token)
                e.extra = c05_rig.poison_value(kind)
                raise e

            @server.oneway
            def runoneway(self, spec):
                rd.execs.append(spec["token"])

            @server.callback
            def cb(self, spec):
                rd.execs.append(spec["token"])
                raise ValueError("callback boom")

        self.tcp = tcp
        self.daemon = server.Daemon(host="127.0.0.1", port=0) if tcp else server.Daemon(unixsocket=self.path)
        self.target = Target()
        self.daemon.register(self.target, "target")
        self.objects = {k: id(v) for k, v in self.daemon.objectsById.items()}
        self.loop_exc = None
        self.loop_returned = False

        def loop():
            try:
                self.daemon.requestLoop()
                self.loop_returned = True
            except BaseException as x:
                self.loop_exc = "%s: %s" % (type(x).__name__, str(x)[:200])
        self.thread = threading.Thread(target=loop, daemon=True, name="c05real-loop")
        self.thread.start()

    def uri(self):
        return "PYRO:target@" + (self.daemon.locationStr if self.tcp else "./u:" + self.path)

    def proxy(self):
        from Pyro5 import client
        p = client.Proxy(self.uri())
        p._pyroTimeout = 20.0
        return p

    def raw(self):
        if self.tcp:
            host, port = self.daemon.locationStr.rsplit(":", 1)
            s = socket.socket(socket.AF_INET, socket.SOCK_STREAM)
            s.settimeout(20.0)
            s.connect((host, int(port)))
            return s
        s = socket.socket(socket.AF_UNIX, socket.SOCK_STREAM)
        s.settimeout(20.0)
        s.connect(self.path)
        return s

    def accounting(self):
        srv = self.daemon.transportServer
        if self.servertype == "thread":
            return {"busy": len(srv.pool.busy), "idle": len(srv.pool.idle)}
        return {"registered": len(srv.selector.get_map()) - 1}

    def wait_for(self, pred):
        t0 = time.time()
        while time.time() - t0 < DEADLINE:
            if pred(self.accounting()):
                return True
            time.sleep(0.002)
        return pred(self.accounting())

    def close(self):
        from Pyro5 import config
        try:
            if self.thread.is_alive():
                self.daemon.shutdown()
            else:
                self.daemon.close()
            self.thread.join(timeout=3)
            if self.thread.is_alive():
                from props import c05_rig
                c05_rig.kill_spinners(("Pyro-Worker", "c05real-loop"))      # a handler that spins would burn a CPU for the rest of the run
        finally:
            (config.SERVERTYPE, config.THREADPOOL_SIZE, config.THREADPOOL_SIZE_MIN, config.COMMTIMEOUT,
             config.MAX_MESSAGE_SIZE, config.POLLTIMEOUT) = self.saved
            shutil.rmtree(self.tmp, ignore_errors=True)
            from props import c05_rig
            c05_rig.forget_types([type(self.target)])


def read_msg(s, rd=None):
    """one complete message from a raw socket, or None (peer closed / nothing within the deadline / the daemon's loop is gone)"""
    t0 = time.time()
    buf = b""
    need = 40
    s.settimeout(0.25)
    while True:
        try:
            c = s.recv(need - len(buf))
        except socket.timeout:
            if (rd is not None and rd.loop_exc) or time.time() - t0 > DEADLINE:
                return None
            continue
        except OSError:
            return None
        if not c:
            return None
        buf += c
        if len(buf) == 40 and need == 40:
            need = 40 + int.from_bytes(buf[12:16], "big") + int.from_bytes(buf[16:20], "big")
        if len(buf) >= need:
            return buf


def hostile(rd, act):
    """act = {"shake": bool, "hex": bytes hex, "close": "now"|"drain"|"rst"|"wait"}; returns False if a "wait"ing peer (it stays
    connected and silent after an invalid prefix) got neither an answer nor a close within WAIT_REFUSAL seconds"""
    s = rd.raw()
    reacted = True
    try:
        if act["shake"]:
            s.sendall(srvkit.render_msg(c05_gen.handshake_msg(act.get("ser", 2), 9)))
            if read_msg(s, rd) is None:
                return
        s.sendall(common.unhx(act["hex"]))
        if act["close"] == "drain":
            try:
                s.shutdown(socket.SHUT_WR)
                s.settimeout(1.0)
                while s.recv(65536):
                    pass
            except OSError:
                pass
        elif act["close"] == "wait":
            t0 = time.time()
            s.settimeout(0.25)
            reacted = False
            while time.time() - t0 < WAIT_REFUSAL and not rd.loop_exc:
                try:
                    s.recv(65536)           # an answer (CONNECTFAIL) or b"" (closed): either way the daemon did not wait for more
                    reacted = True
                    break
                except socket.timeout:
                    continue
                except OSError:
                    reacted = True
                    break
        elif act["close"] == "rst":
            # hard reset instead of an orderly close (TCP only): the daemon's socket ends up in state CLOSE, where even
            # getpeername() fails; give the daemon a moment to start reading first so that the reset meets a recv()
            time.sleep(0.002)
            s.setsockopt(socket.SOL_SOCKET, socket.SO_LINGER, struct.pack("ii", 1, 0))
    except OSError:
        pass
    finally:
        s.close()
    return reacted


def gen_actions(rng, n, tcp=False):
    g = c05_gen.HistGen(rng)
    acts = []
    for _ in range(n):
        shake = rng.random() < 0.5
        ser = rng.choice([1, 2, 3, 4])
        ann = rng.choice([(), ("ABCD",), ("ABCD", "WXYZ")])
        if rng.random() < 0.12:
            acts.append({"shake": shake, "ser": ser, "hex": common.hx(c05_gen.invalid_prefix(rng)), "close": "wait", "kind": "silentprefix"})
            continue
        if rng.random() < 0.12:
            # a payload in which one component is a serialised Proxy pointing at the harness's trap endpoints
            from props import c05_rig
            t = c05_rig.Trap.get()
            comp = rng.choice(c05_gen.PROXY_COMPONENTS_ACTIVE if shake else c05_gen.PROXY_COMPONENTS_FRESH)
            data, _ = c05_gen.proxy_message(ser, rng.randint(0, 65535), comp, rng.choice([t.blackhole, t.blackhole, t.closed]),
                                            rng.choice(["bare", "dictlike"]), 5000 + len(acts))
            acts.append({"shake": shake, "ser": ser, "hex": common.hx(data), "close": "drain", "kind": "proxy:" + comp})
            continue
        if shake:
            spec = g.g.method(False)
            spec.pop("track", None)
            spec.pop("untrack", None)
            if spec.get("exc", "generic") != "generic":
                spec["exc"] = "generic"
            base = c05_gen.base_of(c05_gen.call_msg(ser, rng.randint(0, 65535), spec, ann=ann))
        else:
            base = c05_gen.base_of(c05_gen.handshake_msg(ser, rng.randint(0, 65535), ann=ann))
        x = rng.random()
        if x < 0.15:
            kind, data = "valid", base["data"]
        else:
            kind, data = c05_gen.random_mutant(rng, base)
        try:
            c05_gen.classify(data, "eof", not shake, [base])
        except c05_gen.Unsafe:
            kind, data = "prefix", base["data"][:rng.randrange(len(base["data"]))]
        acts.append({"shake": shake, "ser": ser, "hex": common.hx(data), "close": rng.choice(["rst", "rst", "now", "drain"] if tcp else ["now", "now", "drain"]), "kind": kind})
    return acts


NO_REFUSAL = ("%s server (real sockets): a peer sent %d bytes that already fail the header check and stayed connected; within "
              + str(int(WAIT_REFUSAL)) + " s it was neither answered nor closed: the daemon waits for more bytes from it")


def scenario(ctx, servertype, commtimeout, poolsize, acts1, acts2, case, tcp=False):
    """-> list of (signature, description)"""
    fails = []
    from props import c05_rig
    trap = c05_rig.Trap.get()
    trap.armed = True
    trap_mark = len(trap.attempts)

    def outbound(acts):
        if len(trap.attempts) > trap_mark:
            kinds = sorted({a["kind"] for a in acts if a["kind"].startswith("proxy:")})
            fails.insert(0, ("real:outbound-connection:" + servertype,
                             "%s server (real sockets): the daemon made %d connection attempt(s) to the address named in a serialised "
                             "Proxy that a peer sent as part of a handshake / call / batch payload (%s)"
                             % (servertype, len(trap.attempts) - trap_mark, ", ".join(kinds))))
    rd = RealDaemon(servertype, poolsize, commtimeout, tcp)
    try:
        w = [rd.proxy(), rd.proxy()]
        tok = [100]

        def witness_round():
            from Pyro5 import errors
            for i, p in enumerate(w):
                tok[0] += 1
                kind = ["slots", "getstate", "deep", None, None][tok[0] % 5]
                if kind:
                    # a method raising an exception that cannot be serialised (in an unusual way): the caller still gets an error
                    try:
                        r = p.boom(kind, tok[0])
                        r = "returned %r" % (r,)
                    except errors.CommunicationError as x:
                        r = "connection trouble %s" % type(x).__name__
                    except Exception:
                        r = None
                    if r is not None:
                        fails.append(("real:witness-reply:" + servertype, "%s server (real sockets): witness %d called boom(%r), a method raising "
                                      "an unserialisable exception, and instead of an error reply: %s" % (servertype, i, kind, r)))
                        return False
                    tok[0] += 1
                try:
                    r = p.run({"token": tok[0]})
                except Exception as x:
                    r = "raised %s" % type(x).__name__
                if r != tok[0]:
                    fails.append(("real:witness-reply:" + servertype, "%s server (real sockets): witness %d called run(%d) and got %r"
                                  % (servertype, i, tok[0], r)))
                    return False
            return True
        if not witness_round():
            return fails
        pre = rd.accounting()
        for k, a in enumerate(acts1):
            if rd.loop_exc:
                break
            if not hostile(rd, a):
                fails.append(("real:no-refusal-for-invalid-prefix:" + servertype, NO_REFUSAL % (servertype, len(common.unhx(a["hex"])))))
                return fails
            ctx.count("real:" + a["kind"].split(":")[0])
            if k % 8 == 7 and not witness_round():
                return fails
        squat = []
        if servertype == "thread":
            for _ in range(poolsize - 2):
                s = rd.raw()
                s.sendall(srvkit.render_msg(c05_gen.handshake_msg(3, 1)))
                read_msg(s, rd)
                squat.append(s)
            rd.wait_for(lambda a: a["busy"] >= poolsize)
        for k, a in enumerate(acts2):
            if rd.loop_exc:
                break
            if not hostile(rd, a):
                fails.append(("real:no-refusal-for-invalid-prefix:" + servertype, NO_REFUSAL % (servertype, len(common.unhx(a["hex"])))))
                return fails
            ctx.count("real:denied" if servertype == "thread" else "real:" + a["kind"].split(":")[0])
        for s in squat:
            s.close()
        r = None
        if not rd.loop_exc and servertype == "thread":
            # the workers of the connections that just went away must come back before anything else is judged
            if not rd.wait_for(lambda a: a["busy"] == pre["busy"]):
                fails.append(("real:worker-stranded", "thread pool (real sockets): %r before the attack, %r after all hostile peers left"
                              % (pre, rd.accounting())))
                return fails
        if not rd.loop_exc:
            witness_round()
            # a new client afterwards
            # hostile connections may still sit in the listen backlog and take the free workers for a moment when they
            # are accepted: a refusal "no free workers" is the pool doing its job (C18), so the new client retries
            t0 = time.time()
            while True:
                fresh = rd.proxy()
                try:
                    fresh._pyroBind()
                    r = fresh.run({"token": 999})
                except Exception as x:
                    r = "raised %s: %s" % (type(x).__name__, str(x)[:100])
                    if "no free workers" in str(x) and time.time() - t0 < DEADLINE and not rd.loop_exc:
                        fresh._pyroRelease()
                        time.sleep(0.005)
                        continue
                break
        if rd.loop_exc or rd.loop_returned or not rd.thread.is_alive():
            fails.insert(0, ("real:loop-stopped:" + servertype, "%s server (real sockets): requestLoop() was left: %s"
                             % (servertype, rd.loop_exc or "returned")))
            return fails
        if r != 999:
            fails.append(("real:fresh-handshake:" + servertype, "%s server (real sockets): a new proxy after the attack got %r" % (servertype, r)))
        fresh._pyroRelease()
        if servertype == "thread":
            if not rd.wait_for(lambda a: a["busy"] == pre["busy"] and pre["idle"] <= a["idle"] <= min(poolsize, 2)):
                fails.append(("real:worker-stranded", "thread pool (real sockets): %r before the attack, %r after all hostile peers left"
                              % (pre, rd.accounting())))
        elif not rd.wait_for(lambda a: a["registered"] == pre["registered"]):
            fails.append(("real:selector-accounting", "multiplex selector (real sockets): %r before, %r after" % (pre, rd.accounting())))
        if {k: id(v) for k, v in rd.daemon.objectsById.items()} != rd.objects:
            fails.append(("real:objects-lost:" + servertype, "daemon.objectsById changed"))
        for p in w:
            p._pyroRelease()
        outbound(acts1 + acts2)
        return fails
    finally:
        rd.close()


def run(ctx):
    import warnings
    with warnings.catch_warnings():
        warnings.simplefilter("ignore", SyntaxWarning)      # serpent's literal_eval on mutated payload text
        _run(ctx)


def _run(ctx):
    rng = ctx.sub_rng("real" + ("-search" if ctx.search_mode else ""))
    rounds = ctx.n(1, 12)
    n1, n2 = (24, 8) if ctx.tier != "thorough" else (60, 20)
    for _ in range(rounds):
        for servertype in ("thread", "multiplex"):
            for commtimeout, tcp in ((0.0, False), (30.0, False), (0.0, True)):
                acts1 = gen_actions(rng, n1, tcp)
                acts2 = gen_actions(rng, n2, tcp)
                poolsize = rng.choice([3, 4])
                case = {"real_sockets": True, "servertype": servertype, "commtimeout": commtimeout, "poolsize": poolsize,
                        "acts1": acts1, "acts2": acts2, "tcp": tcp}
                ctx.evaluations += len(acts1) + len(acts2)
                for sig, desc in scenario(ctx, servertype, commtimeout, poolsize, acts1, acts2, case, tcp):
                    ctx.fail(sig + (":tcp" if tcp else ""), desc, case)


def replay(ctx, c):
    class Quiet:
        def count(self, *a):
            pass
    fails = scenario(Quiet(), c["servertype"], float(c["commtimeout"]), c["poolsize"], c["acts1"], c["acts2"], c, bool(c.get("tcp")))
    for sig, desc in fails:
        print("  ", sig, "-", desc)
    print("VIOLATION reproduced" if fails else "not reproduced")
    return 1 if fails else 0
