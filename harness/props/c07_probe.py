"""C07 behaviour probes, run at extraction time: the REAL Daemon.handleRequest, Proxy._pyroInvoke, BatchProxy,
the retry loop of a remote method, class_to_dict / dict_to_class / make_exception and _ExceptionWrapper are driven over
in-memory sockets (no thread, no OS socket) on small tables of inputs; the observed behaviour - not the source text - is
what goes into lean/PyroModel/Gen/C07.lean and what the obligations of PyroProps/C07.lean compare the model's decision
functions with.  Nothing here depends on the names of locals, private helpers, the order of statements, docstrings,
or on how a condition is spelled."""
import socket

import common

MARK = "c07-probe-marker"


class MemSock:
    """one end of an in-memory stream; recv on an empty buffer first lets `on_empty` run, then reports EOF"""
    family = socket.AF_UNIX

    def __init__(self, name):
        self.name = name
        self.buf = bytearray()
        self.out = bytearray()
        self.peer = None
        self.on_empty = None
        self.timeout = None
        self.closed = False

    def getpeername(self):
        return "mem-peer-of-" + self.name

    def getsockname(self):
        return "mem-" + self.name

    def gettimeout(self):
        return self.timeout

    def settimeout(self, t):
        self.timeout = t

    def setblocking(self, b):
        pass

    def fileno(self):
        return -1

    def sendall(self, data):
        data = bytes(data)
        self.out += data
        if self.peer is not None:
            self.peer.buf += data

    def send(self, data):
        self.sendall(data)
        return len(data)

    def recv(self, n, flags=0):
        if not self.buf and self.on_empty is not None:
            self.on_empty()
        chunk = bytes(self.buf[:n])
        del self.buf[:n]
        return chunk

    def shutdown(self, how):
        pass

    def close(self):
        self.closed = True


def qual(t):
    return t.__module__ + "." + t.__name__


def instance(cls):
    """some instance of the exception class (its content does not matter to the decisions probed here)"""
    for args in ((MARK,), (), ("ascii", "x", 0, 1, MARK), ("ascii", b"x", 0, 1, MARK), ("x", 0, 1, MARK),
                 (MARK, [ValueError(MARK)]), (MARK, [KeyboardInterrupt(MARK)])):
        try:
            e = cls(*args)
            str(e)
            if type(e) is cls:
                return e
        except Exception:
            continue
    return None


class _Inner(object):
    prop = "inner-prop"


class _SlotRecord(object):
    __slots__ = ("value",)


class _StateRaises(object):
    def __getstate__(self):
        raise RuntimeError("state not available")


def _target(H, server):
    @server.expose
    class Target(object):
        _inner = _Inner()

        def __getattr__(self, name):
            return getattr(self._inner, name)

        def boom(self):
            raise H["exc"]

        @server.callback
        def boom_cb(self):
            raise H["exc"]

        @property
        def prop(self):
            raise H["exc"]

        @prop.setter
        def prop(self, value):
            raise H["exc"]

        def ok(self, x):
            return x

        def count(self):
            H["count"] += 1
            return H["count"]

        def stream(self):
            return _Stream(H)
    return Target


class _Stream:
    def __init__(self, H):
        self.H = H

    def __iter__(self):
        return self

    def __next__(self):
        raise self.H["exc"]


class ServerSide:
    """a real Daemon on an in-memory connection; `call` feeds one request to handleRequest and reports what happened"""

    def __init__(self, ser="serpent"):
        from Pyro5 import server, serializers
        self.H = {"exc": None, "count": 0}
        self.sock = MemSock("server")
        self.daemon = server.Daemon(connected_socket=self.sock)
        self.daemon.register(_target(self.H, server)(), "c07")
        self.conn = self.daemon.transportServer.conn
        self.ser = serializers.serializers[ser]
        self.seq = 0

    def call(self, method, vargs=(), kwargs=None, flags=0, obj="c07"):
        """-> (reply message or None, exception that left handleRequest or None)"""
        from Pyro5 import protocol, socketutil
        self.seq += 1
        data = self.ser.dumpsCall(obj, method, vargs, kwargs or {})
        msg = protocol.SendingMessage(protocol.MSG_INVOKE, flags, self.seq, self.ser.serializer_id, data)
        self.sock.buf += msg.data
        del self.sock.out[:]
        escaped = None
        try:
            self.daemon.handleRequest(self.conn)
        except BaseException as x:      # noqa: B902 - KeyboardInterrupt / SystemExit are part of the table
            escaped = x
        del self.sock.buf[:]
        reply = None
        if self.sock.out:
            rs = MemSock("reply")
            rs.buf += self.sock.out
            reply = protocol.recv_stub(socketutil.SocketConnection(rs, keep_open=True))
        return reply, escaped

    def decode(self, reply):
        return self.ser.loads(reply.data)

    def close(self):
        try:
            self.daemon.transportServer.sock = None
            self.daemon.close()
        except Exception:
            pass


def server_probes(classes):
    """the server's decisions for an exception raised by the invoked code, per class"""
    from Pyro5 import protocol, core, errors
    S = ServerSide()
    facts = {}
    try:
        rows = []
        for cls in classes:
            e0 = instance(cls)
            if e0 is None:
                raise RuntimeError("probe: cannot build an instance of %s" % qual(cls))
            for cb in (False, True):
                S.H["exc"] = instance(cls)
                reply, escaped = S.call("boom_cb" if cb else "boom")
                replied = reply is not None
                if replied and not (reply.flags & protocol.FLAGS_EXCEPTION):
                    raise RuntimeError("probe: a raising call was answered without the exception flag (%s)" % qual(cls))
                if escaped is not None and escaped is not S.H["exc"]:
                    raise RuntimeError("probe: %s left handleRequest instead of the raised %s" % (type(escaped).__name__, qual(cls)))
                rows.append((qual(cls), cb, replied, escaped is not None))
        facts["errorPathProbe"] = rows
        # attribute read / write and stream item take the same decisions (probed on four representative classes + AttributeError)
        same = True
        reps = [c for c in classes if qual(c) in ("builtins.ValueError", "builtins.AttributeError", "builtins.KeyboardInterrupt",
                                                  "Pyro5.errors.TimeoutError", "Pyro5.errors.SerializeError", "Pyro5.errors.SecurityError")]
        table = {(q, cb): (r, x) for q, cb, r, x in rows}
        accessor_ok = True
        for cls in reps:
            for kind in ("get", "set", "stream"):
                S.H["exc"] = instance(cls)
                if kind == "get":
                    reply, escaped = S.call("__getattr__", ("prop",))
                elif kind == "set":
                    reply, escaped = S.call("__setattr__", ("prop", 1))
                else:
                    r0, x0 = S.call("stream")
                    if r0 is None or not (r0.flags & protocol.FLAGS_ITEMSTREAMRESULT):
                        raise RuntimeError("probe: stream() was not answered with a stream id")
                    sid = bytes(r0.annotations["STRM"]).decode()
                    reply, escaped = S.call("get_next_stream_item", (sid,), obj=core.DAEMON_NAME)
                got = (reply is not None, escaped is not None)
                if got != table[(qual(cls), False)]:
                    same = False
                if reply is not None and kind in ("get", "set"):
                    back = S.decode(reply)
                    if not (reply.flags & protocol.FLAGS_EXCEPTION) or type(back) is not cls or MARK not in back.args:
                        accessor_ok = False      # e.g. a getter's AttributeError answered by the instance's __getattr__
        facts["otherKindsDecideAlike"] = same
        # a housekeeping run between the creation of a stream and its first item leaves a young stream of a connected
        # client alone, whatever lifetime / linger limits are configured
        from Pyro5 import config
        saved = (config.ITER_STREAM_LIFETIME, config.ITER_STREAM_LINGER)
        survives = True
        try:
            for lifetime, linger in ((0.0, 0.0), (60.0, 0.0), (3600.0, 30.0), (0.0, 30.0)):
                config.ITER_STREAM_LIFETIME, config.ITER_STREAM_LINGER = lifetime, linger
                S.H["exc"] = KeyError(MARK, 3)
                r0, x0 = S.call("stream")
                sid = bytes(r0.annotations["STRM"]).decode()
                S.daemon._housekeeping()
                reply, escaped = S.call("get_next_stream_item", (sid,), obj=core.DAEMON_NAME)
                back = S.decode(reply) if reply is not None else None
                if type(back) is not KeyError or back.args != (MARK, 3):
                    survives = False
        finally:
            config.ITER_STREAM_LIFETIME, config.ITER_STREAM_LINGER = saved
        facts["youngStreamSurvivesHousekeeping"] = survives
        facts["accessorErrorForwarded"] = accessor_ok
        # what a forwarded exception carries: its own class/args, the raising side's attributes plus exactly one more
        e = ValueError(MARK, 1)
        e.custom = [1, "x"]
        S.H["exc"] = e
        reply, _ = S.call("boom")
        back = S.decode(reply)
        extra = sorted(set(vars(back)) - {"custom"})
        facts["tracebackAttr"] = extra
        tb = getattr(back, extra[0], None) if len(extra) == 1 else None
        facts["tracebackIsLines"] = isinstance(tb, list) and bool(tb) and all(isinstance(l, str) for l in tb)
        facts["forwardedIntact"] = type(back) is ValueError and back.args == (MARK, 1) and back.custom == [1, "x"]
        # the fallback for content that cannot be serialised
        fmt = "Error serializing exception: %s. Original exception: %s: %s"
        ok_text, ok_cls, ok_tb = True, True, True
        for method, vargs, bad in (("boom", (), object()), ("__getattr__", ("prop",), object()), ("__setattr__", ("prop", 1), object()),
                                   ("boom", (), _SlotRecord()), ("boom", (), _StateRaises()), ("__getattr__", ("prop",), _SlotRecord())):
            # the failure of dumps is a TypeError for object(), an AttributeError for the unfilled slot, a RuntimeError for __getstate__
            e = ValueError(MARK, 2)
            e.bad = bad
            S.H["exc"] = e
            derr = None
            try:
                S.ser.dumps(e)
            except Exception as x:
                derr = x
            if derr is None:
                raise RuntimeError("probe: %r turned out to be serialisable" % (bad,))
            reply, escaped = S.call(method, vargs)
            if reply is None or not (reply.flags & protocol.FLAGS_EXCEPTION):
                ok_cls = False
                continue
            back = S.decode(reply)
            ok_cls = ok_cls and type(back) is errors.PyroError and escaped is None
            ok_text = ok_text and back.args == (fmt % (str(derr), type(e), str(e)),)
            t = getattr(back, "_pyroTraceback", None)
            ok_tb = ok_tb and isinstance(t, list) and bool(t) and sorted(vars(back)) == ["_pyroTraceback"]
        facts["fallbackIsPyroError"] = ok_cls
        facts["fallbackTextMatches"] = ok_text
        facts["fallbackCarriesOnlyTraceback"] = ok_tb
        # batch
        brow = []
        for cls in classes:
            S.H["exc"] = instance(cls)
            S.H["count"] = 0
            reply, escaped = S.call("<batch>", [("ok", (7,), {}), ("boom", (), {}), ("count", (), {})], flags=protocol.FLAGS_BATCH)
            wrapped = False
            if reply is not None and (reply.flags & protocol.FLAGS_BATCH) and not (reply.flags & protocol.FLAGS_EXCEPTION):
                import serpent
                res = serpent.loads(bytes(reply.data))      # the raw tree (an exception group's members do not decode back)
                w = res[1] if type(res) is list and len(res) == 2 and res[0] == 7 and type(res[1]) is dict else {}
                x = w.get("exception") if w.get("__class__") == qual(core._ExceptionWrapper) else None
                tb = x.get("attributes", {}).get("_pyroTraceback") if type(x) is dict else None
                wrapped = type(x) is dict and x.get("__class__") == qual(cls) and isinstance(tb, list) and bool(tb)
            if S.H["count"] != 0:
                raise RuntimeError("probe: the batch went on after the failing member (%s)" % qual(cls))
            brow.append((qual(cls), wrapped, escaped is not None, reply is not None))
        facts["batchProbe"] = brow
        e = ValueError(MARK, 3)
        e.bad = object()
        S.H["exc"] = e
        reply, escaped = S.call("<batch>", [("ok", (7,), {}), ("boom", (), {})], flags=protocol.FLAGS_BATCH)
        bf = False
        if reply is not None and (reply.flags & protocol.FLAGS_BATCH) and not (reply.flags & protocol.FLAGS_EXCEPTION):
            res = S.decode(reply)
            bf = (type(res) is list and len(res) == 2 and isinstance(res[1], core._ExceptionWrapper)
                  and type(res[1].exception) is errors.PyroError and "ValueError" in str(res[1].exception)
                  and bool(getattr(res[1].exception, "_pyroTraceback", None)))
        facts["batchFallback"] = bf
    finally:
        S.close()
    return facts


def _reply_bytes(ser, seq, flags, obj):
    from Pyro5 import protocol
    return protocol.SendingMessage(protocol.MSG_RESULT, flags, seq, ser.serializer_id, ser.dumps(obj)).data


def _wired_proxy(ser_name):
    """a real Proxy whose connection is an in-memory socket we fill by hand (no handshake needed: it is 'connected')"""
    from Pyro5 import client, socketutil
    p = client.Proxy("PYRO:c07@localhost:1")
    p._pyroSerializer = ser_name
    sock = MemSock("client")
    p._pyroConnection = socketutil.SocketConnection(sock, "c07")
    p._pyroMethods = {"boom", "ok"}
    p._pyroAttrs = {"prop"}
    return p, sock


def client_probes(classes):
    """what the caller's side does with a reply, per class of the exception in it"""
    from Pyro5 import protocol, serializers, client, core
    ser = serializers.serializers["serpent"]
    facts = {}
    rows = []
    for cls in classes:
        p, sock = _wired_proxy("serpent")
        e = instance(cls)
        sock.buf += _reply_bytes(ser, 1, protocol.FLAGS_EXCEPTION, e)
        raised = None
        try:
            p._pyroInvoke("boom", (), {})
        except BaseException as x:      # noqa: B902
            raised = x
        if raised is not None and type(raised) is cls:
            rows.append((qual(cls), p._pyroConnection is None))
        # else: the content of this probe instance does not decode back (exception groups, bytes under serpent): no row
    facts["clientProbe"] = rows
    p, sock = _wired_proxy("serpent")
    sock.buf += _reply_bytes(ser, 1, 0, [1, "v"])
    facts["clientReturnsValue"] = p._pyroInvoke("ok", (1,), {}) == [1, "v"] and p._pyroConnection is not None
    p, sock = _wired_proxy("serpent")
    from Pyro5 import errors
    try:
        p._pyroInvoke("boom", (), {})
        lost = False
    except errors.ConnectionClosedError:
        lost = p._pyroConnection is None
    except BaseException:       # noqa: B902
        lost = False
    facts["clientNoReplyIsConnectionClosedAndReleases"] = lost
    # batch results: values in order, then the wrapped exception; StopIteration cannot leave the result iterator
    def batch(wrapped):
        p, sock = _wired_proxy("serpent")
        sock.buf += _reply_bytes(ser, 1, protocol.FLAGS_BATCH, [5, "six", core._ExceptionWrapper(wrapped)])
        b = client.BatchProxy(p)
        b.ok(5)
        b.ok("six")
        b.boom()
        got, raised = [], None
        try:
            for item in b():
                got.append(item)
        except BaseException as x:      # noqa: B902
            raised = x
        return got, raised, p._pyroConnection is None
    got, raised, released = batch(ValueError(MARK))
    facts["batchYieldsThenRaises"] = got == [5, "six"] and type(raised) is ValueError and raised.args == (MARK,) and not released
    got, raised, released = batch(errors.SerializeError(MARK))
    facts["batchRaiseDoesNotRelease"] = type(raised) is errors.SerializeError and not released
    got, raised, released = batch(StopIteration(MARK))
    facts["batchStopIterationBecomesRuntimeError"] = got == [5, "six"] and type(raised) is RuntimeError
    facts["batchStopIterationSurvives"] = got == [5, "six"] and type(raised) is StopIteration
    return facts


RETRY_SCRIPTS = ["closed*", "timeout*", "comm*", "value", "ok", "closed1-ok", "closed2-ok", "timeout1-closed1-ok"]
RETRY_OUTCOMES = ["value", "none", "closed", "timeout", "comm", "valueerror", "other"]


def retry_probes():
    """the retry loop of a remote method call, on scripted send functions: (max_retries, script) -> (outcome, sends)"""
    from Pyro5 import client, errors
    rows = []
    scripts = RETRY_SCRIPTS

    def outcome_of(script, attempt):
        if script == "closed*":
            return errors.ConnectionClosedError
        if script == "timeout*":
            return errors.TimeoutError
        if script == "comm*":
            return errors.CommunicationError
        if script == "value":
            return ValueError
        if script == "ok":
            return None
        if script == "closed1-ok":
            return errors.ConnectionClosedError if attempt < 1 else None
        if script == "closed2-ok":
            return errors.ConnectionClosedError if attempt < 2 else None
        if script == "timeout1-closed1-ok":
            return errors.TimeoutError if attempt < 1 else (errors.ConnectionClosedError if attempt < 2 else None)
        raise ValueError(script)
    for m in (0, 1, 2, 3):
        for script in scripts:
            p = client.Proxy("PYRO:c07@localhost:1")
            p._pyroMethods = {"meth"}
            p._pyroAttrs = {"prop"}
            p._pyroMaxRetries = m
            sends = [0]

            def send(name, vargs, kwargs, flags=0, objectId=None, _script=script):
                k = sends[0]
                sends[0] += 1
                x = outcome_of(_script, k)
                if x is not None:
                    raise x(MARK)
                return "result"
            object.__setattr__(p, "_pyroInvoke", send)
            try:
                r = p.meth(1)
                out = "value" if r == "result" else ("none" if r is None else "other")
            except errors.ConnectionClosedError:
                out = "closed"
            except errors.TimeoutError:
                out = "timeout"
            except errors.CommunicationError:
                out = "comm"
            except ValueError:
                out = "valueerror"
            rows.append((m, scripts.index(script), RETRY_OUTCOMES.index(out), sends[0]))
    facts = {"retryProbe": rows}
    # attribute reads do not go through the retry loop
    p = client.Proxy("PYRO:c07@localhost:1")
    p._pyroMethods = {"meth"}
    p._pyroAttrs = {"prop"}
    p._pyroMaxRetries = 2
    sends = [0]

    def send2(name, vargs, kwargs, flags=0, objectId=None):
        sends[0] += 1
        raise errors.ConnectionClosedError(MARK)
    object.__setattr__(p, "_pyroInvoke", send2)
    try:
        p.prop
    except errors.ConnectionClosedError:
        pass
    facts["attributeReadSendsOnce"] = sends[0] == 1
    return facts


def dict_probes(names):
    """class_to_dict / _ExceptionWrapper / make_exception / dict_to_class on small tables"""
    from Pyro5 import serializers, core, errors
    SB = serializers.SerializerBase
    facts = {}
    e = ValueError("a", 1)
    e.x = 5
    e.y = [1, {"k": None}]
    d = SB.class_to_dict(e)
    facts["excDictProbe"] = sorted((k, repr(v)) for k, v in d.items())
    n = errors.NamingError()
    facts["excDictPyro"] = sorted((k, repr(v)) for k, v in SB.class_to_dict(n).items())
    w = core._ExceptionWrapper(e)
    wd = SB.class_to_dict(w)
    facts["wrapperDictIsClassPlusException"] = wd == {"__class__": "Pyro5.core._ExceptionWrapper", "exception": d}
    try:
        w.raiseIt()
        same = False
    except ValueError as x:
        same = x is e
    facts["wrapperRaisesItsException"] = same
    rows = []
    for label, data in (("tuple-args+attrs", {"args": ("a", 1), "attributes": {"x": 5, "y": [1]}}),
                        ("list-args", {"args": ["a"]}),
                        ("empty-args", {"args": (), "attributes": {}}),
                        ("no-args-key", {"attributes": {"x": 1}})):
        try:
            r = SB.make_exception(ValueError, data)
            rows.append((label, "%s %r %r" % (qual(type(r)), r.args, sorted(vars(r).items()))))
        except Exception as x:
            rows.append((label, "raises " + qual(type(x))))
    facts["makeExceptionProbe"] = rows
    # the class-name dispatch: which class make_exception is called with for a serialised class name (None: none)
    calls = []
    orig = SB.__dict__["make_exception"]

    def spy(exceptiontype, data):
        calls.append(exceptiontype)
        return exceptiontype.__new__(exceptiontype)
    SB.make_exception = staticmethod(spy)
    try:
        drows = []
        for name in names:
            del calls[:]
            try:
                SB.dict_to_class({"__class__": name, "__exception__": True, "args": (), "attributes": {}})
            except Exception:
                pass
            drows.append((name, qual(calls[0]) if len(calls) == 1 else None))
    finally:
        SB.make_exception = orig
    facts["dispatchProbe"] = drows
    return facts
