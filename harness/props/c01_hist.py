"""
C01, histories: the type mapping of a serializer is a function of the value alone.

Real-code oracle only.  A *history* is a sequence of values converted one after the other in this process, built so
that equal-but-differently-written values follow each other (Decimal('2.5') / Decimal('2.50') / Decimal('25E-1'),
0 / 0.0 / -0.0 / False / Decimal('-0'), 1 / 1.0 / True, the same uuid from different constructors, equal strings /
byte strings / tuples of different type), alone and inside containers.  For every item and serializer,
    loads(dumps(v)), the positional argument and the keyword argument of loadsCall(dumpsCall(..))
must be exactly what a PRISTINE process gives for that value alone: the reference comes from a helper process that has
imported Pyro5 but never converted anything and forks one child per request (so nothing converted earlier — in this
process or for an earlier request — can influence it).  Additionally
  * an element of a converted list is what the pristine process gives for that element alone (nested position), and
  * a Decimal / UUID arrives as its own str() where the serializer maps it to text (json, msgpack, serpent; uuid: marshal).

Values travel to the helper as Python expressions over the small namespace NS (not as driver tokens: str / tuple
subclasses and constructor variants have no token).  No sets (their iteration order depends on the process' hash seed).
"""
import collections
import decimal
import json
import os
import subprocess
import sys
import uuid

sys.path.insert(0, os.path.dirname(os.path.dirname(os.path.abspath(__file__))))      # when run as the helper script
import common  # noqa: E402

SERS = ["serpent", "marshal", "json", "msgpack"]
D = decimal.Decimal


class MyStr(str):
    """a str of another type, equal (== and hash) to the plain one"""


class MyInt(int):
    pass


NT = collections.namedtuple("NT", "a b")

NS = {"D": D, "uuid": uuid, "MyStr": MyStr, "MyInt": MyInt, "NT": NT, "bytearray": bytearray, "complex": complex,
      "float": float, "True": True, "False": False, "None": None, "__builtins__": {}}


def ev(expr):
    return eval(expr, NS)       # expressions are produced by gen_history below / stored in corpus files of this repo


def convert(expr):
    """{serializer: [repr(outcome of loads(dumps)), positional argument, keyword argument, elements...]} for one value"""
    from Pyro5 import serializers
    from props import c01
    out = {}
    for ser in SERS:
        s = serializers.serializers[ser]
        v = ev(expr)
        res, _ = c01.outcome(lambda: s.loads(s.dumps(v)), True)
        v = ev(expr)
        arg, _ = c01.outcome(lambda: s.loadsCall(s.dumpsCall("o", "m", (v,), {}))[2][0], True)
        v = ev(expr)
        kw, _ = c01.outcome(lambda: s.loadsCall(s.dumpsCall("o", "m", (), {"k": v}))[3]["k"], True)
        out[ser] = [repr(res), repr(arg), repr(kw)]
    return out


class Pristine:
    """the helper process: imports Pyro5, converts nothing itself, forks a child per request"""

    def __init__(self):
        env = dict(os.environ)
        env["VERIF_REPO"] = common.REPO
        self.p = subprocess.Popen([sys.executable, os.path.abspath(__file__)], stdin=subprocess.PIPE, stdout=subprocess.PIPE,
                                  text=True, env=env, cwd=os.path.dirname(os.path.dirname(os.path.abspath(__file__))))
        self.cache = {}

    def ask(self, expr):
        if expr not in self.cache:
            self.p.stdin.write(json.dumps(expr) + "\n")
            self.p.stdin.flush()
            line = self.p.stdout.readline()
            if not line:
                raise RuntimeError("pristine helper died")
            self.cache[expr] = json.loads(line)
        return self.cache[expr]

    def close(self):
        try:
            self.p.stdin.close()
            self.p.wait(timeout=20)
        except Exception:
            self.p.kill()


def _serve():
    """main of the helper process"""
    sys.path.insert(0, os.path.dirname(os.path.dirname(os.path.abspath(__file__))))
    import common as cm
    cm.repo_on_path()
    from Pyro5 import serializers   # noqa: F401  (import-time state only)
    from props import c01           # noqa: F401
    from props import c01_hist
    for line in sys.stdin:
        expr = json.loads(line)
        r, w = os.pipe()
        pid = os.fork()
        if pid == 0:
            code = 0
            try:
                os.close(r)
                try:
                    data = json.dumps(c01_hist.convert(expr))
                except BaseException as x:          # never let a child fall back into the server loop
                    data = json.dumps({"helper-error": repr(x)})
                with os.fdopen(w, "w") as f:
                    f.write(data)
            except BaseException:
                code = 1
            os._exit(code)
        os.close(w)
        with os.fdopen(r) as f:
            data = f.read()
        os.waitpid(pid, 0)
        sys.stdout.write((data or json.dumps({"helper-error": "no data"})) + "\n")
        sys.stdout.flush()


# ------------------------------------------------------------------------------------------------
# generator
# ------------------------------------------------------------------------------------------------
def _decimal_family(rng):
    """texts of numerically equal Decimals written differently"""
    r = rng.random()
    if r < 0.2:
        return rng.sample(["0", "-0", "0.0", "0E+2", "-0.00", "0E-7", "-0E+1"], rng.choice([2, 3, 4]))
    if r < 0.3:
        return rng.choice([["2.5", "2.50", "25E-1"], ["1000", "1E+3", "1.000E+3", "10E+2"], ["7.10", "7.1"], ["1", "1.0", "1.00", "10E-1"]])
    sign = rng.choice(["", "", "-"])
    n = rng.randint(1, 10 ** rng.choice([1, 3, 9, 18, 30]))
    frac = rng.choice(["", "", str(rng.randint(1, 999))])
    base = D(sign + str(n) + ("." + frac if frac else ""))
    forms = {str(base)}
    norm = base.normalize()
    forms.add(str(norm))
    plain = str(base)
    for k in (1, 2, rng.randint(3, 9)):
        forms.add(plain + "0" * k if "." in plain else plain + "." + "0" * k)        # trailing zeros
    t = norm.as_tuple()
    digits = "".join(map(str, t.digits))
    forms.add("%s%sE%+d" % ("-" if t.sign else "", digits, t.exponent))              # digits with an explicit exponent
    if t.exponent >= 0 and len(digits) > 1:
        forms.add("%s%s.%sE%+d" % ("-" if t.sign else "", digits[0], digits[1:], t.exponent + len(digits) - 1))
    forms = [f for f in sorted(forms) if D(f) == base]
    rng.shuffle(forms)
    return forms[:rng.choice([2, 3, 4])]


def _equal_family(rng):
    """expressions of equal (== and hash) values that are written / typed differently"""
    r = rng.random()
    if r < 0.5:
        return ["D(%r)" % t for t in _decimal_family(rng)]
    if r < 0.62:
        n = rng.choice([0, 1, 1, 2, 255, rng.randint(-10 ** 6, 10 ** 6), 2 ** 63, 2 ** 70])
        fam = [repr(n), "MyInt(%d)" % n, "D(%r)" % str(n), "D('%d.0')" % n, "complex(%d, 0)" % n]
        if abs(n) < 2 ** 53:
            fam.append("float(%d)" % n)
        if n in (0, 1):
            fam.append(repr(bool(n)))
        if n == 0:
            fam += ["-0.0", "D('-0')"]
        return rng.sample(fam, rng.choice([2, 3, 4]))
    if r < 0.74:
        u = uuid.UUID(int=rng.choice([0, 5, rng.getrandbits(128), rng.getrandbits(128)]))
        fam = ["uuid.UUID(int=%d)" % u.int, "uuid.UUID(%r)" % str(u), "uuid.UUID(%r)" % ("{" + str(u).upper() + "}"),
               "uuid.UUID(%r)" % u.urn, "uuid.UUID(bytes=%r)" % u.bytes, "uuid.UUID(hex=%r)" % u.hex]
        return rng.sample(fam, rng.choice([2, 3]))
    if r < 0.86:
        t = rng.choice(["", "a", "2.50", "héllo", "__class__", "k", "\x00x", "😀"])
        return ["%r" % t, "MyStr(%r)" % t]
    if r < 0.93:
        b = bytes(rng.getrandbits(8) for _ in range(rng.choice([0, 1, 3, 8])))
        return ["%r" % b, "bytearray(%r)" % b]
    a, b = rng.randint(0, 9), rng.choice(["'x'", "2.5", "D('2.50')", "None"])
    return ["(%d, %s)" % (a, b), "NT(%d, %s)" % (a, b)]


def _wrap(rng, e):
    r = rng.random()
    if r < 0.45:
        return e
    if r < 0.6:
        return "[%s]" % e
    if r < 0.7:
        return "(%s,)" % e
    if r < 0.8:
        return "{'k': %s}" % e
    if r < 0.9:
        return "[1, [%s, 'x'], {'d': %s}]" % (e, e)
    return "{'a': [%s], 'b': (%s, None)}" % (e, e)


def gen_history(rng):
    """list of expressions: members of one or two equal-families, in any order, plain and wrapped, with unrelated
    values in between, sometimes several members inside one container"""
    fam = _equal_family(rng)
    items = []
    for e in fam:
        items.append(_wrap(rng, e))
        if rng.random() < 0.3:
            items.append(rng.choice(["None", "'text'", "[1, 2.5]", "D('3.14')", "{'k': 'v'}", "2**70", "b'x'"]))
        if rng.random() < 0.25:
            items.append(_wrap(rng, e))                 # the same member once more
    if rng.random() < 0.5:
        items.append("[%s]" % ", ".join(fam))           # all members side by side in one list
    if rng.random() < 0.25:
        items.append("{%s}" % ", ".join("'k%d': %s" % (i, e) for i, e in enumerate(fam)))
    if rng.random() < 0.3:
        items += [_wrap(rng, e) for e in _equal_family(rng)]
    if rng.random() < 0.1:
        items.insert(rng.randrange(len(items) + 1), rng.choice(["D('sNaN')", "D('NaN')", "D('-Infinity')", "[D('sNaN'), D('NaN')]"]))
    return items


# ------------------------------------------------------------------------------------------------
# oracle
# ------------------------------------------------------------------------------------------------
TEXT_SERS = {"Decimal": ("json", "msgpack", "serpent"), "UUID": ("json", "msgpack", "serpent", "marshal")}
PATHS = ["result", "positional argument", "keyword argument"]


def check_history(ctx, pristine, history):
    """run one history in this process; report the first item whose mapping differs from the pristine reference"""
    from props import c01_vals as V
    for idx, expr in enumerate(history):
        here = convert(expr)
        ctx.evaluations += 1
        ref = pristine.ask(expr)
        if "helper-error" in ref:
            raise RuntimeError("pristine helper: %s on %s" % (ref["helper-error"], expr))
        case = {"history": history[:idx + 1], "index": idx}
        v = ev(expr)
        for ser in SERS:
            for path, a, b in zip(PATHS, here[ser], ref[ser]):
                if a != b:
                    ctx.fail("mapping-depends-on-history-%s" % ser,
                             "%s: %s of %s after the history %s arrives as %s, but alone in a fresh process as %s"
                             % (ser, path, expr, history[:idx], a[:200], b[:200]), dict(case, serializer=ser, path=path))
                    return False
            # a Decimal / UUID is mapped to its own text
            tname = type(v).__name__
            if type(v) in (D, uuid.UUID) and ser in TEXT_SERS[tname]:
                want = repr(("ok", ("S", str(v))))
                if here[ser][0] != want:
                    ctx.fail("scalar-text-changed-%s" % ser, "%s: %s arrives as %s instead of its own text %r (history %s)"
                             % (ser, expr, here[ser][0][:200], str(v), history[:idx]), dict(case, serializer=ser, path="result"))
                    return False
            # nested position: an element of a delivered list is what the element alone maps to
            if type(v) is list and v and here[ser][0].startswith("('ok', ('L',"):
                got = eval(here[ser][0], {"__builtins__": {}})[1][1]
                elems = _split_list_expr(expr)
                if elems is not None and len(elems) == len(got):
                    for e, g in zip(elems, got):
                        r = pristine.ask(e)[ser][0]
                        if r.startswith("('ok'") and r != repr(("ok", g)):
                            ctx.fail("mapping-depends-on-history-%s" % ser,
                                     "%s: inside the list %s the element %s arrives as %s, but alone in a fresh process as %s (history %s)"
                                     % (ser, expr, e, repr(g)[:200], r[:200], history[:idx]), dict(case, serializer=ser, path="nested"))
                            return False
        if len(ctx.samples) < 6 and idx == len(history) - 1 and len(history) >= 3:
            ctx.sample({"history": history, "last": {s: here[s][0][:80] for s in ("json", "msgpack")}})
        ctx.nontriv(("hist", tuple(history[:idx + 1])))
    return True


def _split_list_expr(expr):
    """the element expressions of a list display produced by gen_history (top-level commas only)"""
    if not (expr.startswith("[") and expr.endswith("]")):
        return None
    body, out, depth, cur, quote = expr[1:-1], [], 0, "", None
    i = 0
    while i < len(body):
        c = body[i]
        if quote:
            cur += c
            if c == "\\":
                cur += body[i + 1]
                i += 1
            elif c == quote:
                quote = None
        elif c in "'\"":
            quote = c
            cur += c
        elif c in "([{":
            depth += 1
            cur += c
        elif c in ")]}":
            depth -= 1
            cur += c
        elif c == "," and depth == 0:
            out.append(cur.strip())
            cur = ""
        else:
            cur += c
        i += 1
    if cur.strip():
        out.append(cur.strip())
    try:
        if [repr(ev(e)) for e in out] != [repr(x) for x in ev(expr)]:
            return None
    except Exception:
        return None
    return out


def corpus_histories():
    d = os.path.join(common.VERIF, "corpus", "C01")
    out = []
    if os.path.isdir(d):
        for f in sorted(os.listdir(d)):
            if f.endswith(".json"):
                c = json.load(open(os.path.join(d, f)))
                if "history" in c:
                    out.append(c["history"])
    return out


def run(ctx):
    rng = ctx.sub_rng("hist-search" if ctx.search_mode else "hist")
    pristine = Pristine()
    try:
        hs = corpus_histories() + [gen_history(rng) for _ in range(ctx.n(160, 2500))]
        for h in hs:
            ctx.count("hist:len=%d" % min(len(h), 9))
            check_history(ctx, pristine, h)
    finally:
        pristine.close()


def replay(case):
    ctx = common.Ctx("C01", "quick", 0)
    pristine = Pristine()
    try:
        print("history:", case["history"])
        check_history(ctx, pristine, case["history"])
    finally:
        pristine.close()
    for f in ctx.failures:
        print("REPRODUCED [%s] %s" % (f["signature"], f["desc"][:600]))
    if not ctx.failures:
        print("not reproduced: every item of the history maps as it does alone in a fresh process")
    return 1 if ctx.failures else 0


if __name__ == "__main__":
    _serve()
