"""C11 - per-property translator: python `ast` of the functions that DECIDE the property -> Lean source text (shallow
embedding over the types of lean/PyroModel/Batch.lean).  Runs inside extract() on every run, on the tree under check.

Transcribed (each becomes a `def ...Src` in lean/PyroModel/Gen/C11.lean):
  batchLoopSrc    Daemon.handleRequest, the body of `if request_flags & protocol.FLAGS_BATCH:` (the loop over the items
                  as received: item check, unpack, exposure gate, call, except -> wrapper + break, else -> append)
  resultsGenSrc   the generator BatchProxy.__call__ returns (found by following the call, whatever it is named), with
                  core._ExceptionWrapper.raiseIt inlined
  batchCallSrc    BatchProxy.__call__
  invokeBatchSrc  Proxy._pyroInvokeBatch (flags resolved to their values through the real module)

SOUND BY REFUSAL: every statement / expression / call target / attribute that is not explicitly handled below raises
Untranslatable.  Silently skipped are only docstrings, comments (not in the AST), annotations and `log.*(...)` calls.
Normalisations: python names never reach the output (Lean names are numbered in order of first binding); control flow is
emitted in continuation-passing form, so try/except/else == try/except + following statements when the handler leaves the
loop, `if c: A else: B` == `if not c: B else: A` == `if c: A; continue` + B; tests are put in negation normal form
(De Morgan, `not (a == b)` = `a != b`, nested and/or flattened) and a private module-level helper whose body is one
`return <test>` is inlined where it is called in a condition; module-level constants (names or attributes) are folded; tests on a value whose constructor is known
and tests on the boolean parameter `oneway` are decided at translation time (the function is emitted once per value of
`oneway`), integer constants are resolved through the real module and folded; private helpers (the results generator,
raiseIt) are inlined at the call site.
"""
import ast
import builtins
import inspect
import textwrap

import common


class Untranslatable(Exception):
    pass


def _no(node, why=""):
    what = ast.dump(node)[:160] if isinstance(node, ast.AST) else repr(node)
    raise Untranslatable("%s: %s (line %s)" % (why or "not in the fragment", what, getattr(node, "lineno", "?")))


def _fn_ast(fn):
    src = textwrap.dedent(inspect.getsource(fn))
    node = ast.parse(src).body[0]
    if not isinstance(node, (ast.FunctionDef,)):
        _no(node, "not a plain function")
    return node


def _resolve(node, module):
    """value of a Name / dotted Attribute chain in the real module's namespace (constants, classes, functions)"""
    parts = []
    n = node
    while isinstance(n, ast.Attribute):
        parts.append(n.attr)
        n = n.value
    if not isinstance(n, ast.Name):
        _no(node, "not a global name")
    ns = module.__dict__
    if n.id in ns:
        v = ns[n.id]
    elif hasattr(builtins, n.id):
        v = getattr(builtins, n.id)
    else:
        _no(node, "unknown global")
    for a in reversed(parts):
        if not hasattr(v, a):
            _no(node, "unknown attribute")
        v = getattr(v, a)
    return v


def _skippable(stmt):
    """docstrings, log.*(...) calls, bare annotations"""
    if isinstance(stmt, ast.Expr) and isinstance(stmt.value, ast.Constant) and isinstance(stmt.value.value, str):
        return True
    if isinstance(stmt, ast.Expr) and isinstance(stmt.value, ast.Call) and isinstance(stmt.value.func, ast.Attribute) \
            and isinstance(stmt.value.func.value, ast.Name) and stmt.value.func.value.id == "log":
        return True
    if isinstance(stmt, ast.AnnAssign) and stmt.value is None:
        return True
    return False


def _body(stmts):
    return [s for s in stmts if not _skippable(s)]


class St:
    """translation state: python name -> tagged Lean term, current Lean names of the object state / accumulator, handlers"""

    def __init__(self, env, s, d, handlers=()):
        self.env, self.s, self.d, self.handlers = dict(env), s, d, tuple(handlers)

    def but(self, **kw):
        n = St(self.env, self.s, self.d, self.handlers)
        for k, v in kw.items():
            if k == "bind":
                n.env.update(v)
            else:
                setattr(n, k, v)
        return n


def _ind(txt, n=2):
    return "\n".join((" " * n + l) if l else l for l in txt.split("\n"))


# ---------------------------------------------------------------------------------------------------------------
# server: the batch branch of Daemon.handleRequest
# ---------------------------------------------------------------------------------------------------------------

class ServerLoop:
    SELF = "batchLoopSrc w errs sent o"

    def __init__(self, server, core, errors, protocol):
        self.m, self.core, self.errors, self.protocol = server, core, errors, protocol
        self.k = 0
        self.depth = 0

    def fresh(self, p):
        self.k += 1
        return "%s%d" % (p, self.k)

    # -- expressions over wire values -------------------------------------------------------------------------
    def wexpr(self, e, st):
        """a deserialised value"""
        if isinstance(e, ast.Name):
            v = st.env.get(e.id)
            if v and v[0] == "w":
                return v[1]
            _no(e, "name is not a received value")
        if isinstance(e, ast.Subscript) and isinstance(e.slice, ast.Constant) and type(e.slice.value) is int \
                and e.slice.value >= 0:
            return "(w.item %s %d)" % (self.wexpr(e.value, st), e.slice.value)
        _no(e, "value expression")

    def nexpr(self, e, st):
        if isinstance(e, ast.Constant) and type(e.value) is int and e.value >= 0:
            return str(e.value)
        if isinstance(e, ast.Call) and isinstance(e.func, ast.Name) and e.func.id == "len" and "len" not in st.env \
                and len(e.args) == 1 and not e.keywords:
            return "(w.len %s)" % self.wexpr(e.args[0], st)
        _no(e, "number expression")

    def btree(self, e, st):
        """test expression -> tree: ('or'|'and', [trees]) | ('not', tree) | ('cmp', '=='|'!=', a, b) | ('atom', text)"""
        if isinstance(e, ast.BoolOp):
            return ("or" if isinstance(e.op, ast.Or) else "and", [self.btree(v, st) for v in e.values])
        if isinstance(e, ast.UnaryOp) and isinstance(e.op, ast.Not):
            return ("not", self.btree(e.operand, st))
        if isinstance(e, ast.Compare) and len(e.ops) == 1:
            a, b = self.nexpr(e.left, st), self.nexpr(e.comparators[0], st)
            if isinstance(e.ops[0], ast.NotEq):
                return ("cmp", "!=", a, b)
            if isinstance(e.ops[0], ast.Eq):
                return ("cmp", "==", a, b)
            _no(e, "comparison")
        if isinstance(e, ast.Call) and isinstance(e.func, ast.Name) and e.func.id == "isinstance" \
                and "isinstance" not in st.env and len(e.args) == 2 and not e.keywords:
            t = e.args[1]
            classes = [_resolve(x, self.m) for x in t.elts] if isinstance(t, ast.Tuple) else [_resolve(t, self.m)]
            x = self.wexpr(e.args[0], st)
            if set(classes) == {list, tuple} and len(classes) == 2:
                return ("atom", "(w.isSeq %s)" % x)
            if classes == [dict]:
                return ("atom", "(w.isDict %s)" % x)
            _no(e, "isinstance of other classes")
        # a private module-level helper of the same module whose body is one `return <test expression>`: inlined
        if isinstance(e, ast.Call) and isinstance(e.func, ast.Name) and e.func.id not in st.env and not e.keywords:
            fn = _resolve(e.func, self.m)
            if inspect.isfunction(fn) and fn.__module__ == self.m.__name__ and fn.__name__.startswith("_") \
                    and self.depth < 3:
                node = _fn_ast(fn)
                a = node.args
                body = _body(node.body)
                if node.decorator_list or a.vararg or a.kwarg or a.kwonlyargs or a.defaults or a.posonlyargs \
                        or len(a.args) != len(e.args) or len(body) != 1 or not isinstance(body[0], ast.Return) \
                        or body[0].value is None:
                    _no(e, "helper shape")
                inner = St({p.arg: ("w", self.wexpr(x, st)) for p, x in zip(a.args, e.args)}, st.s, st.d)
                self.depth += 1
                try:
                    return self.btree(body[0].value, inner)
                finally:
                    self.depth -= 1
        _no(e, "test expression")

    def nnf(self, t, neg=False):
        """negation normal form (De Morgan, double negation, not(a == b) = a != b), nested and/or flattened"""
        k = t[0]
        if k == "not":
            return self.nnf(t[1], not neg)
        if k in ("or", "and"):
            op = k if not neg else ("and" if k == "or" else "or")
            out = []
            for x in t[1]:
                y = self.nnf(x, neg)
                out += y[1] if y[0] == op else [y]
            return (op, out)
        if k == "cmp":
            return ("cmp", t[1] if not neg else ("!=" if t[1] == "==" else "=="), t[2], t[3])
        return ("not", t) if neg else t

    def show(self, t):
        k = t[0]
        if k in ("or", "and"):
            return "(" + (" || " if k == "or" else " && ").join(self.show(x) for x in t[1]) + ")"
        if k == "not":
            return "(!%s)" % self.show(t[1])
        if k == "cmp":
            return "(%s %s %s)" % (t[2], t[1], t[3])
        return t[1]

    def bexpr(self, e, st):
        return self.show(self.nnf(self.btree(e, st)))

    # -- control ----------------------------------------------------------------------------------------------
    def raise_to(self, st, exc):
        """an exception `exc` (Lean term) is raised in state st"""
        if st.handlers:
            h = st.handlers[-1]
            inner = st.but(handlers=st.handlers[:-1])
            if h["name"]:
                inner = inner.but(bind={h["name"]: ("exc", exc)})
            return self.stmts(h["body"], inner, h["k"])
        return "(%s, .escaped %s)" % (st.s, exc)

    def loop_exit(self, st):
        return "(%s, .data %s)" % (st.s, st.d)

    def loop_next(self, st):
        return "%s %s rest %s" % (self.SELF, st.s, st.d)

    def stmts(self, body, st, k):
        body = _body(body)
        if not body:
            return k(st)
        return self.stmt(body[0], st, lambda st2: self.stmts(body[1:], st2, k))

    def unpack(self, names, src, st, k):
        xs = [self.fresh("x") for _ in names]
        ok = k(st.but(bind={n: ("w", x) for n, x in zip(names, xs)}))
        bad = self.raise_to(st, "errs.unpackError")
        return "(match w.unpack %s %d with\n | some [%s] =>\n%s\n | _ => %s)" % (src, len(names), ", ".join(xs), _ind(ok, 4), bad)

    def stmt(self, s, st, k):
        if isinstance(s, ast.If):
            t = self.bexpr(s.test, st)
            a = self.stmts(s.body, st, k)
            b = self.stmts(s.orelse, st, k)
            return "(if %s then\n%s\n else\n%s)" % (t, _ind(a, 4), _ind(b, 4))
        if isinstance(s, ast.Raise):
            if s.cause is not None or not isinstance(s.exc, ast.Call) or s.exc.keywords:
                _no(s, "raise form")
            cls = _resolve(s.exc.func, self.m)
            if not all(isinstance(a, ast.Constant) for a in s.exc.args):
                _no(s, "raise arguments")
            if cls is TypeError:
                return self.raise_to(st, "errs.typeError")
            _no(s, "raised class")
        if isinstance(s, ast.Pass):
            return k(st)
        if isinstance(s, ast.Break):
            return self.loop_exit(st)
        if isinstance(s, ast.Continue):
            return self.loop_next(st)
        if isinstance(s, ast.Try):
            if s.finalbody or len(s.handlers) != 1:
                _no(s, "try form")
            h = s.handlers[0]
            if h.type is None or _resolve(h.type, self.m) is not Exception:
                _no(h, "handler must be `except Exception`")
            hd = {"name": h.name, "body": h.body, "k": k}
            inner = st.but(handlers=st.handlers + (hd,))
            return self.stmts(s.body, inner,
                              lambda st2: self.stmts(s.orelse, st2.but(handlers=st2.handlers[:-1]), k))
        if isinstance(s, ast.Assign) and len(s.targets) == 1:
            return self.assign(s.targets[0], s.value, s, st, k)
        if isinstance(s, ast.Expr) and isinstance(s.value, ast.Call):
            return self.call_stmt(s.value, s, st, k)
        _no(s, "statement")

    def names_of(self, t):
        if isinstance(t, ast.Tuple) and all(isinstance(x, ast.Name) for x in t.elts):
            return [x.id for x in t.elts]
        _no(t, "assignment target")

    def assign(self, target, value, s, st, k):
        # a, b, c = <received value>
        if isinstance(target, ast.Tuple) and isinstance(value, ast.Name):
            return self.unpack(self.names_of(target), self.wexpr(value, st), st, k)
        if isinstance(value, ast.Call):
            f = value.func
            # <name> = _get_attribute(obj, <received value>)       the exposure gate
            if isinstance(f, ast.Name) and f.id not in st.env and _resolve(f, self.m) is self.m._get_attribute:
                if len(value.args) != 2 or value.keywords or not isinstance(value.args[0], ast.Name) \
                        or st.env.get(value.args[0].id) != ("obj",) or not isinstance(target, ast.Name):
                    _no(s, "gate call form")
                x = self.wexpr(value.args[1], st)
                e = self.fresh("e")
                return "(match o.gate %s %s with\n | some %s => %s\n | none =>\n%s)" % (
                    st.s, x, e, self.raise_to(st, e), _ind(k(st.but(bind={target.id: ("method", x)})), 4))
            # <name> = <gated method>(*a, **kw)                    the call
            if isinstance(f, ast.Name) and st.env.get(f.id, ("",))[0] == "method":
                if len(value.args) != 1 or not isinstance(value.args[0], ast.Starred) or len(value.keywords) != 1 \
                        or value.keywords[0].arg is not None or not isinstance(target, ast.Name):
                    _no(s, "method call form")
                a = self.wexpr(value.args[0].value, st)
                kw = self.wexpr(value.keywords[0].value, st)
                s1, e, v = self.fresh("s"), self.fresh("e"), self.fresh("v")
                return "(match o.apply %s %s (%s, %s) with\n | (%s, .exc %s) => %s\n | (%s, .ok %s) =>\n%s)" % (
                    st.s, st.env[f.id][1], a, kw, s1, e, self.raise_to(st.but(s=s1), e), s1, v,
                    _ind(k(st.but(s=s1, bind={target.id: ("val", v)})), 4))
            # tb = errors.format_traceback(...)                    pure, only handed on to _serializeException
            if isinstance(target, ast.Name) and _resolve(f, self.m) is self.errors.format_traceback:
                return k(st.but(bind={target.id: ("tb",)}))
            # sendable, _ = self._serializeException(serializer, xv, tb)
            if isinstance(f, ast.Attribute) and isinstance(f.value, ast.Name) and st.env.get(f.value.id) == ("self",) \
                    and f.attr == "_serializeException" and hasattr(self.m.Daemon, "_serializeException"):
                names = self.names_of(target)
                if len(names) != 2 or len(value.args) != 3 or value.keywords:
                    _no(s, "_serializeException form")
                a0, a1, a2 = value.args
                if not (isinstance(a0, ast.Name) and st.env.get(a0.id) == ("serializer",)
                        and isinstance(a1, ast.Name) and st.env.get(a1.id, ("",))[0] == "exc"
                        and isinstance(a2, ast.Name) and st.env.get(a2.id) == ("tb",)):
                    _no(s, "_serializeException arguments")
                return k(st.but(bind={names[0]: ("exc", "(sent %s)" % st.env[a1.id][1]), names[1]: ("blob",)}))
        _no(s, "assignment")

    def call_stmt(self, c, s, st, k):
        f = c.func
        # self.methodcall_error_handler(...)    user hook (default: logs); no effect on what the model observes
        if isinstance(f, ast.Attribute) and isinstance(f.value, ast.Name) and st.env.get(f.value.id) == ("self",) \
                and f.attr == "methodcall_error_handler":
            return k(st)
        # data.append(<result>) / data.append(core._ExceptionWrapper(<exc>))
        if isinstance(f, ast.Attribute) and isinstance(f.value, ast.Name) and st.env.get(f.value.id) == ("data",) \
                and f.attr == "append" and len(c.args) == 1 and not c.keywords:
            a = c.args[0]
            if isinstance(a, ast.Name) and st.env.get(a.id, ("",))[0] == "val":
                item = ".val %s" % st.env[a.id][1]
            elif isinstance(a, ast.Call) and _resolve(a.func, self.m) is self.core._ExceptionWrapper and len(a.args) == 1 \
                    and not a.keywords and isinstance(a.args[0], ast.Name) and st.env.get(a.args[0].id, ("",))[0] == "exc":
                item = ".wrapped %s" % st.env[a.args[0].id][1]
            else:
                _no(s, "appended value")
            return k(st.but(d="(%s ++ [%s])" % (st.d, item)))
        _no(s, "call statement")

    # -- entry ------------------------------------------------------------------------------------------------
    def translate(self):
        fn = _fn_ast(self.m.Daemon.handleRequest)
        self_name = fn.args.args[0].arg
        # the names bound from serializer.loadsCall(...): objId, method, vargs, kwargs
        loads = [n for n in ast.walk(fn) if isinstance(n, ast.Assign) and isinstance(n.value, ast.Call)
                 and isinstance(n.value.func, ast.Attribute) and n.value.func.attr == "loadsCall"]
        if len(loads) != 1 or not isinstance(loads[0].targets[0], ast.Tuple) or len(loads[0].targets[0].elts) != 4:
            _no(fn, "loadsCall assignment")
        ser_name = loads[0].value.func.value.id if isinstance(loads[0].value.func.value, ast.Name) else _no(fn, "serializer")
        vargs_name = self.names_of(loads[0].targets[0])[2]
        # obj = _unpack_weakref(self.objectsById.get(objId))
        objs = [n for n in ast.walk(fn) if isinstance(n, ast.Assign) and isinstance(n.value, ast.Call)
                and isinstance(n.value.func, ast.Name) and n.value.func.id == "_unpack_weakref"]
        if len(objs) != 1 or not isinstance(objs[0].targets[0], ast.Name):
            _no(fn, "object lookup")
        obj_name = objs[0].targets[0].id
        # the branch `if <flags> & protocol.FLAGS_BATCH:`
        def is_batch_test(t):
            if isinstance(t, ast.BinOp) and isinstance(t.op, ast.BitAnd):
                for a, b in ((t.left, t.right), (t.right, t.left)):
                    if isinstance(a, ast.Name) and isinstance(b, (ast.Attribute, ast.Name)):
                        try:
                            if _resolve(b, self.m) == self.protocol.FLAGS_BATCH and type(_resolve(b, self.m)) is int:
                                return True
                        except Untranslatable:
                            pass
            return False
        branches = [n for n in ast.walk(fn) if isinstance(n, ast.If) and is_batch_test(n.test)]
        if len(branches) != 1:
            _no(fn, "batch branch not found exactly once")
        body = _body(branches[0].body)
        loops = [s for s in body if isinstance(s, ast.For)]
        if len(loops) != 1:
            _no(branches[0], "one loop expected in the batch branch")
        loop = loops[0]
        data_name = None
        used = {n.id for n in ast.walk(loop) if isinstance(n, ast.Name)}
        for s in body:
            if s is loop:
                continue
            # `data = []` (the accumulator) or a flag `<name> = <constant>` that the loop does not look at
            if isinstance(s, ast.Assign) and len(s.targets) == 1 and isinstance(s.targets[0], ast.Name):
                if isinstance(s.value, ast.List) and not s.value.elts and body.index(s) < body.index(loop) and data_name is None:
                    data_name = s.targets[0].id
                    continue
                if isinstance(s.value, ast.Constant) and s.targets[0].id not in used:
                    continue
            _no(s, "statement of the batch branch")
        if data_name is None or loop.orelse:
            _no(loop, "accumulator / for-else")
        if not (isinstance(loop.iter, ast.Name) and loop.iter.id == vargs_name):
            _no(loop.iter, "the loop must run over the received call list")
        env = {self_name: ("self",), obj_name: ("obj",), ser_name: ("serializer",), data_name: ("data",)}
        st = St(env, "s", "d")
        end = lambda st2: self.loop_next(st2)
        if isinstance(loop.target, ast.Name):
            body_txt = self.stmts(loop.body, st.but(bind={loop.target.id: ("w", "c")}), end)
        else:
            body_txt = self.unpack(self.names_of(loop.target), "c", st, lambda st2: self.stmts(loop.body, st2, end))
        return (
            "/-- TRANSCRIBED from Daemon.handleRequest (Pyro5/server.py), body of `if request_flags & protocol.FLAGS_BATCH:` -/\n"
            "def batchLoopSrc {St W Val Exc : Type} (w : WireOps W) (errs : SrcErrs Exc) (sent : Exc → Exc)\n"
            "    (o : Obj St W (W × W) Val Exc) : St → List W → List (Item Val Exc) → St × LoopResult Val Exc\n"
            "  | s, [], d => (s, .data d)\n"
            "  | s, c :: rest, d =>\n" + _ind(body_txt, 4) + "\n")


# ---------------------------------------------------------------------------------------------------------------
# client: BatchProxy.__call__, its results generator, Proxy._pyroInvokeBatch
# ---------------------------------------------------------------------------------------------------------------

def _self_attr(e, self_name):
    if isinstance(e, ast.Attribute) and isinstance(e.value, ast.Name) and e.value.id == self_name:
        return e.attr
    return None


def _mangle(cls, attr):
    if attr.startswith("__") and not attr.endswith("__"):
        return "_%s%s" % (cls.__name__.lstrip("_"), attr)
    return attr


class Client:
    def __init__(self, client, core, protocol):
        self.m, self.core, self.protocol = client, core, protocol
        self.k = 0
        self.BP = client.BatchProxy
        init = _fn_ast(self.BP.__init__)
        me = init.args.args[0].arg
        params = [a.arg for a in init.args.args[1:]]
        self.proxy_attr = self.calls_attr = None
        for s in _body(init.body):
            if isinstance(s, ast.Assign) and len(s.targets) == 1 and _self_attr(s.targets[0], me):
                a = _self_attr(s.targets[0], me)
                if isinstance(s.value, ast.Name) and params and s.value.id == params[0]:
                    self.proxy_attr = a
                    continue
                if isinstance(s.value, ast.List) and not s.value.elts:
                    self.calls_attr = a
                    continue
            _no(s, "BatchProxy.__init__")
        if not self.proxy_attr or not self.calls_attr or len(params) != 1:
            _no(init, "BatchProxy.__init__ shape")

    def fresh(self, p):
        self.k += 1
        return "%s%d" % (p, self.k)

    # -- core._ExceptionWrapper.raiseIt: `raise self.<attr>` where __init__ stored its parameter in that attr --------
    def wrapper_raises_its_exception(self):
        W = self.core._ExceptionWrapper
        init, rz = _fn_ast(W.__init__), _fn_ast(W.raiseIt)
        me = init.args.args[0].arg
        stored = None
        b = _body(init.body)
        if len(init.args.args) == 2 and len(b) == 1 and isinstance(b[0], ast.Assign) and len(b[0].targets) == 1 \
                and _self_attr(b[0].targets[0], me) and isinstance(b[0].value, ast.Name) \
                and b[0].value.id == init.args.args[1].arg:
            stored = _self_attr(b[0].targets[0], me)
        else:
            _no(init, "_ExceptionWrapper.__init__")
        rb = _body(rz.body)
        me2 = rz.args.args[0].arg
        if len(rz.args.args) == 1 and len(rb) == 1 and isinstance(rb[0], ast.Raise) and rb[0].cause is None \
                and _self_attr(rb[0].exc, me2) == stored:
            return True
        _no(rz, "_ExceptionWrapper.raiseIt")

    # -- the results generator ----------------------------------------------------------------------------------
    def gen_stmts(self, body, st, k):
        body = _body(body)
        if not body:
            return k(st)
        return self.gen_stmt(body[0], st, lambda st2: self.gen_stmts(body[1:], st2, k))

    def gen_is_wrapper_test(self, e, st):
        """(negated?, True) if e is [not] isinstance(<item>, core._ExceptionWrapper)"""
        neg = False
        while isinstance(e, ast.UnaryOp) and isinstance(e.op, ast.Not):
            neg, e = not neg, e.operand
        if isinstance(e, ast.Call) and isinstance(e.func, ast.Name) and e.func.id == "isinstance" and len(e.args) == 2 \
                and not e.keywords and isinstance(e.args[0], ast.Name) and e.args[0].id == st["item"] \
                and _resolve(e.args[1], self.m) is self.core._ExceptionWrapper:
            return neg
        _no(e, "generator test")

    def gen_stmt(self, s, st, k):
        if isinstance(s, ast.If):
            neg = self.gen_is_wrapper_test(s.test, st)
            yes, no = (s.orelse, s.body) if neg else (s.body, s.orelse)      # yes = item is a wrapper
            if st["kind"] == "wrapped":
                return self.gen_stmts(yes, st, k)
            if st["kind"] == "val":
                return self.gen_stmts(no, st, k)
            e, v = self.fresh("e"), self.fresh("v")
            a = self.gen_stmts(yes, dict(st, kind="wrapped", term=e), k)
            b = self.gen_stmts(no, dict(st, kind="val", term=v), k)
            return "(match r with\n | .wrapped %s =>\n%s\n | .val %s =>\n%s)" % (e, _ind(a, 4), v, _ind(b, 4))
        if isinstance(s, ast.Expr) and isinstance(s.value, ast.Yield):
            y = s.value.value
            if not (isinstance(y, ast.Name) and y.id == st["item"] and st["kind"] == "val"):
                _no(s, "only a plain result may be yielded")
            vs, x = self.fresh("vs"), self.fresh("x")
            return "(match %s with\n | (%s, %s) => (%s :: %s, %s))" % (k(st), vs, x, st["term"], vs, x)
        if isinstance(s, ast.Expr) and isinstance(s.value, ast.Call):
            f = s.value.func
            if isinstance(f, ast.Attribute) and isinstance(f.value, ast.Name) and f.value.id == st["item"] \
                    and f.attr == "raiseIt" and not s.value.args and not s.value.keywords and st["kind"] == "wrapped":
                self.wrapper_raises_its_exception()
                return "([], some %s)" % st["term"]
            _no(s, "generator call")
        if isinstance(s, ast.Pass):
            return k(st)
        if isinstance(s, ast.Continue):
            return "resultsGenSrc rest"
        if isinstance(s, ast.Return) and s.value is None:
            return "([], none)"
        _no(s, "generator statement")

    def results_gen(self, fn):
        if len(fn.args.args) != 2 or fn.args.vararg or fn.args.kwarg or fn.args.kwonlyargs:
            _no(fn, "generator signature")
        body = _body(fn.body)
        if len(body) != 1 or not isinstance(body[0], ast.For) or body[0].orelse or not isinstance(body[0].target, ast.Name) \
                or not (isinstance(body[0].iter, ast.Name) and body[0].iter.id == fn.args.args[1].arg):
            _no(fn, "generator shape")
        st = {"item": body[0].target.id, "kind": None, "term": None}
        txt = self.gen_stmts(body[0].body, st, lambda st2: "resultsGenSrc rest")
        return ("/-- TRANSCRIBED from the generator BatchProxy.__call__ returns (Pyro5/client.py), raiseIt (core.py) inlined -/\n"
                "def resultsGenSrc {Val Exc : Type} : List (Item Val Exc) → List Val × Option Exc\n"
                "  | [] => ([], none)\n"
                "  | r :: rest =>\n" + _ind(txt, 4) + "\n")

    # -- straight-line functions with the boolean parameter decided ------------------------------------------------
    def cval(self, e, env):
        """compile-time value of an expression (ints, bools, None, strings); env: name -> python value"""
        if isinstance(e, ast.Constant) and (e.value is None or type(e.value) in (int, bool, str)):
            return e.value
        if isinstance(e, ast.Name) and e.id in env:
            return env[e.id]
        if isinstance(e, ast.Name):
            v = _resolve(e, self.m)          # a module-level constant
            if v is None or type(v) in (int, bool, str):
                return v
            _no(e, "constant")
        if isinstance(e, ast.Attribute):
            v = _resolve(e, self.m)
            if type(v) in (int, str):
                return v
            _no(e, "constant")
        if isinstance(e, ast.BinOp) and isinstance(e.op, ast.BitOr):
            a, b = self.cval(e.left, env), self.cval(e.right, env)
            if type(a) is int and type(b) is int:
                return a | b
        if isinstance(e, ast.UnaryOp) and isinstance(e.op, ast.Not):
            a = self.cval(e.operand, env)
            if type(a) is bool:
                return not a
        if isinstance(e, ast.IfExp):
            t = self.cval(e.test, env)
            if type(t) is bool:
                return self.cval(e.body if t else e.orelse, env)
        _no(e, "compile-time expression")

    def invoke_batch_case(self, fn, oneway):
        me = fn.args.args[0].arg
        calls_p, ow_p = fn.args.args[1].arg, fn.args.args[2].arg
        env = {ow_p: oneway}

        def run(body):
            for s in _body(body):
                if isinstance(s, ast.Pass):
                    continue
                if isinstance(s, ast.Assign) and len(s.targets) == 1 and isinstance(s.targets[0], ast.Name) \
                        and s.targets[0].id not in (calls_p, me):
                    env[s.targets[0].id] = self.cval(s.value, env)
                elif isinstance(s, ast.AugAssign) and isinstance(s.target, ast.Name) and isinstance(s.op, ast.BitOr) \
                        and type(env.get(s.target.id)) is int:
                    v = self.cval(s.value, env)
                    if type(v) is not int:
                        _no(s, "|=")
                    env[s.target.id] |= v
                elif isinstance(s, ast.If):
                    t = self.cval(s.test, env)
                    if type(t) is not bool:
                        _no(s, "test must be decided by `oneway`")
                    r = run(s.body if t else s.orelse)
                    if r is not None:
                        return r
                elif isinstance(s, ast.Return) and isinstance(s.value, ast.Call) \
                        and _self_attr(s.value.func, me) == "_pyroInvoke":
                    sig = inspect.signature(self.m.Proxy._pyroInvoke)
                    marks = []
                    for a in s.value.args:
                        marks.append(a)
                    ba = sig.bind(None, *marks, **{k.arg: k.value for k in s.value.keywords if k.arg})
                    if any(k.arg is None for k in s.value.keywords):
                        _no(s, "**kwargs")
                    args = ba.arguments
                    if set(args) - {"self", "methodname", "vargs", "kwargs", "flags", "objectId"}:
                        _no(s, "_pyroInvoke arguments")
                    name = self.cval(args["methodname"], env)
                    if not (isinstance(args["vargs"], ast.Name) and args["vargs"].id == calls_p) or type(name) is not str:
                        _no(s, "_pyroInvoke vargs/name")
                    kw = self.cval(args["kwargs"], env)
                    if kw is not None:
                        _no(s, "kwargs of the batch request")
                    flags = self.cval(args["flags"], env) if "flags" in args else sig.parameters["flags"].default
                    if "objectId" in args and self.cval(args["objectId"], env) is not None:
                        _no(s, "objectId")
                    if type(flags) is not int:
                        _no(s, "flags")
                    return 'pyroInvoke "%s" calls true %d' % (name.replace('"', '\\"'), flags)
                else:
                    _no(s, "_pyroInvokeBatch statement")
            return None
        r = run(fn.body)
        if r is None:
            _no(fn, "_pyroInvokeBatch must return the _pyroInvoke call")
        return r

    def invoke_batch(self):
        fn = _fn_ast(self.m.Proxy._pyroInvokeBatch)
        if len(fn.args.args) != 3 or fn.args.vararg or fn.args.kwarg or fn.args.kwonlyargs or len(fn.args.defaults) != 1 \
                or not (isinstance(fn.args.defaults[0], ast.Constant) and fn.args.defaults[0].value is False):
            _no(fn, "_pyroInvokeBatch signature")
        return ("/-- TRANSCRIBED from Proxy._pyroInvokeBatch (Pyro5/client.py); `pyroInvoke name vargs (kwargs is None) flags` -/\n"
                "def invokeBatchSrc {C R : Type} (pyroInvoke : String → C → Bool → Nat → R) (calls : C) (oneway : Bool) : R :=\n"
                "  if oneway then %s else %s\n" % (self.invoke_batch_case(fn, True), self.invoke_batch_case(fn, False)))

    def batch_call_case(self, fn, oneway, gens):
        me, ow_p = fn.args.args[0].arg, fn.args.args[1].arg
        env = {ow_p: oneway}
        st = {"s": "s", "calls": "calls", "reply": {}}

        def proxy_method(f, name):
            return isinstance(f, ast.Attribute) and f.attr == name and _self_attr(f.value, me) == self.proxy_attr \
                and hasattr(self.m.Proxy, name)

        def run(body, k):
            body = _body(body)
            if not body:
                return k()
            s, rest = body[0], body[1:]
            nxt = lambda: run(rest, k)
            if isinstance(s, ast.Pass):
                return nxt()
            if isinstance(s, ast.Expr) and isinstance(s.value, ast.Call) and proxy_method(s.value.func, "_pyroClaimOwnership") \
                    and not s.value.args and not s.value.keywords:
                return nxt()          # thread ownership of the connection: no effect on what the model observes
            if isinstance(s, ast.Assign) and len(s.targets) == 1 and isinstance(s.targets[0], ast.Name) \
                    and isinstance(s.value, ast.Call) and proxy_method(s.value.func, "_pyroInvokeBatch"):
                sig = inspect.signature(self.m.Proxy._pyroInvokeBatch)
                if any(k2.arg is None for k2 in s.value.keywords):
                    _no(s, "**kwargs")
                ba = sig.bind(None, *s.value.args, **{k2.arg: k2.value for k2 in s.value.keywords})
                a = ba.arguments
                if _self_attr(a["calls"], me) != self.calls_attr or st["calls"] != "calls":
                    _no(s, "the collected calls must be submitted")
                ow = self.cval(a["oneway"], env) if "oneway" in a else sig.parameters["oneway"].default
                if type(ow) is not bool:
                    _no(s, "oneway argument")
                s1, e, r = self.fresh("s"), self.fresh("e"), self.fresh("r")
                old_s = st["s"]
                st["s"] = s1
                st["reply"][s.targets[0].id] = r
                ok = nxt()
                return "(match invokeBatch calls %s %s with\n | (%s, .error %s) => (%s, calls, .submitRaised %s)\n | (%s, .ok %s) =>\n%s)" % (
                    "true" if ow else "false", old_s, s1, e, s1, e, s1, r, _ind(ok, 4))
            if isinstance(s, ast.Assign) and len(s.targets) == 1 and _self_attr(s.targets[0], me) == self.calls_attr \
                    and isinstance(s.value, ast.List) and not s.value.elts:
                st["calls"] = "[]"
                return nxt()
            if isinstance(s, ast.If):
                t = self.cval(s.test, env)
                if type(t) is not bool:
                    _no(s, "test must be decided by `oneway`")
                return run(list(s.body if t else s.orelse) + list(rest), k)
            if isinstance(s, ast.Return):
                if s.value is None or (isinstance(s.value, ast.Constant) and s.value.value is None):
                    return k()
                c = s.value
                if isinstance(c, ast.Call) and _self_attr(c.func, me) and len(c.args) == 1 and not c.keywords \
                        and isinstance(c.args[0], ast.Name) and c.args[0].id in st["reply"]:
                    helper = getattr(self.BP, _mangle(self.BP, _self_attr(c.func, me)), None)
                    if helper is None or not inspect.isgeneratorfunction(helper):
                        _no(s, "returned helper is not a generator method of BatchProxy")
                    gens.append(helper)
                    e, items, vs, x = self.fresh("e"), self.fresh("items"), self.fresh("vs"), self.fresh("x")
                    return ("(match iterReply errs %s with\n | .error %s => (%s, %s, .stream [] (some %s))\n | .ok %s =>\n"
                            "    (match resultsGenSrc %s with\n     | (%s, %s) => (%s, %s, .stream %s %s)))") % (
                        st["reply"][c.args[0].id], e, st["s"], st["calls"], e, items, items, vs, x, st["s"], st["calls"], vs, x)
                _no(s, "return value")
            _no(s, "BatchProxy.__call__ statement")
        return run(fn.body, lambda: "(%s, %s, .nothing)" % (st["s"], st["calls"]))

    def batch_call(self):
        fn = _fn_ast(self.BP.__call__)
        if len(fn.args.args) != 2 or fn.args.vararg or fn.args.kwarg or fn.args.kwonlyargs or len(fn.args.defaults) != 1 \
                or not (isinstance(fn.args.defaults[0], ast.Constant) and fn.args.defaults[0].value is False):
            _no(fn, "BatchProxy.__call__ signature")
        gens = []
        t = self.batch_call_case(fn, True, gens)
        f = self.batch_call_case(fn, False, gens)
        if len(set(gens)) > 1:
            _no(fn, "two different generators")
        gen_txt = self.results_gen(_fn_ast(gens[0])) if gens else _no(fn, "no results generator is returned")
        return gen_txt, (
            "/-- TRANSCRIBED from BatchProxy.__call__ (Pyro5/client.py): new object state, the BatchProxy's call list afterwards,\n"
            "    what the caller gets.  `invokeBatch calls oneway` = self.__proxy._pyroInvokeBatch(self.__calls, oneway) -/\n"
            "def batchCallSrc {St C Val Exc : Type} (errs : SrcErrs Exc)\n"
            "    (invokeBatch : List C → Bool → St → St × Invoked Val Exc) (calls : List C) (oneway : Bool) (s : St) :\n"
            "    St × List C × Seen Val Exc :=\n"
            "  if oneway then\n" + _ind(t, 4) + "\n  else\n" + _ind(f, 4) + "\n")


def translate():
    """Lean text of all transcriptions (raises Untranslatable)"""
    common.repo_on_path()
    from Pyro5 import server, client, core, errors, protocol
    loop = ServerLoop(server, core, errors, protocol).translate()
    cl = Client(client, core, protocol)
    gen_txt, call_txt = cl.batch_call()
    inv = cl.invoke_batch()
    consts = ("/-- protocol.FLAGS_BATCH / FLAGS_ONEWAY of the checked tree -/\n"
              "def flagsBatch : Nat := %d\ndef flagsOneway : Nat := %d\n" % (protocol.FLAGS_BATCH, protocol.FLAGS_ONEWAY))
    return "\n".join([consts, loop, gen_txt, call_txt, inv])


if __name__ == "__main__":
    print(translate())
