"""
C05 generators: hostile byte streams (structure-aware mutations of valid handshake / invoke messages),
their classification into the items of the server model, and histories that interleave hostile
connections with well-behaved witness connections.

A history (JSON-able, this is also the replay / corpus format):
  {"servertype": "thread"|"multiplex", "poolsize": n, "commtimeout": 0.0|0.2, "nconn": k,
   "witnesses": [conn ids], "fresh": conn id, "pre": index of the first step of the attack,
   "post": index of the first step after the attack, "steps": [step ...]}
  step = ["connect", conn]
       | ["send", conn, hex, ending|null, gone, items|null, expect|null]
     items  = [[item tokens ..., raw class], ...]  what the bytes are to the model (null = not classified:
              the step is then checked by the oracle only)
     expect = for witness / fresh steps: the reply the property demands,
              ["connectok", seq, ser] | ["result", seq, ser, token] | ["error", seq, ser] | ["ping", seq, ser] | ["none"]
"""
import common
import srvkit
from props import c06, c08

common.repo_on_path()

MAXSIZE = 1 << 20
KNOWN_OBJECTS = ("target", "sess", "poison", "Pyro.Daemon")
FIELDS = [("tag", 0, 4), ("ver", 4, 2), ("type", 6, 1), ("ser", 7, 1), ("flags", 8, 2), ("seq", 10, 2), ("dsz", 12, 4),
          ("asz", 16, 4), ("corr", 20, 16), ("rsv", 36, 2), ("magic", 38, 2)]
GARBAGE_RAW = "pr"      # every srvkit.GARBAGE entry fails header validation: ProtocolError


# ---- valid messages ------------------------------------------------------------------------------
def handshake_msg(ser, seq, body=("handshake", True, True, "accept"), ann=()):
    return {"type": 1, "ser": ser, "seq": seq, "oneway": False, "body": body, "ann": list(ann)}


def call_msg(ser, seq, spec, oneway=False, ann=()):
    return {"type": 4, "ser": ser, "seq": seq, "oneway": oneway, "body": ("call", ("method", spec)), "ann": list(ann)}


def poison_call(ser, seq, kind, token):
    """(bytes, model item, expected reply) of a call whose method raises an exception that cannot be serialised, in one
    of the ways that are NOT TypeError / ValueError / SerializeError (c05_rig.poison_value)"""
    import uuid
    from Pyro5 import protocol, serializers
    from Pyro5.callcontext import current_context
    payload = serializers.serializers_by_id[ser].dumpsCall("poison", "boom", (kind, token), {})
    old = current_context.correlation_id
    current_context.correlation_id = None
    try:
        data = bytes(protocol.SendingMessage(protocol.MSG_INVOKE, 0, seq, ser, payload).data)
    finally:
        current_context.correlation_id = old
    item = ["M", "4", str(ser), str(seq), "0", "C", "M", str(token), "x", "g", "0", "0", "-", "-", "-", "0", "ot"]
    return data, item, ["error", seq, ser]


def stream_call(ser, seq, token):
    """(bytes, model item) of a call whose result is a plain iterator: answered by an item-stream reply, the stream stays open"""
    from Pyro5 import protocol, serializers
    from Pyro5.callcontext import current_context
    payload = serializers.serializers_by_id[ser].dumpsCall("poison", "items", (token,), {})
    old = current_context.correlation_id
    current_context.correlation_id = None
    try:
        data = bytes(protocol.SendingMessage(protocol.MSG_INVOKE, 0, seq, ser, payload).data)
    finally:
        current_context.correlation_id = old
    return data, ["M", "4", str(ser), str(seq), "0", "C", "M", str(token), "st", "g", "1", "0", "-", "-", "-", "0", "ot"]


def _invoke(ser, seq, obj, method, vargs):
    from Pyro5 import protocol, serializers
    from Pyro5.callcontext import current_context
    payload = serializers.serializers_by_id[ser].dumpsCall(obj, method, vargs, {})
    old = current_context.correlation_id
    current_context.correlation_id = None
    try:
        return bytes(protocol.SendingMessage(protocol.MSG_INVOKE, 0, seq, ser, payload).data)
    finally:
        current_context.correlation_id = old


def stream_next(ser, seq, value):
    """(bytes, model item, expected reply) of the call that fetches the next item of the stream this connection opened last:
    Pyro.Daemon.get_next_stream_item(<stream id>) - the id is only known once the daemon has answered the opening call, the
    bytes carry a placeholder of the same length that run_real replaces (c05_rig.STREAM_PLACEHOLDER).  To the model it is a
    call on a registered object that returns (token STREAM_BASE + item, logged by the rig when the item is handed out)."""
    from props import c05_rig
    data = _invoke(ser, seq, "Pyro.Daemon", "get_next_stream_item", (c05_rig.STREAM_PLACEHOLDER.decode(),))
    if data.count(c05_rig.STREAM_PLACEHOLDER) != 1:
        raise ValueError("placeholder not found in the rendered call")
    item = ["M", "4", str(ser), str(seq), "0", "C", "M", str(c05_rig.STREAM_BASE + value), "r", "g", "1", "0", "-", "-", "-", "0", "ot"]
    return data, item, ["item", seq, ser, value]


def commfail_call(ser, seq, kind, token):
    """(bytes, model item) of a call whose method raises a Pyro CommunicationError other than ConnectionClosedError /
    SerializeError (the outcome of a failed nested proxy call): not reported, the connection is ended"""
    data = _invoke(ser, seq, "poison", "commfail", (kind, token))
    return data, ["M", "4", str(ser), str(seq), "0", "C", "M", str(token), "x", "o", "1", "0", "-", "-", "-", "0", "ot"]


# ---- payloads that carry a Proxy: any component of a handshake / call / batch payload replaced by one ---------------------
PROXY_COMPONENTS_FRESH = ["hs-data", "hs-handshake", "hs-object"]
PROXY_COMPONENTS_ACTIVE = ["call-objid", "call-method", "call-vargs", "call-arg", "call-kwargs",
                           "batch-vargs", "batch-item", "batch-method", "batch-args", "batch-kwargs"]


def proxy_wire(addr, flavour):
    """the serialised form of a Pyro5.client.Proxy for PYRO:trap@addr (a plain dict: nothing here ever touches a Proxy object);
    flavour "bare": no metadata (ANY attribute access makes the proxy connect), "dictlike": claims the mapping / string methods"""
    methods = [] if flavour == "bare" else ["__getitem__", "__iter__", "__len__", "__contains__", "keys", "startswith", "get"]
    return {"__class__": "Pyro5.client.Proxy", "state": ["PYRO:trap@%s:%d" % addr, [], methods, [], None, None]}


def raw_call_payload(ser_id, obj, method, vargs, kwargs):
    """a call payload of plain data in each serializer's own layout (dumpsCall would iterate / convert vargs itself)"""
    import json as _json
    import marshal
    import msgpack
    import serpent
    if ser_id == 1:
        return serpent.dumps((obj, method, vargs, kwargs), module_in_classname=True, bytes_repr=True)
    if ser_id == 2:
        return marshal.dumps((obj, method, vargs, kwargs))
    if ser_id == 3:
        return _json.dumps({"object": obj, "method": method, "params": vargs, "kwargs": kwargs}).encode("utf-8")
    return msgpack.packb((obj, method, vargs, kwargs), use_bin_type=True)


def proxy_message(ser, seq, component, addr, flavour, token):
    """(bytes, model item or None) of a handshake / call / batch message in which `component` is a serialised Proxy"""
    from Pyro5 import protocol, serializers
    from Pyro5.callcontext import current_context
    P = proxy_wire(addr, flavour)
    flags, mtype = 0, protocol.MSG_INVOKE
    spec = {"token": token}
    head = ["M", "4", str(ser), str(seq), "0"]
    U = head + ["U", "ot"]
    if component.startswith("hs-"):
        mtype = protocol.MSG_CONNECT
        head = ["M", "1", str(ser), str(seq), "0"]
        data = {"hs-data": P, "hs-handshake": {"handshake": P, "object": "target"}, "hs-object": {"handshake": "accept", "object": P}}[component]
        payload = serializers.serializers_by_id[ser].dumps(data)
        item = head + {"hs-data": ["H", "0", "0", "a"], "hs-handshake": ["H", "1", "1", "a"], "hs-object": ["H", "1", "0", "a"]}[component] + ["ot"]
    elif component.startswith("call-"):
        obj, method, vargs, kwargs = "target", "run", [spec], {}
        item = U
        if component == "call-objid":
            obj = P
            item = head + ["C", "X", "ot"]
        elif component == "call-method":
            method = P              # stays plain data (never recreated into a class): refused as a non-string member name
        elif component == "call-vargs":
            vargs = P
        elif component == "call-kwargs":
            kwargs = P
        else:       # an ARGUMENT that is a proxy is ordinary Pyro usage: the method gets it (and here does not look at it)
            obj, method, vargs = "poison", "ignore", [P, token]
            item = head + ["C", "M", str(token), "r", "g", "1", "0", "-", "-", "-", "0", "ot"]
        payload = raw_call_payload(ser, obj, method, vargs, kwargs)
    else:
        flags = protocol.FLAGS_BATCH
        calls = {"batch-vargs": P, "batch-item": [P], "batch-method": [[P, [spec], {}]], "batch-args": [["run", P, {}]],
                 "batch-kwargs": [["run", [spec], P]]}[component]
        payload = raw_call_payload(ser, "target", "<batch>", calls, {})
        item = U                # the whole batch is refused with an error reply before anything is invoked
    old = current_context.correlation_id
    current_context.correlation_id = None
    try:
        data = bytes(protocol.SendingMessage(mtype, flags, seq, ser, payload).data)
    finally:
        current_context.correlation_id = old
    return data, item


def base_of(m):
    """a rendered valid message with what the model needs to know about it"""
    data = srvkit.render_msg(m)
    dsz = int.from_bytes(data[12:16], "big")
    asz = int.from_bytes(data[16:20], "big")
    return {"m": m, "data": data, "payload": bytes(data[40 + asz:40 + asz + dsz]), "ser": m["ser"],
            "body": c08.item_tokens(("msg", m))[5:]}


# ---- mutations -----------------------------------------------------------------------------------
def field_values(name, w, cur):
    top = (1 << (8 * w)) - 1
    vals = {0, 1, top - 1, top, (cur + 1) & top, (cur - 1) & top}
    if name == "type":
        vals |= {1, 2, 3, 4, 5, 6, 7}
    if name == "ser":
        vals |= {1, 2, 3, 4, 5}
    if name == "flags":
        vals |= {1, 2, 4, 8, 16, 32, 64, 4 | 8, 2 | 4, 127, 128}
    if name in ("dsz", "asz"):
        vals |= {cur + 8, max(cur - 8, 0), MAXSIZE, MAXSIZE + 1, MAXSIZE - 1, 0x7fffffff, 0x80000000, 40}
    vals.discard(cur)
    return sorted(v & top for v in vals)


def all_mutants(base):
    """deterministic list of (kind, bytes) for one valid message: every header field at its boundary values,
    every length field inconsistent with what follows, every prefix truncation"""
    data = base["data"]
    out = []
    for name, off, w in FIELDS:
        cur = int.from_bytes(data[off:off + w], "big")
        for v in field_values(name, w, cur):
            b = bytearray(data)
            b[off:off + w] = v.to_bytes(w, "big")
            out.append(("field:" + name, bytes(b)))
    dsz = int.from_bytes(data[12:16], "big")
    asz = int.from_bytes(data[16:20], "big")
    for d in (-8, -1, 1, 8):
        for which in ("dsz", "asz", "shift"):
            b = bytearray(data)
            if which == "dsz" and dsz + d >= 0:
                b[12:16] = (dsz + d).to_bytes(4, "big")
            elif which == "asz" and asz + d >= 0:
                b[16:20] = (asz + d).to_bytes(4, "big")
            elif which == "shift" and dsz - d >= 0 and asz + d >= 0:
                b[12:16] = (dsz - d).to_bytes(4, "big")
                b[16:20] = (asz + d).to_bytes(4, "big")
            else:
                continue
            out.append(("length:" + which, bytes(b)))
    out += chunk_mutants(base)
    for k in range(len(data)):
        out.append(("prefix", data[:k]))
    return out


def chunk_mutants(base):
    """annotation chunk length fields at the 32-bit boundaries, the header staying valid and consistent with the bytes sent"""
    data = base["data"]
    asz = int.from_bytes(data[16:20], "big")
    out = []
    o = 0
    while o + 8 <= asz:
        cur = int.from_bytes(data[40 + o + 4:40 + o + 8], "big")
        vals = {2 ** 32 - 8, 2 ** 32 - 16, 2 ** 32 - 24, 2 ** 32 - 1, 2 ** 32 - 7, 2 ** 31, 2 ** 31 - 1, 2 ** 31 - 8, 2 ** 31 + 8,
                (2 ** 32 - asz) % 2 ** 32, (2 ** 32 - 8 - o) % 2 ** 32, (2 ** 32 - 16 - o) % 2 ** 32, 0, 1, asz, max(asz - 8, 0),
                asz - 8 - o, cur + 1, max(cur - 1, 0), cur + 8, 2 ** 16, 2 ** 24}
        vals.discard(cur)
        for v in sorted(x % 2 ** 32 for x in vals):
            b = bytearray(data)
            b[40 + o + 4:40 + o + 8] = v.to_bytes(4, "big")
            out.append(("chunklen", bytes(b)))
        o += 8 + cur
    return out


def random_mutant(rng, base):
    x = rng.random()
    data = base["data"]
    if x < 0.25:
        n = rng.choice([0, 1, 3, 5, 6, 7, 39, 40, 41, 64, 200])
        b = rng.randbytes(n)
        if rng.random() < 0.5:
            b = (b"PYRO\x01\xf6" + b)[:max(n, 6)]
        return "garbage", b
    if x < 0.45:
        b = bytearray(data)
        for _ in range(rng.choice([1, 1, 2, 5])):
            i = rng.randrange(40, len(b))
            b[i] = rng.randrange(256)
        return "payload", bytes(b)
    if x < 0.6:
        return "c06", c06.mutate(rng, data)
    cm = chunk_mutants(base)
    if cm and x < 0.75:
        return rng.choice(cm)
    kind, b = rng.choice(all_mutants(base))
    return kind, b


def invalid_prefix(rng):
    """6..39 bytes whose first six already fail the header validation (not PYRO / wrong protocol version)"""
    n = rng.randint(6, 39)
    x = rng.random()
    if x < 0.4:
        b = bytearray(rng.randbytes(n))
        if bytes(b[:4]) == b"PYRO":
            b[0] = 0x51
    elif x < 0.7:
        b = bytearray(b"PYRO" + rng.choice([b"\x00\x00", b"\x01\xf5", b"\x01\xf7", b"\xff\xff", b"\x00\x2f"]) + rng.randbytes(n - 6))
    else:
        b = bytearray((b"GET / HTTP/1.1\r\nHost: localhost\r\n\r\n" + b"x" * 40)[:n])
    return bytes(b)


# ---- classification: bytes -> items of the server model ----------------------------------------------
class Unsafe(Exception):
    """the bytes would be handed to marshal.loads although they are not a payload marshal produced: a corrupted
    length field of a tuple / list makes marshal allocate gigabytes before it fails (resource exhaustion inside an
    external codec, see notes/C05.md) - such streams are not generated"""


MARSHAL_TYPES = b"0NFTS.iIfgxylstR()[{cu?<>aAzZr"
MARSHAL_ID = 2          # serializers.MarshalSerializer.serializer_id (asserted in c05.extract)


def marshal_safe(data, bases):
    """marshal.loads(data) fails (or succeeds) without allocating by a corrupted length: data is a payload marshal
    produced, a truncation of one, or does not start with a marshal type code / is JSON text"""
    if any(b["ser"] == MARSHAL_ID and b["payload"].startswith(data) for b in bases) or not data:
        return True
    return (data[0] & 0x7f) not in MARSHAL_TYPES or data[:2] == b'{"'


def classify_body(msg, fresh, bases):
    """item body tokens for a message recv_stub accepted, or None when it cannot be told"""
    from Pyro5 import serializers, protocol, errors
    ser = serializers.serializers_by_id.get(msg.serializer_id)
    data = bytes(msg.data)
    if msg.serializer_id == MARSHAL_ID and not (msg.type == 6 and not fresh) and not marshal_safe(data, bases):
        raise Unsafe()
    if msg.type == 6 and not fresh:
        return ["U"]
    if ser is None:
        return ["U"]
    for b in bases:
        if data == b["payload"] and msg.serializer_id == b["ser"] and not (msg.flags & (protocol.FLAGS_BATCH | protocol.FLAGS_KEEPSERIALIZED)):
            is_shake = b["body"][0] == "H"
            if fresh or not is_shake:
                return list(b["body"])
    if fresh:
        try:
            d = ser.loads(data)
        except Exception:
            return ["U"]
        if not isinstance(d, dict) or "handshake" not in d or "object" not in d:
            return ["H", "0", "0", "a"]
        if not isinstance(d["object"], str) or not isinstance(d["handshake"], (str, int, type(None))):
            return None
        val = {"raise": "r", "secraise": "r", "unser": "u"}.get(d["handshake"], "a")
        return ["H", "1", "1" if d["object"] in KNOWN_OBJECTS else "0", val]
    try:
        call = ser.loadsCall(data)
    except (errors.CommunicationError, errors.SecurityError):
        # e.g. msgpack ext code -> SerializeError, dunder class name -> SecurityError: reported AND re-raised (the
        # connection ends): Body.undecodable true
        return ["US"]
    except Exception:
        return ["U"]
    if msg.flags & protocol.FLAGS_KEEPSERIALIZED:
        return ["U"] if "BLBI" not in msg.annotations else None
    if msg.flags & protocol.FLAGS_BATCH:
        for b in bases:
            if data == b["payload"] and msg.serializer_id == b["ser"] and b["body"][0] == "C":
                return ["U"]       # a single call read as a batch: fails before anything is invoked
        return None
    return None


def classify(stream, ending, fresh, bases):
    """-> (items | None, [(dec line for drv_c06, what the real decoder said)])"""
    items, checks = [], []
    pos = 0
    stream = bytes(stream)
    while True:
        rest = stream[pos:]
        if not rest:
            if ending in ("eof", "reset"):
                items.append(["X", "ot"])
            elif ending == "timeout":
                items.append(["T", "ot"])
            return items, checks
        accepted = [1] if fresh else [4, 6]
        line, msg, conn = c06.real_decode(rest, accepted, MAXSIZE)
        f = line.split()
        if not (f[0] == "err" and f[1].startswith("other:")):
            checks.append((c06.dec_line(rest, accepted, MAXSIZE), line))
        if f[0] == "err":
            kind = f[1]
            if kind == "closed":
                if ending in ("eof", "reset"):
                    items.append(["X", "ot"])
                elif ending == "timeout":
                    items.append(["T", "ot"])
                else:
                    return None, checks          # the server would wait for more bytes
            elif kind == "badType":
                items.append(["M", str(rest[6]), str(rest[7]), str(int.from_bytes(rest[10:12], "big")), "0", "U", "pr"])
            elif kind == "protocol":
                items.append(["G", "pr"])
            else:
                items.append(["G", "ot"])       # AssertionError, UnicodeDecodeError, zlib.error, ...: not a CommunicationError
            return items, checks
        consumed = len(rest) - int(f[-1])
        body = classify_body(msg, fresh, bases)
        if body is None:
            return None, checks
        from Pyro5 import protocol
        items.append(["M", str(msg.type), str(msg.serializer_id), str(msg.seq), "1" if msg.flags & protocol.FLAGS_ONEWAY else "0"]
                     + body + ["ot"])
        pos += consumed
        fresh = False


# ---- histories -----------------------------------------------------------------------------------
class HistGen:
    def __init__(self, rng, exhaustive=None):
        self.rng = rng
        self.g = c08.Gen(rng)
        self.g.token = 1000
        from props import c05_rig
        t = c05_rig.Trap.get()
        self.trap = {"blackhole": t.blackhole, "closed": t.closed}
        self.exhaustive = exhaustive      # {'fresh': [...], 'active': [...]}: (phase, kind, bytes, base) of the systematic sweep still to use
        self.checks = []

    def send(self, conn, data, ending, gone, items, expect=None):
        return ["send", conn, common.hx(data), ending, bool(gone), items, expect]

    # -- well-behaved traffic
    def witness_actions(self, conn, n):
        r = self.rng
        ser = r.choice([1, 2, 3, 4])
        seq = r.randint(0, 65535)
        m = handshake_msg(ser, seq)
        acts = [self.send(conn, srvkit.render_msg(m), None, False, [c08.item_tokens(("msg", m)) + ["ot"]], ["connectok", seq, ser])]
        for _ in range(n):
            seq = (seq + 1) % 65536
            x = r.random()
            ser = r.choice([1, 2, 3, 4]) if r.random() < 0.2 else ser
            if x < 0.55:
                self.g.token += 1
                spec = {"token": self.g.token}
                if r.random() < 0.3:
                    spec["ann"] = [r.randrange(100)]
                m = call_msg(ser, seq, spec)
                exp = ["result", seq, ser, spec["token"]]
            elif x < 0.62:
                self.g.token += 1
                spec = {"token": self.g.token, "out": "raise", "exc": "generic", "ser": r.random() < 0.5}
                m = call_msg(ser, seq, spec)
                exp = ["error", seq, ser]
            elif x < 0.7:
                self.g.token += 1
                data, item, exp = poison_call(ser, seq, r.choice(["slots", "getstate", "deep"]), self.g.token)
                acts.append(self.send(conn, data, None, False, [item], exp))
                continue
            elif x < 0.8:
                m = {"type": 6, "ser": ser, "seq": seq, "oneway": False, "body": ("undecodable",)}
                exp = ["ping", seq, ser]
            elif x < 0.9:
                m = {"type": 4, "ser": ser, "seq": seq, "oneway": False, "body": ("call", ("unknown",))}
                exp = ["error", seq, ser]
            else:
                m = {"type": 4, "ser": ser, "seq": seq, "oneway": False,
                     "body": ("call", ("refused", r.choice(["_hidden", "unexposed", "__init__", "nosuchmember"])))}
                exp = ["error", seq, ser]
            acts.append(self.send(conn, srvkit.render_msg(m), None, False, [c08.item_tokens(("msg", m)) + ["ot"]], exp))
        if r.random() < 0.4:
            # the witness is half way through an item stream while the attack goes on: it opens one (a method returning an
            # iterator) and fetches 1-3 of its items, anywhere among its other calls
            sser = r.choice([1, 2, 3, 4])
            self.g.token += 1
            sseq = r.randint(0, 65535)
            data, item = stream_call(sser, sseq, self.g.token)
            stream = [self.send(conn, data, None, False, [item], ["stream", sseq, sser]) + ["streamopen"]]
            for v in range(1, r.choice([1, 2, 3, 3]) + 1):
                sseq = r.randint(0, 65535)
                data, item, exp = stream_next(sser, sseq, v)
                stream.append(self.send(conn, data, None, False, [item], exp) + ["streamnext"])
            pos = sorted(r.randint(1, len(acts)) for _ in stream)
            for k, (p, a) in enumerate(zip(pos, stream)):
                acts.insert(p + k, a)
        return acts

    # -- hostile traffic
    def semantic(self, conn, it, first):
        data, ending = c08.item_bytes(it, first=first)
        raw = GARBAGE_RAW if it[0] == "garbage" else "ot"
        gone = ending == "eof" and self.rng.random() < 0.3
        return self.send(conn, data, ending, gone, [c08.item_tokens(it) + [raw]])

    def hostile_actions(self, conn):
        r = self.rng
        acts = []
        where = r.choice(["before", "before", "during", "after", "after", "after"])
        fresh = True
        if where == "after":
            ser = r.choice([1, 2, 3, 4])
            m = handshake_msg(ser, r.randint(0, 65535))
            acts.append(self.send(conn, srvkit.render_msg(m), None, False, [c08.item_tokens(("msg", m)) + ["ot"]]))
            fresh = False
            for _ in range(r.choice([0, 0, 1, 2])):
                it = self.g.item(False)
                acts.append(self.semantic(conn, it, False))
        x = r.random()
        if x < 0.25:
            # semantic ending (every kind of item, incl. methods raising every exception class)
            it = self.g.item(fresh)
            acts.append(self.semantic(conn, it, fresh))
            ending_needed = it[0] == "msg"
            if ending_needed and r.random() < 0.7:
                e = r.choice(["eof", "reset", "timeout"])
                acts.append(self.send(conn, b"", e, e != "timeout" and r.random() < 0.3, [["X" if e != "timeout" else "T", "ot"]]))
            return acts
        if 0.47 <= x < 0.53 and not fresh:
            # an item stream is opened and never read: the peer just leaves (the daemon's housekeeping has to discard it)
            self.g.token += 1
            data, item = stream_call(r.choice([1, 2, 3, 4]), r.randint(0, 65535), self.g.token)
            acts.append(self.send(conn, data, None, False, [item]))
            acts[-1].append("streamunread")
            e = r.choice(["eof", "reset"])
            acts.append(self.send(conn, b"", e, False, [["X", "ot"]]))
            return acts
        if 0.53 <= x < 0.58 and not fresh:
            # a method that raises a Pyro CommunicationError (a nested call of its own failed); the caller stays connected and
            # waits: it must get an answer or lose the connection, never neither
            self.g.token += 1
            data, item = commfail_call(r.choice([1, 2, 3, 4]), r.randint(0, 65535), r.choice(["timeout", "protocol", "toolarge", "comm"]),
                                       self.g.token)
            acts.append(self.send(conn, data, None, False, [item]))
            acts[-1].append("commraise")
            return acts
        if 0.35 <= x < 0.47 and self.trap is not None:
            # a payload in which one component is a serialised Proxy pointing at an endpoint of the harness
            comp = r.choice(PROXY_COMPONENTS_FRESH if fresh else PROXY_COMPONENTS_ACTIVE)
            self.g.token += 1
            kind = r.choice(["blackhole", "blackhole", "closed"])
            data, item = proxy_message(r.choice([1, 2, 3, 4]), r.randint(0, 65535), comp, self.trap[kind],
                                       r.choice(["bare", "dictlike"]), self.g.token)
            ending = r.choice([None, "eof", "reset"]) if not fresh or comp != "hs-handshake" else None
            items = None if item is None else [item] + ([["X", "ot"]] if ending else [])
            acts.append(self.send(conn, data, ending, False, items))
            acts[-1].append("proxy:%s:%s" % (comp, kind))
            return acts
        if x < 0.35:
            # an invalid prefix from a peer that then stays connected and silent: must be refused without waiting for more
            data = invalid_prefix(r)
            items, checks = classify(data, "silent", fresh, [])
            self.checks += checks
            acts.append(self.send(conn, data, "silent", False, items))
            acts[-1].append("silentprefix")
            return acts
        # byte-level mutant of a valid message of this phase
        ser = r.choice([1, 2, 3, 4])
        seq = r.randint(0, 65535)
        ann = r.choice([(), (), ("ABCD",), ("ABCD", "WXYZ"), ("HMAC", "ABCD", "Zz09")])
        if fresh:
            body = ("handshake", True, True, "accept") if r.random() < 0.8 else self.g.body("handshake")
            base = base_of(handshake_msg(ser, seq, body, ann))
        else:
            ow = r.random() < 0.15
            spec = self.g.method(ow)
            base = base_of(call_msg(ser, seq, spec, ow, ann))
        queue = (self.exhaustive or {}).get("fresh" if fresh else "active")
        if queue and r.random() < 0.6:
            _, kind, data, base = queue.pop()
        else:
            kind, data = random_mutant(r, base) if where != "during" else ("prefix", base["data"][:r.randrange(len(base["data"]))])
        bases = [base]
        if r.random() < 0.3 and kind != "prefix":
            # a valid message behind the mutated one
            self.g.token += 1
            if fresh:
                tail = base_of(handshake_msg(ser, seq))
            else:
                tail = base_of(call_msg(ser, (seq + 1) % 65536, {"token": self.g.token}))
            data = data + tail["data"]
            bases.append(tail)
        ending = r.choice(["eof", "eof", "reset", "timeout"])
        gone = ending != "timeout" and r.random() < 0.35
        try:
            items, checks = classify(data, ending, fresh, bases)
        except Unsafe:
            kind, data = "prefix", base["data"][:r.randrange(len(base["data"]))]
            items, checks = classify(data, ending, fresh, [base])
        self.checks += checks
        acts.append(self.send(conn, data, ending, gone, items))
        acts[-1].append(kind)
        return acts

    def history(self, servertype, poolsize=None, commtimeout=None):
        r = self.rng
        poolsize = poolsize or r.choice([2, 2, 3, 3, 4, 8])
        commtimeout = commtimeout if commtimeout is not None else r.choice([0.0, 0.2])
        nwit = r.choice([1, 1, 2])
        nhost = r.choice([1, 2, 3, 4, 5])
        per = {}
        for w in range(nwit):
            per[w] = self.witness_actions(w, r.choice([1, 2, 3, 4]))
        steps = [per[w].pop(0) for w in range(nwit)]          # the witnesses are connected before the attack
        pre = len(steps)
        hostile = list(range(nwit, nwit + nhost))
        for h in hostile:
            per[h] = self.hostile_actions(h)
            if r.random() < 0.25:
                per[h].insert(0, ["connect", h])
        order = list(per)
        while any(per[c] for c in order):
            c = r.choice([c for c in order if per[c]])
            steps.append(per[c].pop(0))
        post = len(steps)
        for h in hostile:                                        # the attack is over: every hostile peer is gone
            steps.append(self.send(h, b"", "eof", False, [["X", "ot"]]))
        fresh = nwit + nhost
        ser = r.choice([1, 2, 3, 4])
        m = handshake_msg(ser, 77)
        steps.append(self.send(fresh, srvkit.render_msg(m), None, False, [c08.item_tokens(("msg", m)) + ["ot"]], ["fresh-handshake", 77, ser]))
        self.g.token += 1
        m = call_msg(ser, 78, {"token": self.g.token})
        steps.append(self.send(fresh, srvkit.render_msg(m), None, False, [c08.item_tokens(("msg", m)) + ["ot"]], ["fresh-call", 78, ser, self.g.token]))
        return {"servertype": servertype, "poolsize": poolsize, "commtimeout": commtimeout, "nconn": fresh + 1,
                "linger": r.choice([None, 1e-9, 1e-9, 0]),   # ITER_STREAM_LINGER: default (30 s), "already over at the next housekeeping", 0 = none
                "witnesses": list(range(nwit)), "hostile": hostile, "fresh": fresh, "pre": pre, "post": post, "steps": steps}


def sweep(rng, thorough):
    """systematic part: every mutant of one handshake and one invoke message per serializer (quick: a sample)"""
    out = []
    for ser in (1, 2, 3, 4):
        ann = ("ABCD", "WXYZ") if ser % 2 else ("HMAC",)
        for phase, base in (("fresh", base_of(handshake_msg(ser, 513, ann=ann))),
                            ("active", base_of(call_msg(ser, 514, {"token": 7000 + ser, "track": [3]}, ann=ann)))):
            ms = all_mutants(base)
            if not thorough:
                pref = [m for m in ms if m[0] == "prefix"]
                chunk = [m for m in ms if m[0] == "chunklen"]
                other = [m for m in ms if m[0] not in ("prefix", "chunklen")]
                keep = set(list(range(0, 48)) + [len(pref) - 1, len(pref) - 2]) | set(rng.sample(range(len(pref)), min(6, len(pref))))
                ms = rng.sample(other, min(len(other), 40)) + [p for i, p in enumerate(pref) if i in keep and ser == 3] \
                    + (chunk if ser in (1, 4) else rng.sample(chunk, min(len(chunk), 8)))
            for kind, data in ms:
                out.append((phase, kind, data, base))
    rng.shuffle(out)
    return {"fresh": [m for m in out if m[0] == "fresh"], "active": [m for m in out if m[0] == "active"]}


def model_line(h, servertype):
    """the history as a request line for drv_c05, or None if a step is not classified"""
    toks = []
    n = 0
    for st in h["steps"]:
        if st[0] == "connect":
            toks += ["K", str(st[1])]
            n += 1
        else:
            if st[5] is None:
                return None
            for it in st[5]:
                toks += ["I", str(st[1]), "1" if st[4] else "0", it[-1]] + list(it[:-1])
                n += 1
    mn = min(h["poolsize"], 2)
    return " ".join(["loop", "t" if servertype == "thread" else "m", str(mn), str(h["poolsize"]), str(h["nconn"]), str(n)] + toks)
