"""C04 — deserialisation builds only data and a fixed set of known classes."""
import datetime
import gc
import hashlib
import io
import json
import marshal
import os
import struct
import sys

import common
from props import c04_extract
from props import c04_gen as G

ID = "C04"
LEAN_MODEL_TARGETS = ["drv_c04"]
LEAN_PROOF_TARGETS = ["PyroProps.C04Src", "PyroProps.C04"]
AUDIT_FILES = ["PyroModel/Classes.lean", "PyroModel/Gen/C04.lean", "PyroProofs/Classes.lean", "PyroProps/C04.lean",
               "PyroModel/ClassesSrc.lean", "PyroModel/Gen/C04Src.lean", "PyroProps/C04Src.lean"]
THEOREMS = ["Pyro.C04.C04_closed", "Pyro.C04.C04_closed_loads", "Pyro.C04.C04_closed_loadsCall",
            "Pyro.C04.C04_plain_input", "Pyro.C04.C04_dunder", "Pyro.C04.C04_unknown", "Pyro.C04.C04_exc_sources",
            "Pyro.C04.C04_effects", "Pyro.C04.C04_effects_loads", "Pyro.C04.C04_effects_loadsCall",
            "Pyro.C04.C04_fuel_sufficient",
            "Pyro.C04.C04_gen_tables", "Pyro.C04.C04_gen_all_exceptions", "Pyro.C04.C04_gen_struct",
            "Pyro.C04.C04_ext_converted", "Pyro.C04.C04_gen_probes", "Pyro.C04.C04_gen_ext_codes",
            "Pyro.C04.C04_makeException_translated", "Pyro.C04.C04_dictToClass_translated",
            "Pyro.C04.C04_dictToClassFix_translated", "Pyro.C04.C04_recreate_translated", "Pyro.C04.C04_recreate_unique",
            "Pyro.C04.C04_source_dunder", "Pyro.C04.C04_source_unknown", "Pyro.C04.C04_source_closed",
            "Pyro.C04.C04_source_effects", "Pyro.C04.C04_source_closed_fix"]
SUITES = ["serpent", "marshal", "json", "msgpack"]
RULE = ("payload trees (containers to depth 5, class-tagged dicts at any depth, wrapper chains) drawn from VERIF_SEED; tags: the nine "
        "hard-coded names, every name of vars(Pyro5.errors) / vars(builtins) / vars(sqlite3) bare and behind builtins./exceptions./"
        "sqlite3./Pyro5.errors., foreign dotted paths (os, subprocess, Pyro5 internals, test-local), dunder variants, one-character "
        "mutations, bytes tags (valid and invalid UTF-8), non-string tags, registered converter tags; members state/args/attributes/"
        "exception/value/__exception__ good, missing, ill-typed, or themselves class dicts; each tree is encoded with the codec of 2 of "
        "the 4 serializers and decoded through loads and loadsCall. Non-trivial = the real decoder reached dict_to_class (an active "
        "class dict exists) and either built >= 1 instance or refused with SecurityError/SerializeError; distinct = distinct "
        "(serializer, path, canonical literal tree, registry)")
ASSUMPTIONS = [
    "the four wire codecs (serpent.loads, json.loads, marshal.loads, msgpack.unpackb) return only literal data "
    "(their type mapping is a parameter: the model starts from the literal tree the codec returns)",
    "constructors of the whitelisted exception classes, setattr on their instances, float(), set(), the URI text parser and the byte "
    "parsing in ext_hook are CPython / data-only code: their success is a parameter of the model (every theorem holds for all "
    "outcomes) and 'they execute nothing else' is observed through interpreter audit events, not proved",
    "registered converter tags are str; audit events are observed for: import, exec, compile, open, os.*, socket.*, subprocess.*, "
    "ctypes.*, pty.*, shutil.*, tempfile.*, glob.*, pickle.*, sqlite3.*, code/function.__new__, builtins.input, urllib/http/ftplib/smtplib",
]
TRUSTED = ["sys.addaudithook reports the interpreter's import/exec/compile/open/socket/subprocess/os events",
           "harness/props/c04_gen.py (payload generator) and the canonicaliser of decoded values in harness/props/c04.py"]

SERS = ["serpent", "marshal", "json", "msgpack"]


def extract():
    text = c04_extract.extract()
    # the transcription of make_exception / dict_to_class / recreate_classes (sound by refusal: Untranslatable = broken tie)
    from props import c04_tr
    common.repo_on_path()
    from Pyro5 import serializers
    src = c04_tr.translate(serializers)
    common.write_if_changed(os.path.join(common.LEAN, "PyroModel", "Gen", "C04Src.lean"), src)
    return text


# ------------------------------------------------------------------------------------------------
# audit recorder (process-wide, passive unless recording)
# ------------------------------------------------------------------------------------------------
_WATCH_PREFIX = ("os.", "socket.", "subprocess.", "ctypes.", "pty.", "shutil.", "tempfile.", "glob.", "pickle.", "sqlite3.",
                 "urllib.", "http.", "ftplib.", "smtplib.", "webbrowser.", "mmap.", "fcntl.", "signal.", "syslog.", "cpython.run")
_WATCH_EXACT = {"import", "exec", "compile", "open", "builtins.input", "builtins.input/result", "builtins.breakpoint", "code.__new__",
                "function.__new__"}
_BLOCK_PREFIX = ("socket.", "subprocess.", "os.system", "os.exec", "os.posix_spawn", "os.spawn", "os.fork", "os.kill",
                 "os.remove", "os.rename", "os.rmdir", "os.mkdir", "os.chmod", "os.chown", "os.truncate", "os.link", "os.symlink",
                 "pty.", "shutil.", "ctypes.", "webbrowser.", "urllib.", "http.", "ftplib.", "smtplib.", "builtins.input",
                 "builtins.breakpoint")


class Blocked(BaseException):
    """raised by the audit hook to stop a process/network/file-system action attempted while decoding"""


class _Recorder:
    def __init__(self):
        self.on = False
        self.events = []
        self.installed = False

    def hook(self, event, args):
        if not self.on:
            return
        if event in _WATCH_EXACT or event.startswith(_WATCH_PREFIX):
            self.on = False     # no recursion while formatting
            try:
                try:
                    a0 = args[0] if args else None
                    brief = a0 if isinstance(a0, (str, int)) else type(a0).__name__
                    if event == "compile":
                        brief = args[1] if len(args) > 1 and isinstance(args[1], str) else "?"
                    if event == "socket.connect" or event == "socket.bind":
                        brief = repr(args[1])[:60] if len(args) > 1 else "?"
                except Exception:
                    brief = "?"
                self.events.append((event, str(brief)[:80]))
            finally:
                self.on = True
            if event.startswith(_BLOCK_PREFIX):
                raise Blocked(event)

    def install(self):
        if not self.installed:
            sys.addaudithook(self.hook)
            self.installed = True

    def start(self):
        self.events = []
        self.on = True

    def stop(self):
        self.on = False
        ev, self.events = self.events, []
        return ev


REC = _Recorder()


def _minus(events, baseline):
    """multiset difference events - baseline"""
    left = list(baseline)
    out = []
    for e in events:
        if e in left:
            left.remove(e)
        else:
            out.append(e)
    return out


# ------------------------------------------------------------------------------------------------
# real code access
# ------------------------------------------------------------------------------------------------
class _Conv(object):
    """what the harness's registered test converters return"""
    __slots__ = ("tag", "data")

    def __init__(self, tag, data):
        self.tag = tag
        self.data = data


class Real:
    def __init__(self):
        common.repo_on_path()
        import sqlite3  # noqa: F401  (preloaded: `import sqlite3` inside dict_to_class is then silent)
        import serpent
        import msgpack
        import builtins
        import Pyro5
        from Pyro5 import core, client, server, errors, serializers, nameserver  # noqa: F401
        self.serpent, self.msgpack, self.builtins, self.sqlite3 = serpent, msgpack, builtins, sqlite3
        self.core, self.client, self.server, self.errors, self.serializers = core, client, server, errors, serializers
        self.sers = {n: serializers.serializers[n] for n in SERS}
        SB = serializers.SerializerBase
        self.code_serp = serializers.SerpentSerializer.dict_to_class.__func__.__code__
        self.code_proxy = client.Proxy.__setstate__.__code__
        self.code_exth = serializers.MsgpackSerializer.ext_hook.__code__
        self.ser_classes = (serializers.SerpentSerializer, serializers.MarshalSerializer, serializers.JsonSerializer,
                            serializers.MsgpackSerializer)
        self.conv_log = []
        # which msgpack paths run ext_hook at all (probed on the behaviour)
        self.ext_hook_on = {}
        for op, fn, pl in (("loads", self.sers["msgpack"].loads, [msgpack.ExtType(0x31, b"77")]),
                           ("call", self.sers["msgpack"].loadsCall, ["o", "m", [msgpack.ExtType(0x31, b"77")], {}])):
            try:
                r = fn(msgpack.packb(pl, use_bin_type=True))
                v = r[0] if op == "loads" else r[2][0]
                self.ext_hook_on[op] = type(v) is int and v == 77
            except Exception:
                self.ext_hook_on[op] = False
        # warm up every path once so that lazy imports do not show up as audit events of a case
        for n in SERS:
            for p in ([1, {"a": 2}], {"__class__": "Pyro5.core.URI", "state": ["PYRO", "o", None, "h", 1]},
                      {"__class__": "sqlite3.Error", "__exception__": True, "args": []},
                      {"__class__": "nope.Nope"}):
                try:
                    self.sers[n].loads(G.encode(self, n, p))
                except Exception:
                    pass

    # codec level ---------------------------------------------------------------------------
    def codec_loads(self, ser, data):
        if ser == "serpent":
            return self.serpent.loads(data)
        if ser == "json":
            return json.loads(data.decode("utf-8"))
        if ser == "marshal":
            return marshal.loads(data)
        return self.msgpack.unpackb(data, raw=False)

    def converter(self, classname, data):
        self.conv_log.append(classname)
        return _Conv(classname, data)

    def register(self, tags):
        for t in tags:
            self.serializers.SerializerBase.register_dict_to_class(t, self.converter)

    def unregister(self, tags):
        for t in tags:
            self.serializers.SerializerBase.unregister_dict_to_class(t)


_REAL = None


def real():
    global _REAL
    if _REAL is None:
        _REAL = Real()
        REC.install()
    return _REAL


# ------------------------------------------------------------------------------------------------
# canonical forms
# ------------------------------------------------------------------------------------------------
def _h(b):
    return b.hex() if b else "-"


def _label(x):
    if isinstance(x, float):
        return "float"
    tn = "".join(c for c in type(x).__name__ if c.isalnum()) or "obj"
    return "%s.%s" % (tn, hashlib.blake2b(repr(x).encode("utf-8", "backslashreplace"), digest_size=4).hexdigest())


def _own_ext(code, data):
    """independent re-implementation of the data mapping of ext_hook (labels of converted leaves only)"""
    if code == 0x30:
        return complex(*struct.unpack("dd", data))
    if code == 0x31:
        return int(data)
    if code == 0x32:
        return datetime.datetime.fromtimestamp(struct.unpack("d", data)[0])
    if code == 0x33:
        return datetime.date.fromordinal(struct.unpack("l", data)[0])
    raise ValueError("code")


class Unencodable(Exception):
    pass


class NotComparable(Exception):
    """the decoded value depends on CPython constructor internals the model does not describe"""


def tokens(R, v, out, ser):
    """literal tree -> driver tokens (prefix form)"""
    t = type(v)
    if t is str:
        try:
            out.append("s:" + _h(v.encode("utf-8")))
        except UnicodeEncodeError:
            raise Unencodable("surrogate")
    elif t is bytes or t is bytearray:
        out.append("b:" + _h(bytes(v)))
    elif t is list or t is tuple:
        out.append(("l:%d" if t is list else "t:%d") % len(v))
        for x in v:
            tokens(R, x, out, ser)
    elif t is set:
        # elements are hashable, hence unchanged by class re-creation: order them as the rendering of the result does
        out.append("e:%d" % len(v))
        for x in sorted(v, key=lambda e: canon(R, e)):
            tokens(R, x, out, ser)
    elif t is dict:
        out.append("d:%d" % len(v))
        for k, x in v.items():
            if type(k) is str:
                try:
                    out.append("ks:" + _h(k.encode("utf-8")))
                except UnicodeEncodeError:
                    raise Unencodable("surrogate")
            else:
                out.append("ko:" + _label(k))
            tokens(R, x, out, ser)
    elif t is R.msgpack.ExtType:
        try:
            conv = _own_ext(v.code, v.data)
            out.append("x:%d:%s:%s:%d" % (v.code, _label(v), _label(conv), 1 if conv else 0))
        except Exception:
            out.append("x:%d:%s:%s:%d" % (v.code, _label(v), "none", 0))
    elif t in (type(None), bool, int, float, complex, datetime.datetime, datetime.date, R.msgpack.Timestamp):
        out.append("a%d:%s" % (1 if v else 0, _label(v)))
    else:
        out.append("o%d:%s" % (1 if v else 0, _label(v)))      # frozenset, … : passed through, never looked into


def canon(R, v, depth=0):
    """decoded value -> the rendering the Lean driver prints"""
    if depth > 60:
        return "?deep"
    t = type(v)
    if t is str:
        return "S" + _h(v.encode("utf-8", "surrogatepass"))
    if t is bytes or t is bytearray:
        return "B" + _h(bytes(v))
    if t is list:
        return "L[" + ",".join(canon(R, x, depth + 1) for x in v) + "]"
    if t is tuple:
        return "T[" + ",".join(canon(R, x, depth + 1) for x in v) + "]"
    if t is set:
        return "E[" + ",".join(sorted(canon(R, x, depth + 1) for x in v)) + "]"
    if t is dict:
        return "D[" + ",".join((("S" + _h(k.encode("utf-8", "surrogatepass"))) if type(k) is str else ("O" + _label(k)))
                               + "=" + canon(R, x, depth + 1) for k, x in v.items()) + "]"
    if t is R.core.URI:
        return "IPyro5.core.URI(" + ",".join(canon(R, getattr(v, f, None), depth + 1)
                                            for f in ("protocol", "object", "sockname", "host", "port")) + ")"
    if t is R.client.Proxy:
        d = vars(v)
        return "IPyro5.client.Proxy(%s,%s)" % (canon(R, d.get("_pyroHandshake"), depth + 1), canon(R, d.get("_pyroSerializer"), depth + 1))
    if t is R.server.Daemon:
        return "IPyro5.server.Daemon()"
    if t in R.ser_classes:
        return "IPyro5.serializers.%s()" % t.__name__
    if t is R.core._ExceptionWrapper:
        return "IPyro5.core._ExceptionWrapper(" + canon(R, v.exception, depth + 1) + ")"
    if t is _Conv:
        return "Icustom:%s(%s)" % (_h(v.tag.encode("utf-8", "surrogatepass")), canon(R, v.data, depth + 1))
    if isinstance(v, BaseException):
        if isinstance(v, OSError) and (getattr(v, "filename", None) is not None or isinstance(getattr(v, "errno", None), int)):
            raise NotComparable("oserror-args")     # OSError.__init__ rewrote args / picked a subclass (CPython, not Pyro)
        return "I%s.%s(%s,%s)" % (t.__module__, t.__qualname__, canon(R, v.args, depth + 1), canon(R, dict(vars(v)), depth + 1))
    if t in (type(None), bool, int, float, complex, frozenset, datetime.datetime, datetime.date, R.msgpack.ExtType, R.msgpack.Timestamp):
        return "A" + _label(v)
    return "?" + t.__module__ + "." + t.__qualname__




def err_enum(R, x):
    if isinstance(x, R.errors.SecurityError):
        return "Security"
    if isinstance(x, R.errors.SerializeError):
        return "Serialize"
    if isinstance(x, (KeyError, IndexError)):
        return "Lookup"
    if isinstance(x, (TypeError, AttributeError)):
        return "TypeAttr"
    if isinstance(x, ValueError):
        return "Value"
    if isinstance(x, AssertionError):
        return "Assertion"
    return "Other:" + type(x).__name__


def ext_site(R, x):
    """which external call (constructor, setattr, float, URI parser, set, ext parsing) raised `x`, or None if Pyro's own code did.
    Decided from WHAT the frames hold, not from source text or local / helper names: an exception-class local plus the class dict
    in the innermost frame of Pyro5/serializers.py = the constructor (or, once an instance of it exists and `attributes` is a dict,
    setattr); SerpentSerializer.dict_to_class on a "float" dict with a value = float(); a frame below Proxy.__setstate__ = the
    URI parser; Proxy.__setstate__ itself with a non-lookup, non-subscript error = set(); anything but SerializeError out of
    MsgpackSerializer.ext_hook = the byte parsing."""
    if isinstance(x, (R.errors.SerializeError, R.errors.SecurityError)):
        return None
    frames = []
    tb = x.__traceback__
    while tb is not None:
        frames.append(tb.tb_frame)
        tb = tb.tb_next
    if not frames:
        return None
    inner = frames[-1]
    for fr in reversed(frames):
        if fr.f_code is R.code_exth:
            try:
                code, data = (fr.f_locals[n] for n in fr.f_code.co_varnames[1:3])
                return "exthook=%d:%s" % (code, _label(R.msgpack.ExtType(code, bytes(data))))
            except Exception:
                return "exthook"
    for i, fr in enumerate(frames):
        if fr.f_code is R.code_proxy:
            state = fr.f_locals.get(fr.f_code.co_varnames[1])
            if i < len(frames) - 1:
                if frames[i + 1].f_code.co_filename != R.core.__file__:
                    return None
                try:
                    return "uri=" + canon(R, state[0])
                except Exception:
                    return "uri"
            if isinstance(x, (KeyError, IndexError)) or "subscriptable" in str(x):
                return None
            for k in (1, 2, 3):             # which of the three set(...) calls it was: the first whose argument set() refuses
                try:
                    set(state[k])
                except (KeyError, IndexError):
                    break
                except Exception:
                    try:
                        return "mkset=" + canon(R, state[k])
                    except Exception:
                        break
            return "mkset"
    if inner.f_code is R.code_serp:
        data = next((v for v in inner.f_locals.values() if type(v) is dict and "__class__" in v), None)
        if data is not None and data.get("__class__") == "float" and "value" in data:
            try:
                return "float=" + canon(R, data["value"])
            except Exception:
                return "float"
        return None
    if inner.f_code.co_filename != R.serializers.__file__:
        return None
    loc = list(inner.f_locals.values())
    etypes = [v for v in loc if isinstance(v, type) and issubclass(v, BaseException)]
    datas = [v for v in loc if type(v) is dict and "__class__" in v]
    if len(etypes) != 1 or not datas:
        return None
    et, data = etypes[0], datas[0]
    insts = [v for v in loc if isinstance(v, et) and not isinstance(v, type)]
    if insts:
        attrs = data.get("attributes")
        if type(attrs) is not dict:
            return None
        # the attribute that failed: the first one (in order) that is not on the instance
        missing = object()
        for k, v in attrs.items():
            if type(k) is str and getattr(insts[0], k, missing) is v:
                continue
            try:
                return "setattr=%s=%s" % (("S" + _h(k.encode("utf-8", "surrogatepass"))) if type(k) is str else ("O" + _label(k)),
                                          canon(R, v))
            except Exception:
                break
        return "setattr"
    if "args" not in data:
        return None
    try:
        args = list(data["args"])
    except TypeError:
        return None
    try:
        return "ctor:%s.%s=%s" % (et.__module__, et.__qualname__, ",".join(canon(R, a) for a in args))
    except Exception:
        return "ctor:%s.%s" % (et.__module__, et.__qualname__)


# ------------------------------------------------------------------------------------------------
# property oracle pieces (independent of the model)
# ------------------------------------------------------------------------------------------------
def foreign_types(R, v, allow_conv, out, seen, depth=0, ext_plain=True):
    """collect every type in the decoded value that is neither plain data nor a class of the closed set"""
    if depth > 80 or id(v) in seen:
        return
    t = type(v)
    if t in (type(None), bool, int, float, complex, str, bytes, bytearray, datetime.datetime, datetime.date, R.msgpack.Timestamp):
        return
    if t is R.msgpack.ExtType:
        if not ext_plain:
            out.append("msgpack.ExtType(code=%d) left undecoded" % v.code)
        return
    seen.add(id(v))
    if t in (list, tuple, set, frozenset):
        for x in v:
            foreign_types(R, x, allow_conv, out, seen, depth + 1, ext_plain)
    elif t is dict:
        for k, x in v.items():
            foreign_types(R, k, allow_conv, out, seen, depth + 1, ext_plain)
            foreign_types(R, x, allow_conv, out, seen, depth + 1, ext_plain)
    elif t is R.core.URI:
        for f in ("protocol", "object", "sockname", "host", "port"):
            foreign_types(R, getattr(v, f, None), allow_conv, out, seen, depth + 1, ext_plain)
    elif t is R.client.Proxy:
        for x in vars(v).values():
            foreign_types(R, x, allow_conv, out, seen, depth + 1, ext_plain)
    elif t is R.server.Daemon or t in R.ser_classes:
        for x in vars(v).values():
            foreign_types(R, x, allow_conv, out, seen, depth + 1, ext_plain)
    elif t is R.core._ExceptionWrapper:
        foreign_types(R, v.exception, allow_conv, out, seen, depth + 1, ext_plain)
    elif t is _Conv and allow_conv:
        foreign_types(R, v.data, allow_conv, out, seen, depth + 1, ext_plain)
    elif isinstance(v, BaseException) and t.__module__ in ("builtins", "Pyro5.errors", "sqlite3", "struct") \
            and getattr(sys.modules.get(t.__module__), t.__qualname__, None) is t:
        foreign_types(R, v.args, allow_conv, out, seen, depth + 1, ext_plain)
        for x in vars(v).values():
            foreign_types(R, x, allow_conv, out, seen, depth + 1, ext_plain)
        for a in ("__cause__", "__context__"):
            foreign_types(R, getattr(v, a, None), allow_conv, out, seen, depth + 1, ext_plain)
    else:
        out.append(t.__module__ + "." + t.__qualname__)


def active_class_dicts(lit, out, depth=0, reg=()):
    """class-tagged dicts the decoder must act upon: reachable from the top through list/tuple/set/untagged dicts, and the
    `exception` member of an (unregistered) Pyro5.core._ExceptionWrapper dict, which dict_to_class re-creates itself"""
    if depth > 80:
        return
    t = type(lit)
    if t in (list, tuple, set):
        for x in lit:
            active_class_dicts(x, out, depth + 1, reg)
    elif t is dict:
        if "__class__" in lit:
            out.append(lit)
            tag = tag_text(lit["__class__"])
            if tag == "Pyro5.core._ExceptionWrapper" and tag not in reg:
                ex = lit.get("exception")
                if type(ex) is dict and "__class__" in ex:
                    active_class_dicts(ex, out, depth + 1, reg)
        else:
            for x in lit.values():
                active_class_dicts(x, out, depth + 1, reg)


def call_parts(ser, lit):
    """the sub-trees loadsCall re-creates classes in (vargs, kwargs), or None if the shape is not a call"""
    if ser == "json":
        if type(lit) is dict and "params" in lit and "kwargs" in lit:
            return [lit["params"], lit["kwargs"]]
        return None
    if type(lit) in (list, tuple) and len(lit) == 4:
        return [lit[2], lit[3]]
    return None


_FIXED_TAGS = {"Pyro5.core.URI", "Pyro5.client.Proxy", "Pyro5.server.Daemon", "Pyro5.util.SerpentSerializer",
               "Pyro5.util.MarshalSerializer", "Pyro5.util.JsonSerializer", "Pyro5.util.MsgpackSerializer", "struct.error",
               "Pyro5.core._ExceptionWrapper"}


def tag_in_closed_set(R, ser, tag, d):
    """the property's own reading of 'a tag of the closed set' (independent of the Lean model)"""
    if tag in _FIXED_TAGS:
        return True
    if ser == "serpent" and tag == "float":
        return True
    if tag.startswith("Pyro5.errors."):
        t = vars(R.errors).get(tag[len("Pyro5.errors."):])
        return isinstance(t, type) and issubclass(t, R.errors.PyroError)
    try:
        flag = bool(d.get("__exception__", False))
    except Exception:
        flag = False
    if not flag:
        return False
    t = vars(R.builtins).get(tag)
    if isinstance(t, type) and issubclass(t, BaseException):
        return True
    t = vars(R.errors).get(tag)
    if isinstance(t, type) and issubclass(t, R.errors.PyroError):
        return True
    for ns in ("builtins.", "exceptions."):
        if tag.startswith(ns):
            t = vars(R.builtins).get(tag[len(ns):])
            return isinstance(t, type) and issubclass(t, BaseException)
    if tag.startswith("sqlite3."):      # the statement allows "exception classes taken from sqlite3" (the code: only *Error)
        t = vars(R.sqlite3).get(tag[len("sqlite3."):])
        return isinstance(t, type) and issubclass(t, BaseException)
    return False


def tag_text(tag):
    if type(tag) is str:
        return tag
    if type(tag) is bytes:
        try:
            return tag.decode("utf-8")
        except UnicodeDecodeError:
            return None
    return None


# ------------------------------------------------------------------------------------------------
# one case on the real code
# ------------------------------------------------------------------------------------------------
def run_real(R, ser, op, data, reg):
    """returns dict(outcome, canon/err, site, events, conv, result-derived facts)"""
    s = R.sers[ser]
    R.conv_log = []
    R.register(reg)
    res = {}
    # a decoder that (wrongly) reaches input()/help()/print() must neither block on nor write to the check's own streams
    old_std = sys.stdin, sys.stdout
    sys.stdin, sys.stdout = io.StringIO(""), io.StringIO()
    try:
        REC.start()
        try:
            try:
                r = s.loads(data) if op == "loads" else s.loadsCall(data)
                ok = True
            except Blocked as x:
                ok, r = False, x
            except BaseException as x:   # noqa
                ok, r = False, x
        finally:
            ev = REC.stop()
        res["events"] = ev
        res["conv"] = list(R.conv_log)
        if ok:
            res["ok"] = True
            try:
                res["canon"] = "ok " + canon(R, r)
            except NotComparable as nc:
                res["canon"] = "ok ?"
                res["nocompare"] = str(nc)
            ft = []
            # an undecoded msgpack extension value counts as data only on a path that does not run ext_hook at all; where
            # ext_hook runs, every extension value is converted or refused (theorem C04_ext_converted)
            foreign_types(R, r, bool(reg), ft, set(), 0, not (ser == "msgpack" and R.ext_hook_on.get(op, False)))
            res["foreign"] = ft
            res["has_inst"] = any(m in res["canon"] for m in ("[I", ",I", "(I", "=I", "ok I"))
        else:
            res["ok"] = False
            res["exc"] = "%s: %s" % (type(r).__name__, str(r)[:160])
            if isinstance(r, Blocked):
                res["canon"] = "err Blocked"
                res["site"] = None
            else:
                site = ext_site(R, r)
                res["site"] = site
                res["canon"] = "err " + (("ext:" + site.replace("=", ":").split(":")[0]) if site else err_enum(R, r))
        # finalizers of what was built must be silent too
        REC.start()
        try:
            r = None
        finally:
            res["events_del"] = REC.stop()
    finally:
        sys.stdin, sys.stdout = old_std
        R.unregister(reg)
    return res


def check_property(ctx, R, case, ser, op, data, reg, lit, base_events, res):
    """step D on one decode: ctx.fail(...) for every way the real code breaks the property"""
    casej = {"ser": ser, "op": op, "data": data.hex(), "reg": reg, "origin": case.get("origin", "gen")}
    extra = _minus(res["events"], base_events) + res["events_del"]
    if extra:
        fam = extra[0][0].split(".")[0]
        ctx.fail("side-effect:%s:%s" % (fam, ser),
                 "%s.%s performed %s while decoding (events beyond the codec's own: %s)"
                 % (ser, "loads" if op == "loads" else "loadsCall", extra[0][0], extra[:4]), dict(casej, sig="side-effect"))
    if not res["ok"]:
        return
    if res["foreign"]:
        ctx.fail("foreign-type:%s" % ser, "decoded value contains an instance of %s (outside the closed set)" % res["foreign"][0],
                 dict(casej, sig="foreign-type"))
    act = []
    if op == "loads":
        active_class_dicts(lit, act, 0, reg)
    else:
        parts = call_parts(ser, lit)
        for p in parts or []:
            active_class_dicts(p, act, 0, reg)
    for d in act:
        tag = tag_text(d.get("__class__"))
        if tag is None:
            ctx.fail("bad-tag-accepted:%s" % ser, "a class dict whose tag is not text (%r) was decoded without an error" % (d.get("__class__"),),
                     dict(casej, sig="bad-tag"))
            continue
        if tag in reg:
            continue
        if "__" in tag:
            ctx.fail("dunder-tag-accepted:%s" % ser, "tag %r (double underscore, no converter registered) was decoded without an error" % tag,
                     dict(casej, sig="dunder"))
        elif not tag_in_closed_set(R, ser, tag, d):
            ctx.fail("unknown-tag-accepted:%s" % ser, "tag %r is outside the closed set but was decoded without an error" % tag,
                     dict(casej, sig="unknown-tag"))


# ------------------------------------------------------------------------------------------------
# the run
# ------------------------------------------------------------------------------------------------
def _corpus():
    out = []
    d = os.path.join(common.VERIF, "corpus", "C04")
    if os.path.isdir(d):
        for f in sorted(os.listdir(d)):
            if f.endswith(".json"):
                c = json.load(open(os.path.join(d, f)))
                c["origin"] = "corpus/" + f
                out.append(c)
    return out


def _corpus_cases():
    return [(c, c["ser"], c["op"], bytes.fromhex(c["data"]), list(c.get("reg", [])), True) for c in _corpus()]


def _gen_cases(ctx, R, rng, gen, n):
    """list of (case, ser, op, data, reg, modelled)"""
    out = []
    for i in range(n):
        tree, info = gen.payload()
        sers = rng.sample(SERS, 2)
        for ser in sers:
            for op in ("loads", "call"):
                if op == "call":
                    p = gen.call_shape(ser, tree)
                else:
                    p = tree
                try:
                    data = G.encode(R, ser, p, rng)
                except Exception:
                    ctx.count("encode-fail:" + ser)
                    continue
                reg = list(info["reg"])
                out.append(({"origin": "gen", "hostile": info["hostile"]}, ser, op, data, reg, not info["hostile"]))
    return out


CHUNK = 2500


def _run(ctx, name, n, do_model):
    R = real()
    rng = ctx.sub_rng(name)
    gen = G.Gen(R, rng)
    _run_cases(ctx, R, _corpus_cases(), do_model)
    done = 0
    while done < n:
        k = min(CHUNK, n - done)
        _run_cases(ctx, R, _gen_cases(ctx, R, rng, gen, k), do_model)
        done += k
    REC.start()
    gc.collect()
    ev = REC.stop()
    if ev:
        ctx.fail("side-effect:gc", "finalizers of decoded objects performed %s" % ev[:3], {"sig": "gc", "events": ev[:5]})


def _run_cases(ctx, R, cases, do_model):
    lines, reals, metas = [], [], []
    for idx, (case, ser, op, data, reg, modelled) in enumerate(cases):
        REC.start()
        try:
            try:
                lit = R.codec_loads(ser, data)
                lit_ok = True
            except Exception:
                lit, lit_ok = None, False
        finally:
            base = REC.stop()
        res = run_real(R, ser, op, data, reg)
        ctx.evaluations += 1
        ctx.count("%s.%s:%s" % (ser, op, "ok" if res["ok"] else res["canon"]))
        if not lit_ok:
            ctx.count("codec-rejects")
            # the codec itself refuses the bytes: Pyro must fail too, silently
            extra = _minus(res["events"], base)
            if extra or res["ok"]:
                ctx.fail("codec-reject-mismatch:%s" % ser, "codec refused the bytes but Pyro decoded/acted: %s %s" % (res["canon"][:80], extra[:3]),
                         {"ser": ser, "op": op, "data": data.hex(), "reg": reg, "sig": "codec"})
            continue
        check_property(ctx, R, case, ser, op, data, reg, lit, base, res)
        act = []
        if op == "loads":
            active_class_dicts(lit, act)
        else:
            for p in call_parts(ser, lit) or []:
                active_class_dicts(p, act)
        if act and ((res["ok"] and res["has_inst"]) or res["canon"] in ("err Security", "err Serialize")):
            ctx.nontriv("%s|%s|%s|%s" % (ser, op, data.hex(), ",".join(reg)))
        if len(ctx.samples) < 6 and act and res["ok"] and res["has_inst"] and len(data) < 160:
            ctx.sample({"ser": ser, "op": op, "literal": repr(lit)[:300], "decoded": res["canon"][:300]})
        if not (do_model and modelled):
            continue
        if res.get("nocompare"):
            ctx.count("not-modelled:" + res["nocompare"])
            continue
        try:
            toks = []
            tokens(R, lit, toks, ser)
        except Unencodable:
            ctx.count("not-modelled:surrogate")
            continue
        regtok = ",".join(_h(t.encode("utf-8")) for t in reg) if reg else "-"
        lines.append("%s %s %s %s %s" % (op, ser, regtok, res.get("site") or "-", " ".join(toks)))
        conv = ",".join("conv:" + _h(t.encode("utf-8")) for t in res["conv"])
        imports = sorted({e[1] for e in _minus(res["events"], base) if e[0] == "import"})
        reals.append((res["canon"], conv, imports))
        metas.append((case, ser, op, data, reg, lit))
    if do_model and lines:
        outs = common.run_driver("drv_c04", lines)
        ctx.corr_cases += len(lines)
        for line, (rc, rconv, rimp), out, meta in zip(lines, reals, outs, metas):
            case, ser, op, data, reg, lit = meta
            parts = out.split(" ")
            if parts and parts[-1].startswith("src="):
                if parts[-1] != "src=same":
                    # the transcription of the source (Gen/C04Src.lean) and the hand model disagree on this literal tree
                    ctx.mismatch(ser, {"line": line[:900], "ser": ser, "op": op, "data": data.hex(), "reg": reg,
                                       "literal": repr(lit)[:400], "what": "transcription of the source != model"},
                                 "transcription: differs", out[:300])
                parts = parts[:-1]
                out = " ".join(parts)
            else:
                parts = []
            if len(parts) < 3:
                ctx.mismatch(ser, {"line": line[:600], "ser": ser, "op": op, "data": data.hex(), "reg": reg}, rc[:300], out[:300])
                continue
            mres, fx = " ".join(parts[:-1]), parts[-1]
            if mres == "err Unmodelled":
                ctx.count("not-modelled:domain")
                continue
            effects = [] if fx == "-" else fx.split(",")
            for e in set(effects):
                if e.startswith("new:"):
                    q = e[4:]
                    fam = q if q.startswith("Pyro5.") and not q.startswith("Pyro5.errors.") else q.split(".")[0] + ".<exc>" \
                        if not q.startswith("Pyro5.errors.") else "Pyro5.errors.<exc>"
                    ctx.count("model-branch:new:" + ("custom" if q.startswith("custom:") else fam))
                elif not e.startswith("conv:"):
                    ctx.count("model-branch:" + e)
                else:
                    ctx.count("model-branch:conv")
            ctx.count("model-result:" + (mres if mres.startswith("err") else "ok"))
            mconv = ",".join(e for e in effects if e.startswith("conv:"))
            mimp = {e[4:] for e in effects if e.startswith("imp:")}
            good = mres == rc and mconv == rconv and set(rimp) <= mimp
            if not good:
                ctx.mismatch(ser, {"line": line[:900], "ser": ser, "op": op, "data": data.hex(), "reg": reg,
                                   "literal": repr(lit)[:400]},
                             ("%s | conv=%s imports=%s" % (rc, rconv, rimp))[:500], out[:500])


def correspondence(ctx):
    _run(ctx, "corr", ctx.n(6000, 300000), True)


def oracle(ctx):
    from props import c04_registry
    c04_registry.run(ctx, ctx.n(60, 2000))
    # step D runs inside _run on the same decodes; search mode adds fresh ones (real code only)
    if ctx.search_mode:
        _run(ctx, "search", ctx.n(4000, 40000), False)


def replay(ctx, case):
    f = case.get("failing_input") or {}
    c = f.get("case") or (case if "data" in case else None)
    if not c or "data" not in c:
        print("replay file names no failing input:", case.get("no_longer_checks"))
        return 1
    R = real()
    ser, op, data, reg = c["ser"], c["op"], bytes.fromhex(c["data"]), list(c.get("reg", []))
    REC.start()
    try:
        try:
            lit = R.codec_loads(ser, data)
        except Exception as x:
            lit = None
            print("codec refuses the bytes:", repr(x))
    finally:
        base = REC.stop()
    print("serializer %s, %s, registered converters %s" % (ser, "loads" if op == "loads" else "loadsCall", reg))
    print("literal tree delivered by the codec: %r" % (lit,))
    res = run_real(R, ser, op, data, reg)
    print("real outcome: %s %s" % (res["canon"][:400], res.get("exc", "")))
    print("audit events while decoding (beyond the codec's own):", _minus(res["events"], base) + res["events_del"])

    class _C:
        failures = []

        def fail(self, sig, desc, case):
            self.failures.append((sig, desc))
    cc = _C()
    if lit is not None:
        check_property(cc, R, {}, ser, op, data, reg, lit, base, res)
    for sig, desc in cc.failures:
        print("VIOLATION reproduced [%s]: %s" % (sig, desc))
    if not cc.failures:
        print("not reproduced")
    return 1 if cc.failures else 0
