"""C19 helper — proxy-state histories.

A proxy's state path (`Proxy.__getstate__` / `__setstate__`, used by every serializer and by copy.copy) must
deliver a proxy whose uri EQUALS the uri the proxy holds at that moment: same protocol/object/location, same
text form, and an object part of the same type (a set for PYROMETA) — after any history of
   send (4 serializers x value / call argument / keyword argument / nested in list / nested in dict)
 | copy.copy | uri replaced (what `_pyroBind` does with the resolved uri) | release | real `_pyroBind()`.
The property oracle here runs on the real code only; `history_suite` also diffs the delivered uris against the
Lean model's `proxyRun` (driver op `h`).
"""
import copy
import random
import threading

import common
from common import cps

SHAPES = ["value", "arg", "kwarg", "list", "dict"]


def _c19():
    from props import c19
    return c19


def _canon_text(URI, u):
    obj = u.object
    if isinstance(obj, (set, frozenset)):
        return _c19().str_in_order(URI, u, sorted(obj))
    return str(u)


def uri_difference(URI, got, want):
    """None when `got` is a URI indistinguishable from `want`; else what differs"""
    if not isinstance(got, URI):
        return "holds %r instead of a URI" % (got,)
    gs, ws = got.__getstate__(), want.__getstate__()
    if type(gs[1]) is not type(ws[1]):
        return "holds a uri whose object is a %s %r (sender: %s %r)" % (type(gs[1]).__name__, gs[1], type(ws[1]).__name__, ws[1])
    if not (got == want) or (got != want) or not (want == got):
        return "holds the uri %r, the sender's proxy is for %r" % (gs, ws)
    try:
        tg, tw = _canon_text(URI, got), _canon_text(URI, want)
    except Exception as x:
        return "holds a uri that cannot be printed (%r)" % (x,)
    if tg != tw:
        return "holds a uri that prints as %r (sender: %r)" % (tg, tw)
    try:
        hw = hash(want)
    except TypeError:
        try:
            hash(got)
        except TypeError:
            return None
        return "holds a hashable uri although the sender's is not"
    try:
        if hash(got) != hw:
            return "holds an equal uri with a different hash"
    except TypeError:
        return "holds an unhashable uri although the sender's is hashable"
    return None


def transport(ser, p, shape):
    """send proxy `p` through serializer `ser` in the given shape; returns what the receiver holds in p's place"""
    if shape == "value":
        return ser.loads(ser.dumps(p))
    if shape == "arg":
        obj, meth, vargs, kwargs = ser.loadsCall(ser.dumpsCall("c19.obj", "meth", (7, p), {}))
        return vargs[1]
    if shape == "kwarg":
        obj, meth, vargs, kwargs = ser.loadsCall(ser.dumpsCall("c19.obj", "meth", (), {"p": p}))
        return kwargs["p"]
    if shape == "list":
        return ser.loads(ser.dumps([1, p]))[1]
    if shape == "dict":
        return ser.loads(ser.dumps({"k": [p]}))["k"][0]
    raise ValueError(shape)


def _deliver(ctx, mods, p, op):
    """perform a send/copy op on the real proxy; returns ('ok', proxy) | ('refused', why) | ('lost', what)"""
    URI, errors, client, serializers = mods
    if op[0] == "copy":
        try:
            return "ok", copy.copy(p)
        except errors.PyroError as x:
            return "lost", "cannot be built (%s)" % x
    ser = serializers.serializers[op[1]]
    try:
        q = transport(ser, p, op[2])
    except errors.PyroError as x:
        return "lost", "cannot be rebuilt by the receiver (%s)" % x
    except (UnicodeError, TypeError, ValueError, OverflowError) as x:
        ctx.count("proxy:%s-refuses-%s" % (op[1], type(x).__name__))
        return "refused", repr(x)
    if not isinstance(q, client.Proxy):
        ctx.count("proxy:%s/%s-not-rebuilt-as-proxy" % (op[1], op[2]))
        return "refused", "not a proxy"
    return "ok", q


def run_history(ctx, mods, init, ops, case):
    """run one history on the real code; returns the list of delivered uri texts of the serpent/value sends and copies
    (for the model diff); reports property failures through ctx.fail"""
    URI, errors, client, serializers = mods
    p = client.Proxy(init)
    cur = URI(init)              # what the proxy must designate now, kept independently of the proxy object
    delivered = []
    done = []
    failed = False
    for op in ops:
        done.append(op)
        if op[0] == "seturi":
            p._pyroUri = URI(op[1])          # client.py: `self._pyroUri = uri` in __pyroCreateConnection(replaceUri=True)
            cur = URI(op[1])
            continue
        if op[0] == "release":
            p._pyroRelease()
            continue
        ctx.evaluations += 1
        status, q = _deliver(ctx, mods, p, op)
        what = None
        if status == "lost":
            what = q
        elif status == "ok":
            what = uri_difference(URI, q._pyroUri, cur)
            if what is None and uri_difference(URI, p._pyroUri, cur) is not None:
                what = "left the SENDER's proxy with the uri %r" % (p._pyroUri.__getstate__(),)
            if what is None and (not (q == p) or q != p):
                what = "is a proxy that does not compare equal to the sender's"
        if op[0] == "copy" or (op[1] == "serpent" and op[2] == "value"):
            try:
                delivered.append("err" if status != "ok" else cps(_canon_text(URI, q._pyroUri)))
            except Exception:
                delivered.append("err")
        if what and not failed:
            failed = True
            via = "copy" if op[0] == "copy" else "%s/%s" % (op[1], op[2])
            sig = "proxy-copy" if op[0] == "copy" else "proxy-transport"
            c = dict(case)
            c.update({"history": [list(o) for o in done], "init": init, "via": via})
            ctx.fail(sig, "proxy for %r after the history %s: the proxy delivered by %s %s; it must be for %r"
                     % (init, _show(done[:-1]), via, what, cur.__getstate__()), c)
    try:
        p._pyroRelease()
    except Exception:
        pass
    return delivered


def _show(ops):
    return "[" + ", ".join(o[0] if len(o) == 1 else "%s(%s)" % (o[0], "/".join(map(str, o[1:]))) for o in ops) + "]"


def _mods():
    common.repo_on_path()
    from Pyro5 import core, errors, client, serializers
    return core.URI, errors, client, serializers


def _accepted(URI, rng, want_meta=None, tries=400):
    M = _c19()
    for _ in range(tries):
        s = M.gen_uri(rng)
        if not M.in_model_domain(s) or not s.isascii() and rng.random() < 0.5:
            continue
        try:
            s.encode("utf-8")
            u = URI(s)
        except Exception:
            continue
        if want_meta is True and u.protocol != "PYROMETA":
            continue
        if want_meta is False and u.protocol == "PYROMETA":
            continue
        return s
    return "PYROMETA:a,b@h:1" if want_meta else "PYRONAME:c19.obj"


def gen_history(URI, rng, sernames):
    # start mostly from the indirect protocols (those are the ones that get bound), tag lists well represented
    r = rng.random()
    init = _accepted(URI, rng, True if r < 0.45 else None)
    ops = []
    for _ in range(rng.randint(2, 7)):
        r = rng.random()
        if r < 0.50:
            ops.append(("send", rng.choice(sernames), rng.choice(SHAPES)))
        elif r < 0.65:
            ops.append(("copy",))
        elif r < 0.92:
            ops.append(("seturi", _accepted(URI, rng, False if rng.random() < 0.7 else None)))
        else:
            ops.append(("release",))
    # every history ends by sending and copying what the proxy is for now
    ops.append(("send", "serpent", "value"))
    ops.append(("send", rng.choice(sernames), rng.choice(SHAPES)))
    ops.append(("copy",))
    return init, ops


def _corpus_histories():
    import json
    import os
    d = os.path.join(common.VERIF, "corpus", "C19")
    out = []
    if os.path.isdir(d):
        for f in sorted(os.listdir(d)):
            if f.endswith(".json"):
                c = json.load(open(os.path.join(d, f)))
                if "history" in c:
                    out.append((c["init"], [tuple(o) for o in c["history"]]))
    return out


def history_suite(ctx, name, n, do_model):
    mods = _mods()
    URI, errors, client, serializers = mods
    from Pyro5 import config
    rng = ctx.sub_rng(name)
    sernames = sorted(serializers.serializers)
    fixed = [  # the two shapes of history the check must never lose again
        ("PYRONAME:c19.obj", [("send", "serpent", "value"), ("seturi", "PYRO:c19.obj@localhost:4444"),
                              ("send", "serpent", "value"), ("send", "json", "arg"), ("copy",)]),
        ("PYROMETA:b,a@ns.host:9091", [("copy",), ("seturi", "PYRO:obj_7f3a@[::1]:55"), ("copy",),
                                       ("send", "msgpack", "kwarg"), ("send", "marshal", "list")]),
        ("PYROMETA:tag1,class:device,a", [("send", "json", "value"), ("send", "msgpack", "value"), ("send", "json", "arg"),
                                          ("send", "msgpack", "kwarg"), ("send", "json", "list"), ("send", "msgpack", "dict"),
                                          ("send", "serpent", "value"), ("send", "marshal", "dict"), ("copy",)]),
    ]
    fixed = _corpus_histories() + fixed
    lines, reals, kept = [], [], []
    old_port = config.NS_PORT
    try:
        for i in range(n + len(fixed)):
            init, ops = fixed[i] if i < len(fixed) else gen_history(URI, rng, sernames)
            nsport = 9090 if i < len(fixed) else rng.choice([9090, 9090, 1, 65535])
            config.NS_PORT = nsport
            case = {"nsport": nsport}
            delivered = run_history(ctx, mods, init, ops, case)
            ctx.count("proxy-history:len%d" % min(len(ops), 10))
            ctx.nontriv("proxy-history " + repr((init, ops, nsport)))
            if do_model:
                toks = []
                for op in ops:
                    if op[0] == "copy":
                        toks.append("c")
                    elif op[0] == "seturi":
                        toks.append("u:" + cps(op[1]))
                    elif op[0] == "send" and op[1] == "serpent" and op[2] == "value":
                        toks.append("s")
                lines.append("h %d %s %s" % (nsport, cps(init), " ".join(toks)))
                reals.append("ok " + "|".join(delivered))
                kept.append({"init": init, "history": [list(o) for o in ops], "nsport": nsport})
    finally:
        config.NS_PORT = old_port
    if do_model and lines:
        outs = common.run_driver("drv_c19", lines)
        ctx.corr_cases += len(lines)
        for c, l, r, m in zip(kept, lines, reals, outs):
            if r != m and len(ctx.mismatches) < 200:
                ctx.mismatch("proxy", {"line": l[:600], "case": c}, r[:400], m[:400])


def bind_histories(ctx, n):
    """the real `_pyroBind()` against a loopback daemon (core.resolve replaced by a table): serialize/copy, bind,
    serialize/copy again — the second round must deliver the BOUND uri"""
    mods = _mods()
    URI, errors, client, serializers = mods
    from Pyro5 import core, server, config

    class Svc(object):
        @server.expose
        def ping(self):
            return "pong"

    rng = ctx.sub_rng("bind")
    sernames = sorted(serializers.serializers)
    old_resolve = core.resolve
    daemon = server.Daemon(host="127.0.0.1", port=0)
    target = daemon.register(Svc(), "c19.svc")
    th = threading.Thread(target=daemon.requestLoop, daemon=True)
    th.start()

    def fake_resolve(uri, delay_time=0.0):
        uri = URI(uri) if isinstance(uri, str) else uri
        return uri if uri.protocol == "PYRO" else URI(target)
    core.resolve = fake_resolve
    try:
        inits = ["PYRONAME:c19.svc", "PYROMETA:svc,c19", "PYRONAME:c19.svc@127.0.0.1:9090", "PYROMETA:b,a,c@[::1]:9090"]
        for i in range(n):
            init = inits[i % len(inits)]
            first = [("copy",)] if i % 3 == 2 else [("send", rng.choice(sernames), rng.choice(SHAPES))]
            if i % 4 == 3:
                first = []
            p = client.Proxy(init)
            cur = URI(init)
            done = []
            failed = False

            def deliver_all(ops, cur):
                nonlocal failed
                for op in ops:
                    done.append(op)
                    ctx.evaluations += 1
                    status, q = _deliver(ctx, mods, p, op)
                    what = q if status == "lost" else uri_difference(URI, q._pyroUri, cur) if status == "ok" else None
                    if status == "ok":
                        q._pyroRelease()
                    if what and not failed:
                        failed = True
                        via = "copy" if op[0] == "copy" else "%s/%s" % (op[1], op[2])
                        ctx.fail("proxy-copy" if op[0] == "copy" else "proxy-transport",
                                 "proxy for %r after the history %s: the proxy delivered by %s %s; it must be for %r"
                                 % (init, _show(done[:-1]), via, what, cur.__getstate__()),
                                 {"init": init, "history": [list(o) for o in done], "via": via, "bind": True, "nsport": 9090})
            try:
                deliver_all(first, cur)
                p._pyroBind()
                done.append(("bind",))
                if p._pyroUri != URI(target):
                    ctx.count("bind:uri-not-replaced")      # not this property's business (C03/C08 territory)
                    continue
                cur = URI(target)
                after = [("send", s, rng.choice(SHAPES)) for s in sernames] + [("copy",)]
                deliver_all(after, cur)
                ctx.count("bind-history:ok" if not failed else "bind-history:failed")
                ctx.nontriv("bind-history " + repr((init, first)))
            finally:
                p._pyroRelease()
    finally:
        core.resolve = old_resolve
        daemon.shutdown()
        th.join(5)
        daemon.close()


def replay_history(c):
    """re-run a failing history from a replay file on the real code"""
    mods = _mods()
    URI, errors, client, serializers = mods

    class _Ctx(object):
        evaluations = 0

        def __init__(self):
            self.failures = []

        def fail(self, sig, desc, case):
            self.failures.append((sig, desc))

        def count(self, k, n=1):
            pass

        def nontriv(self, k):
            pass

        def sub_rng(self, name):
            return random.Random(0)
    cc = _Ctx()
    if c.get("bind"):
        bind_histories(cc, 8)
    else:
        ops = [tuple(o) for o in c["history"]]
        run_history(cc, mods, c["init"], ops, {})
    for sig, desc in cc.failures:
        print("[%s] %s" % (sig, desc))
    print("VIOLATION reproduced" if cc.failures else "not reproduced")
    return 1 if cc.failures else 0
