"""C07 rig: a REAL Daemon (thread-pool server, unix socket) in this process, real Proxies, and the canonical text forms
shared with the Lean driver (lean/Driver/C07.lean)."""
import logging
import os
import shutil
import tempfile
import threading

import common

SERS = ["serpent", "marshal", "json", "msgpack"]
SEQ_OUT = {"serpent": 0, "marshal": 0, "json": 1, "msgpack": 1}
TB_TOKEN = "L(S54.42)"          # ["TB"]: stands for any non-empty list of str
BAD_TB = "S42.41.44.54.42"      # "BADTB"


# ----------------------------------------------------------------------------------------------
# values <-> tokens
# ----------------------------------------------------------------------------------------------
class SlotRecord(object):
    """a __slots__ object whose slot was never filled: the to-dict conversion fails with AttributeError"""
    __slots__ = ("value",)


class StateRaises(object):
    """an object whose __getstate__ fails with a RuntimeError"""

    def __getstate__(self):
        raise RuntimeError("state of this object is not available")


class Unser:
    """stands for an object no serializer can turn into data; `make()` builds the real thing"""

    def __init__(self, kind):
        self.kind = kind

    def __repr__(self):
        return "<unserialisable %s>" % self.kind

    def make(self):
        if self.kind == "object":
            return object()
        if self.kind == "lock":
            return threading.Lock()
        if self.kind == "builtin":
            return len
        if self.kind == "event-method":
            return threading.Event().set
        if self.kind == "slots-unset":
            return SlotRecord()
        if self.kind == "getstate-raises":
            return StateRaises()
        raise ValueError(self.kind)

    def clsname(self):
        return {"object": "builtins.object", "lock": "_thread.lock", "builtin": "builtins.builtin_function_or_method",
                "event-method": "builtins.method", "slots-unset": "props.c07_rig.SlotRecord",
                "getstate-raises": "props.c07_rig.StateRaises"}[self.kind]


def cps(s):
    return ".".join("%x" % ord(c) for c in s)


def uncps(t):
    return "".join(chr(int(x, 16)) for x in t.split(".")) if t else ""


def enc(v, sort=False):
    """token of a Python value (Driver/C07.lean syntax); sort=True: dict items by key (canonical output form)"""
    t = type(v)
    if v is None:
        return "N"
    if t is bool:
        return "T" if v else "F"
    if t is int:
        return "I%d" % v
    if t is str:
        return "S" + cps(v)
    if t is list:
        return "L(" + ",".join(enc(x, sort) for x in v) + ")"
    if t is tuple:
        return "U(" + ",".join(enc(x, sort) for x in v) + ")"
    if t is dict:
        items = list(v.items())
        if any(type(k) is not str for k, _ in items):
            return "A1" + cps("dict-with-non-str-keys:" + repr(sorted(map(repr, v))))
        if sort:
            items.sort(key=lambda kv: [ord(c) for c in kv[0]])
        return "D(" + ",".join(cps(k) + ":" + enc(x, sort) for k, x in items) + ")"
    if t is Unser:
        return "O" + cps(v.clsname())
    if t in (float, bytes):
        return ("A1" if v else "A0") + cps(repr(v))
    # anything else: an opaque leaf named by its type (never equal to a generated value)
    try:
        truth = bool(v)
    except Exception:
        truth = True
    return ("A1" if truth else "A0") + cps("<%s.%s>" % (t.__module__, t.__name__))


def realise(v):
    """the Python value to raise with: Unser placeholders replaced by real objects"""
    t = type(v)
    if t is Unser:
        return v.make()
    if t is list:
        return [realise(x) for x in v]
    if t is tuple:
        return tuple(realise(x) for x in v)
    if t is dict:
        return {k: realise(x) for k, x in v.items()}
    return v


def has_unser(v):
    t = type(v)
    if t is Unser:
        return True
    if t in (list, tuple):
        return any(has_unser(x) for x in v)
    if t is dict:
        return any(has_unser(x) for x in v.values())
    return False


def qual(t):
    return t.__module__ + "." + t.__name__


def enc_exc(q, args, attrs, sort=False):
    return "X(%s;%s;%s)" % (cps(q), enc(list(args), sort), enc(dict(attrs), sort))


def canon_tb(tb):
    if isinstance(tb, list) and tb and all(isinstance(l, str) for l in tb):
        return TB_TOKEN
    return BAD_TB


def enc_caught(x, msg_map=None):
    """canonical form of an exception object caught by the caller"""
    attrs = dict(vars(x))
    parts = []
    for k in sorted(attrs, key=lambda s: [ord(c) for c in s]):
        parts.append(cps(k) + ":" + (canon_tb(attrs[k]) if k == "_pyroTraceback" else enc(attrs[k], True)))
    args = list(x.args)
    if msg_map and len(args) == 1 and isinstance(args[0], str) and args[0] in msg_map:
        args = [msg_map[args[0]]]
    return "X(%s;%s;D(%s))" % (cps(qual(type(x))), enc(args, True), ",".join(parts))


INTERP_ERRORS = ("builtins.AttributeError", "builtins.TypeError", "builtins.ValueError", "builtins.KeyError")


def enc_machinery_error(x):
    """an error raised by Pyro's decoding machinery / the interpreter: interpreter messages are not modelled"""
    q = qual(type(x))
    if not q.startswith("Pyro5.errors.") and q != "builtins.RuntimeError":
        return "X(%s;L(A13f);D())" % cps(q)       # raised by the interpreter / a constructor: message not modelled
    return "X(%s;%s;D())" % (cps(q), enc(list(x.args), True))


# ----------------------------------------------------------------------------------------------
# the server object and the rig
# ----------------------------------------------------------------------------------------------
class Holder:
    exc = None
    before = ()
    runs = 0        # how often the raising remote code ran during the current case


class _Inner(object):
    """what the server object delegates unknown names to"""
    prop = "inner-prop"
    label = "inner-label"


def _target_class(H):
    from Pyro5 import server

    @server.expose
    class Target(object):
        """a delegating wrapper: names it does not define itself are looked up on an inner object"""
        _inner = _Inner()

        def __getattr__(self, name):
            return getattr(self._inner, name)

        def boom(self):
            H.runs += 1
            raise H.exc

        @server.callback
        def boom_cb(self):
            H.runs += 1
            raise H.exc

        @property
        def prop(self):
            H.runs += 1
            raise H.exc

        @prop.setter
        def prop(self, value):
            H.runs += 1
            raise H.exc

        def ok(self, x):
            return x

        def val(self, i):
            return H.before[i]

        def stream(self):
            return _Stream(H)
    return Target


class _Stream:
    """an iterator (not a generator, so that any exception class can leave __next__)"""

    def __init__(self, H):
        self.items = list(H.before)
        self.H = H

    def __iter__(self):
        return self

    def __next__(self):
        if self.items:
            return self.items.pop(0)
        raise self.H.exc


class Rig:
    """a real Daemon on a unix socket served by the real thread-pool server in a background thread"""

    def __init__(self):
        common.repo_on_path()
        from Pyro5 import server, config
        self.config = config
        self.saved = {k: getattr(config, k) for k in ("SERVERTYPE", "COMMTIMEOUT", "MAX_RETRIES", "DETAILED_TRACEBACK",
                                                     "ITER_STREAMING", "THREADPOOL_SIZE", "THREADPOOL_SIZE_MIN", "ITER_STREAM_LIFETIME",
                                                     "ITER_STREAM_LINGER")}
        config.SERVERTYPE = "thread"
        config.COMMTIMEOUT = 0.0
        config.MAX_RETRIES = 0
        config.DETAILED_TRACEBACK = False
        config.ITER_STREAMING = True
        self.saved_stream = (config.ITER_STREAM_LIFETIME, config.ITER_STREAM_LINGER)
        self.dir = tempfile.mkdtemp(prefix="c07-")
        self.H = Holder()
        self.nullh = logging.NullHandler()
        self.logger = logging.getLogger("Pyro5")
        self.logger.addHandler(self.nullh)
        self.old_hook = threading.excepthook
        self.thread_errors = []
        threading.excepthook = lambda a: self.thread_errors.append(a.exc_type.__name__)
        self.daemon = None
        self.generation = 0
        self.killed = 0
        self.proxies = {}
        # the client-side watchdog of every wait on the real code: Pyro waits for a reply for ever by default
        # (COMMTIMEOUT 0); a server that neither answers nor closes the connection must become an observation
        self.timeout = float(os.environ.get("C07_TIMEOUT", "10"))
        self._start()

    def _start(self):
        from Pyro5 import server
        self.generation += 1
        self.daemon = server.Daemon(unixsocket=os.path.join(self.dir, "s%d" % self.generation))
        self.uri = self.daemon.register(_target_class(self.H)(), "c07")
        self.thread = threading.Thread(target=self.daemon.requestLoop, daemon=True)
        self.thread.start()
        self.killed = 0
        self.proxies = {}

    def restart(self):
        self._stop()
        self._start()

    def note_worker_killed(self):
        """a BaseException ended a pool worker without notify_done: the slot stays 'busy'; renew the daemon in time"""
        self.killed += 1
        if self.killed >= self.config.THREADPOOL_SIZE // 2:
            self.restart()

    def note_no_reply(self):
        """a call ended by the watchdog: the server worker of that connection may still be waiting; later waits are shorter"""
        self.timeout = min(self.timeout, float(os.environ.get("C07_TIMEOUT_AFTER", "3")))
        for p in self.proxies.values():
            try:
                p._pyroTimeout = self.timeout
            except Exception:
                pass

    def proxy(self, ser):
        from Pyro5 import client
        p = self.proxies.get(ser)
        if p is None:
            p = client.Proxy(self.uri)
            p._pyroSerializer = ser
            p._pyroTimeout = self.timeout
            self.proxies[ser] = p
        return p

    def _stop(self):
        for p in self.proxies.values():
            try:
                p._pyroRelease()
            except Exception:
                pass
        self.proxies = {}
        try:
            self.daemon.shutdown()
            self.thread.join(10)
            self.daemon.close()
        except Exception:
            pass

    def close(self):
        self._stop()
        threading.excepthook = self.old_hook
        self.logger.removeHandler(self.nullh)
        for k, v in self.saved.items():
            setattr(self.config, k, v)
        shutil.rmtree(self.dir, ignore_errors=True)
