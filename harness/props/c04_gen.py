"""C04 payload generator: structure-aware trees with class-tagged dicts at any depth, and their codec-level encodings.

`hostile` marks trees that use features whose effect is decided inside CPython constructors / descriptors (attribute names that
collide with slots, OSError argument rewriting, iteration order of sets, …): they go through the property oracle only, not through
the model comparison."""
import json
import marshal
import struct

LOOP_URI = "PYRO:obj@127.0.0.1:1"
UNIX_URI = "PYRO:o@./u:/tmp/c04-no-such-socket"

FIXED = ["Pyro5.core.URI", "Pyro5.client.Proxy", "Pyro5.server.Daemon", "Pyro5.util.SerpentSerializer",
         "Pyro5.util.MarshalSerializer", "Pyro5.util.JsonSerializer", "Pyro5.util.MsgpackSerializer", "struct.error",
         "Pyro5.core._ExceptionWrapper"]
FOREIGN = ["os.system", "subprocess.Popen", "os.popen", "posix.system", "Pyro5.server.Daemon.x", "Pyro5.core.URI ", "pyro5.core.uri",
           "Pyro5.nameserver.NameServer", "Pyro5.client._RemoteMethod", "Pyro5.client.BatchProxy", "Pyro5.callcontext.current_context",
           "Pyro5.core.resolve", "Pyro5.socketutil.create_socket", "tests.support.Thing", "support.MyThingFullExposed", "Evil",
           "float", "int", "decimal.Decimal", "uuid.UUID", "datetime.datetime", "struct.Struct", "struct.error.x", "struct.pack",
           "sqlite3", "builtins", "Pyro5.errors", "Pyro5.util.", "Pyro5.util.Foo", "Pyro5.util.SerializerBase", "Pyro5.errors.",
           "Pyro5.errors.Nope", "Pyro5.errors.config.SERIALIZER", "Pyro5.errors.NamingError.x", "Pyro5.core._ExceptionWrapper.raiseIt",
           "collections.OrderedDict", "set", "", ".", "..", "a.b.c.d", "builtins.", "sqlite3.", "exceptions.", "<unknown>",
           "socket.socket", "io.open", "builtins.os.system", "exceptions.os.system", "sqlite3.dbapi2.Error", "sqlite3.connect",
           "sqlite3.Connection", "sqlite3.Warning", "sqlite3.NopeError", "sqlite3.enable_callback_tracebacksError"]
DUNDER = ["__main__.Thing", "builtins.__import__", "a__b", "__", "___", "Pyro5.core.URI.__init__", "ValueError.__class__",
          "Pyro5.errors.__builtins__", "my.__special__.Thing", "builtins.__build_class__", "__class__", "Pyro5.core.__dict__",
          "sqlite3.__Error", "Pyro5.errors.__name__", "exceptions.__loader__", "_ _", "_a_"]
NON_EXC_BUILTINS = ["int", "eval", "open", "exec", "compile", "type", "object", "print", "input", "getattr", "breakpoint", "help",
                    "exit", "copyright", "memoryview", "Ellipsis", "NotImplemented", "None", "True", "Nope", ""]
REGISTERED = ["test.Thing", "my.__special__.Thing", "ValueError", "Pyro5.core.URI", "os.system"]
SAFE_ATTRS = ["x_note", "custom", "_pyroTraceback", "detail1", "Zz"]
HOSTILE_ATTRS = ["__class__", "__dict__", "args", "__cause__", "__context__", "__traceback__", "with_traceback", "__setstate__",
                 "__reduce__", "__init__", "name", "errno", "msg", "code", "value", "filename", "__suppress_context__", "__notes__",
                 "add_note", "characters_written", "start", "end", "reason", "object", "encoding", "__doc__", "__module__"]


class Gen:
    def __init__(self, R, rng):
        self.R = R
        self.rng = rng
        self.err_names = sorted(n for n in vars(R.errors) if "__" not in n)
        self.bi_names = sorted(n for n in vars(R.builtins) if "__" not in n)
        self.bi_exc = sorted(n for n, t in vars(R.builtins).items() if isinstance(t, type) and issubclass(t, BaseException))
        self.sq_names = sorted(n for n in vars(R.sqlite3) if "__" not in n)
        self.sq_err = sorted(n for n in vars(R.sqlite3) if n.endswith("Error"))
        self.allexc = sorted(R.serializers.all_exceptions)
        self.hostile = False
        self.reg = []

    # ------------------------------------------------------------------ leaves / containers
    def leaf(self):
        r = self.rng
        k = r.random()
        if k < 0.30:
            return r.choice([0, 1, -5, 42, 2 ** 40, 2 ** 70, True, False, None])
        if k < 0.55:
            return r.choice(["", "abc", "x", "\u00fc\u4e2d", "__class__", "ValueError", "a b", "state", "PYRO:o@h:1"])
        if k < 0.65:
            return r.choice([1.5, 0.0, float("inf"), float("nan"), -2.25])
        if k < 0.75:
            return r.choice([b"", b"bytes", b"\xff\x00", bytes(r.randrange(256) for _ in range(r.randrange(1, 6)))])
        if k < 0.82:
            return r.choice([1 + 2j, 0j])
        if k < 0.88:
            return r.choice([frozenset(), frozenset([1, "a"])])
        if k < 0.95:
            return self.ext_leaf()
        return r.choice([(), [], {}, (1, "t")])

    def ext_leaf(self):
        r = self.rng
        ET = self.R.msgpack.ExtType
        k = r.random()
        if k < 0.2:
            return ET(0x30, struct.pack("dd", 1.5, -2.0))
        if k < 0.4:
            return ET(0x31, str(r.choice([0, 7, 2 ** 70, -3])).encode())
        if k < 0.5:
            return ET(0x32, struct.pack("d", 86400.0 * r.randrange(1, 20000)))
        if k < 0.6:
            return ET(0x33, struct.pack("l", r.randrange(1, 800000)))
        if k < 0.8:
            return ET(r.choice([0x30, 0x31, 0x32, 0x33]), r.choice([b"", b"x", b"12x", b"\x00" * 7, b"\xff" * 8, b"9" * 20]))
        return ET(r.choice([0, 5, 0x2f, 0x34, 127]), r.choice([b"", b"abc"]))

    def hashable_leaf(self):
        r = self.rng
        return r.choice([0, 1, "a", "b", "__class__", None, True, 2.5, b"k", (1, "t"), ("__class__",), frozenset([1])])

    def node(self, depth):
        r = self.rng
        k = r.random()
        if k < 0.34:
            return self.class_dict(depth + 1)
        if k < 0.60 and depth < 4:
            return self.container(depth + 1)
        return self.leaf()

    def container(self, depth):
        r = self.rng
        n = r.choice([0, 1, 1, 2, 2, 3, 4])
        k = r.random()
        if k < 0.35:
            return [self.node(depth) for _ in range(n)]
        if k < 0.50:
            return tuple(self.node(depth) for _ in range(n))
        if k < 0.58:
            return {self.hashable_leaf() for _ in range(n)}
        d = {}
        for _ in range(n):
            key = r.choice(["a", "b", "k", "state", "args", "x", "class", "__exception__", "_class_"]) if r.random() < 0.85 else self.hashable_leaf()
            d[key] = self.node(depth)
        return d

    # ------------------------------------------------------------------ tags
    def mutate(self, s):
        r = self.rng
        if not s:
            return "x"
        i = r.randrange(len(s))
        k = r.random()
        if k < 0.25:
            return s[:i] + s[i + 1:]
        if k < 0.5:
            return s[:i] + r.choice("._Xa ") + s[i:]
        if k < 0.7:
            return s[:i] + s[i].swapcase() + s[i + 1:]
        if k < 0.85:
            return s + r.choice([".x", ".", "_", "Error", " "])
        return r.choice(["x.", ".", "builtins.", "exceptions.", "sqlite3.", "Pyro5.errors.", "Pyro5.util."]) + s

    def tag(self):
        """(tag value, intent)"""
        r = self.rng
        k = r.random()
        if k < 0.20:
            t = r.choice(FIXED)
            intent = t
        elif k < 0.30:
            t = "Pyro5.errors." + r.choice(self.err_names + ["Nope", ""])
            intent = "exc"
        elif k < 0.42:
            t = r.choice(self.allexc) if r.random() < 0.8 else r.choice(NON_EXC_BUILTINS)
            intent = "exc"
        elif k < 0.56:
            ns = r.choice(["builtins.", "builtins.", "exceptions."])
            t = ns + (r.choice(self.bi_exc) if r.random() < 0.65 else r.choice(self.bi_names + NON_EXC_BUILTINS + ["os.system"]))
            intent = "exc"
        elif k < 0.64:
            t = "sqlite3." + (r.choice(self.sq_err) if r.random() < 0.6 else r.choice(self.sq_names + ["NopeError", "dbapi2.Error"]))
            intent = "exc"
        elif k < 0.76:
            t = r.choice(FOREIGN)
            intent = r.choice(["exc", "Pyro5.core.URI", "none"])
        elif k < 0.86:
            t = r.choice(DUNDER)
            intent = r.choice(["exc", "Pyro5.core.URI", "none"])
        elif k < 0.92:
            t = r.choice(REGISTERED)
            if r.random() < 0.75 and t not in self.reg:
                self.reg.append(t)
            intent = r.choice(["exc", "Pyro5.core.URI", "none"])
        elif k < 0.95:
            t = "float"
            intent = "float"
        else:
            t = r.choice([None, 5, 1.5, True, ["a"], {"a": 1}, ("a", "b"), ("__",), b"\xff\xfe", b"\xc3", b"\xed\xa0\x80", b"\xc0\xaf"])
            intent = r.choice(["exc", "none"])
            return t, intent
        if r.random() < 0.08:
            t = self.mutate(t)
        if r.random() < 0.10:
            t = t.encode("utf-8")
        return t, intent

    # ------------------------------------------------------------------ members
    def good_proxy_dict(self):
        """a well-formed Proxy class dict; the remote member lists name what Pyro's own code might touch on an instance it
        re-created (iteration, indexing, .items(), exception attributes), so that any such touch becomes a remote call"""
        r = self.rng
        touch = ["__iter__", "items", "__len__", "__getitem__", "_pyroTraceback", "args", "exception", "raiseIt", "__traceback__",
                 "with_traceback", "__cause__", "state", "keys", "get", "decode", "startswith", "split"]
        k = r.random()
        if k < 0.4:
            methods, attrs = [], []
        elif k < 0.7:
            methods, attrs = r.sample(touch, r.randrange(1, 6)), []
        else:
            methods, attrs = r.sample(touch, r.randrange(0, 4)), r.sample(touch, r.randrange(1, 6))
        state = [r.choice([LOOP_URI, UNIX_URI]), [], methods, attrs, "hello", None]
        if r.random() < 0.2:        # members beyond the six that __setstate__ reads
            state += r.choice([["x"], [None], [1, 2], [["m"], {"k": 1}], [{"__class__": "os.system"}]])
        return {"__class__": "Pyro5.client.Proxy", "state": state}

    def good_instance_dict(self, depth=0):
        """a well-formed class dict of the closed set (to be placed where another class dict consumes it); its own members may
        again be well-formed class dicts, so that every allowed class shows up as a member of every other one, at any depth"""
        r = self.rng
        k = r.random()
        inner = (lambda: self.good_instance_dict(depth + 1)) if depth < 3 else self.good_proxy_dict
        if k < 0.40:
            return self.good_proxy_dict()
        if k < 0.50:
            return {"__class__": "Pyro5.core.URI", "state": ["PYRO", "obj", None, "127.0.0.1", 1]}
        if k < 0.68:
            d = {"__class__": r.choice(["ValueError", "builtins.KeyError", "Pyro5.errors.NamingError", "sqlite3.Error", "struct.error"]),
                 "__exception__": True, "args": ["inner"]}
            if r.random() < 0.3:
                d["args"] = r.choice([[inner()], inner()])
            if r.random() < 0.3:
                d["attributes"] = {"_pyroTraceback": r.choice([["tb"], inner()])}
            return d
        if k < 0.92:
            ex = r.choice([{"__class__": "ZeroDivisionError", "__exception__": True, "args": []}, inner(), inner(), self.good_proxy_dict()])
            return {"__class__": "Pyro5.core._ExceptionWrapper", "exception": ex}
        return {"__class__": r.choice(["Pyro5.server.Daemon", "Pyro5.util.JsonSerializer"]), "state": []}

    def bulk_list(self, depth):
        """a long list around the 1024 mark whose two ends are numbers, with class dicts (acceptable and not) in between"""
        r = self.rng
        n = r.choice([1023, 1024, 1024, 1025, 1500, 2048, 4096])
        num = lambda: r.choice([0, 1, -3, 2.5, 0.0, 7])
        xs = [num() for _ in range(n)]
        if r.random() < 0.15:
            xs[0] = r.choice(["s", None, True])
        if r.random() < 0.15:
            xs[-1] = r.choice(["s", None, True])
        for _ in range(r.choice([1, 1, 2, 3])):
            i = r.choice([1, n // 2, n - 2, r.randrange(1, n - 1)])
            k = r.random()
            if k < 0.45:
                xs[i] = r.choice([{"__class__": "subprocess.Popen", "args": ["/bin/true"]},
                                  {"__class__": "os.system", "__exception__": True, "args": ["true"], "attributes": {}},
                                  {"__class__": "builtins.__import__", "__exception__": True, "args": ["os"]},
                                  {"__class__": "Pyro5.server.DaemonObject", "state": []}])
            elif k < 0.65:
                xs[i] = self.class_dict(depth + 1)
            elif k < 0.85:
                xs[i] = self.good_instance_dict()
            else:
                xs[i] = r.choice([[self.class_dict(depth + 1)], {"k": self.class_dict(depth + 1)}, (1, self.good_instance_dict())])
        return xs

    def args_value(self, depth):
        r = self.rng
        k = r.random()
        if k < 0.55:
            return r.choice([[], ["msg"], ["msg", 5], [None], [[1, 2]], [{"k": "v"}], ("a",), ["m", None]])
        if k < 0.63:
            return r.choice(["ab", "", {"a": 1}, {}, ()])
        if k < 0.71:
            return r.choice([None, 5, 1.5, True])
        if k < 0.77:
            return [self.class_dict(depth + 1)] if r.random() < 0.6 else self.class_dict(depth + 1)
        if k < 0.84:
            g = self.good_instance_dict()
            return r.choice([g, [g], ["msg", g], ["msg", [g]]])
        if k < 0.88:
            return [self.container(depth + 1)]
        self.hostile = True
        return r.choice([["a", "b", "c"], [2, "No such file"], [2, "x", "f"], [17, "x", "f", 0, "g"], list(range(40)), frozenset([1]),
                         b"abc", {"s", "t"}, "abc", [1, 2, 3, 4, 5], ["msg", ("f", 1, 1, "t")], ["a", b"x", 0, 1, "r"],
                         ["m", ["x"]], [b"x"]])

    def attributes_value(self, depth):
        r = self.rng
        k = r.random()
        if k < 0.62:
            d = {}
            for _ in range(r.choice([0, 1, 1, 2, 3])):
                d[r.choice(SAFE_ATTRS)] = self.node(depth + 1) if r.random() < 0.5 else r.choice(["v", 5, None, ["l1", "l2"]])
            return d
        if k < 0.74:
            return r.choice([[1], None, "s", 5, [], ("a",), True])
        if k < 0.78:
            return self.class_dict(depth + 1)
        if k < 0.84:
            g = self.good_instance_dict()
            return r.choice([g, {"x_note": g}, {"custom": [g]}])
        self.hostile = True
        d = {}
        for _ in range(r.choice([1, 1, 2, 3])):
            key = r.choice(HOSTILE_ATTRS) if r.random() < 0.8 else r.choice([5, b"k", (1, 2), None])
            d[key] = r.choice([None, "v", 5, {"a": 1}, ["x"], True]) if r.random() < 0.7 else self.node(depth + 1)
        return d

    def uri_state(self, depth):
        r = self.rng
        k = r.random()
        if k < 0.45:
            return r.choice([["PYRO", "obj", None, "127.0.0.1", 1], ["PYRONAME", "n", None, None, None], ("PYRO", "o", "sock", None, None),
                             [1, 2, 3, 4, 5]])
        if k < 0.53:
            return [self.node(depth + 1) for _ in range(5)]
        if k < 0.60:
            g = self.good_instance_dict()
            return r.choice([g, ["PYRO", g, None, "h", 1]])
        if k < 0.90:
            return r.choice([[1, 2, 3, 4], [1, 2, 3, 4, 5, 6], "abcde", "abcd", {"a": 1, "b": 2, "c": 3, "d": 4, "e": 5}, None, 7, [], (), "",
                             {}, True, 2.5])
        self.hostile = True
        return r.choice([{1, 2, 3, 4, 5}, b"abcde", frozenset([1, 2, 3, 4, 5]), {1: 1, 2: 2, 3: 3, 4: 4, 5: 5}])

    def proxy_state(self, depth):
        r = self.rng
        k = r.random()
        if k < 0.40:
            return r.choice([[LOOP_URI, ["ow"], ["m1", "m2"], ["a1"], "hello", None],
                             [LOOP_URI, [], [], [], {"h": 1}, "json"],
                             (UNIX_URI, (), (), (), None, "serpent"),
                             [LOOP_URI, "ab", "", ("x",), [1, 2], 5]])
        if k < 0.48:
            good = [LOOP_URI, ["ow"], ["m"], ["a"], "hello", None]
            return good[:r.randrange(0, 6)]
        if k < 0.55:                # longer than the six members __setstate__ reads (empty and non-empty member lists)
            good = r.choice([[LOOP_URI, [], [], [], "hello", None], [LOOP_URI, ["ow"], ["m"], ["a"], "hello", None]])
            extra = [r.choice(["x", None, 7, ["l"], {"k": "v"}, True]) for _ in range(r.choice([1, 1, 2, 5]))]
            return r.choice([good + extra, tuple(good + extra)])
        if k < 0.75:
            st = [LOOP_URI, [], ["m"], [], "hello", None]
            i = r.randrange(0, 4)
            if i == 0:
                st[0] = r.choice(["nope", 5, None, "PYRO:", ["x"], "", "PYRO:o@h:notaport", {"a": 1}])
            else:
                st[i] = r.choice([[[1]], [{}], 5, None, True, [["a"], "b"]])
            return st
        if k < 0.85:
            st = [LOOP_URI, [], [], [], "hello", None]
            st[r.randrange(0, 6)] = self.class_dict(depth + 1) if r.random() < 0.4 else self.good_instance_dict()
            return st if r.random() < 0.9 else self.good_instance_dict()
        if k < 0.95:
            return r.choice([LOOP_URI, "", {"0": LOOP_URI}, {}, None, 5, True, 2.5])
        self.hostile = True
        return r.choice([{0: LOOP_URI, 1: [], 2: [], 3: [], 4: "h", 5: None}, b"abcdef", {1, 2}, frozenset([1])])

    def daemon_state(self):
        r = self.rng
        k = r.random()
        if k < 0.08:
            return self.good_instance_dict()
        if k < 0.9:
            return r.choice([[], (), "", {}, [1], "x", {"a": 1}, None, 5, b"", b"x", (1, 2), True])
        self.hostile = True
        return r.choice([frozenset(), set(), frozenset([1])])

    def flag_value(self):
        return self.rng.choice([True, True, True, 1, "yes", [0], False, 0, "", None, [], {}, 1.5, 0.0])

    # ------------------------------------------------------------------ class dicts
    def class_dict(self, depth):
        r = self.rng
        t, intent = self.tag()
        d = {"__class__": t}
        junk_first = r.random() < 0.1
        if junk_first:
            d = {"zz": 1, "__class__": t}
        if intent == "Pyro5.core.URI":
            if r.random() < 0.92:
                d["state"] = self.uri_state(depth)
        elif intent == "Pyro5.client.Proxy":
            if r.random() < 0.92:
                d["state"] = self.proxy_state(depth)
        elif intent == "Pyro5.server.Daemon":
            if r.random() < 0.92:
                d["state"] = self.daemon_state()
        elif intent == "Pyro5.core._ExceptionWrapper":
            k = r.random()
            if k < 0.30:
                d["exception"] = self.good_instance_dict()
            elif k < 0.70 and depth < 6:
                d["exception"] = self.class_dict(depth + 1)
            elif k < 0.92:
                d["exception"] = self.node(depth + 1) if depth < 5 else self.leaf()
        elif intent == "float":
            if r.random() < 0.9:
                d["value"] = r.choice(["nan", "inf", "-inf", "1.5", 3, 2.5, True, "x", None, [1], {}, "", self.good_instance_dict()])
            if r.random() < 0.3:
                d["__exception__"] = self.flag_value()
        elif intent in ("exc", "struct.error") or intent.startswith("Pyro5.util."):
            if r.random() < (0.88 if intent == "exc" else 0.5):
                d["__exception__"] = self.flag_value() if r.random() < 0.35 else True
            if r.random() < 0.93:
                d["args"] = self.args_value(depth)
            if r.random() < 0.5:
                d["attributes"] = self.attributes_value(depth)
        if r.random() < 0.12:
            extra = r.choice(["state", "args", "attributes", "exception", "__exception__", "value", "junk"])
            if extra not in d:
                d[extra] = r.choice([[], None, True, "abcde", {"x": 1}, [1, 2, 3, 4, 5]])
        return d

    # ------------------------------------------------------------------ whole payloads
    def payload(self):
        self.hostile = False
        self.reg = []
        r = self.rng
        k = r.random()
        if k < 0.40:
            tree = self.class_dict(0)
        elif k < 0.915:
            tree = self.container(0)
        elif k < 0.93:
            b = self.bulk_list(0)
            tree = r.choice([b, b, {"data": b}, [b, 1], ("x", b), {"__class__": "ValueError", "__exception__": True, "args": [b]}])
        else:
            tree = self.leaf()
        if r.random() < 0.04 and not self.reg:
            self.reg = [r.choice(REGISTERED)]     # a converter is registered but (perhaps) not used
        return tree, {"reg": list(self.reg), "hostile": self.hostile}

    def call_shape(self, ser, tree):
        r = self.rng
        k = r.random()
        other = {"k": tree} if r.random() < 0.5 else {}
        if ser == "json":
            if k < 0.85:
                return {"object": "obj", "method": "m", "params": [tree, 1], "kwargs": other}
            return r.choice([{"object": "o", "method": "m", "params": tree}, {"params": [tree], "kwargs": {}},
                             {"params": [tree], "kwargs": {}, "object": "o"}, [tree], tree, "abcd", None, 5,
                             {"object": "o", "method": "m", "params": tree, "kwargs": tree}])
        if k < 0.85:
            p = ("obj", "m", [tree, 1], other)
            return p if r.random() < 0.5 else list(p)
        return r.choice([("o", "m", [tree]), ("o", "m", [tree], {}, 1), [tree], tree, "abcd", "abc", None, 5, (),
                         {"a": 1, "b": 2, "c": tree, "d": 4}, ("o", "m", tree, tree)])


# ----------------------------------------------------------------------------------------------------
# codec-level encoders (NOT Pyro's dumps: the payload is hostile, it need not be something Pyro would ever produce)
# ----------------------------------------------------------------------------------------------------
def _prim(x, br):
    """serpent accepts only primitive hashables as dict keys / set members"""
    if type(x) not in (str, int, float, bool, complex, bytes):
        return str(x)
    if type(x) is bytes and not br:
        return x.decode("latin-1")
    return x


def _adapt(R, ser, v, br=True):
    ET = R.msgpack.ExtType
    t = type(v)
    if t is ET:
        return v if ser == "msgpack" else None
    if t is list:
        return [_adapt(R, ser, x, br) for x in v]
    if t is tuple:
        xs = [_adapt(R, ser, x, br) for x in v]
        return xs if ser in ("json", "msgpack") else tuple(xs)
    if t is set or t is frozenset:
        xs = [_adapt(R, ser, x, br) for x in v]
        if ser in ("json", "msgpack"):
            return xs
        if ser == "serpent":
            xs = [_prim(x, br) for x in xs]
            return set(xs) if t is set else tuple(xs)
        return t(xs)
    if t is dict:
        out = {}
        for k, x in v.items():
            kk = k
            if ser == "json":
                if type(k) is bytes:
                    kk = k.decode("latin-1")
                elif type(k) is not str:
                    kk = str(k)
            elif ser == "msgpack":
                if type(k) not in (str, bytes):
                    kk = str(k)
            elif ser == "serpent":
                kk = _prim(k, br)
            out[kk] = _adapt(R, ser, x, br)
        return out
    if t is bytes:
        return v.decode("latin-1") if ser == "json" else v
    if t is complex:
        if ser == "json":
            return str(v)
        if ser == "msgpack":
            return ET(0x30, struct.pack("dd", v.real, v.imag))
        return v
    if t is int and ser == "msgpack" and not (-2 ** 63 <= v < 2 ** 64):
        return ET(0x31, str(v).encode())
    return v


def _escape_strings(text, rng, mode, json_style):
    """the same document with characters inside its string literals written as escapes (\\uXXXX in JSON, \\xNN in a Python
    literal): an equivalent encoding that no dumps() produces.  mode: "us" = underscores only, "some" = one in five, "all"."""
    out = []
    i, n = 0, len(text)
    quote = None
    while i < n:
        c = text[i]
        if quote is None:
            out.append(c)
            if c == '"' or (c == "'" and not json_style):
                quote = c
            i += 1
            continue
        if c == "\\":
            nxt = text[i + 1] if i + 1 < n else ""
            k = {"x": 4, "u": 6, "U": 10}.get(nxt, 2)
            if json_style and nxt != "u":
                k = 2
            out.append(text[i:i + k])
            i += k
            continue
        if c == quote:
            quote = None
            out.append(c)
            i += 1
            continue
        ok = (ord(c) < 0x10000 and ord(c) >= 0x20) if json_style else (c.isascii() and (c.isalnum() or c in "_.:@ "))
        pick = ok and (c == "_" if mode == "us" else (rng.random() < 0.2 if mode == "some" else True))
        out.append((("\\u%04x" if json_style else "\\x%02x") % ord(c)) if pick else c)
        i += 1
    return "".join(out)


def alt_encoding(R, ser, data, rng):
    """an equivalent encoding of the same document that the codec accepts but its dumps never emits"""
    mode = rng.choice(["us", "us", "some", "all"])
    if ser == "json":
        return _escape_strings(data.decode("utf-8"), rng, mode, True).encode("utf-8")
    if ser == "serpent":
        return _escape_strings(data.decode("utf-8"), rng, mode, False).encode("utf-8")
    if ser == "msgpack":
        # non-minimal string headers (str8 / str16 / str32 instead of fixstr) for the member names the decoder looks for
        for key in (b"__class__", b"__exception__", b"state", b"args"):
            hdr = rng.choice([b"\xd9" + bytes([len(key)]), b"\xda" + len(key).to_bytes(2, "big"), b"\xdb" + len(key).to_bytes(4, "big")])
            data = data.replace(bytes([0xa0 + len(key)]) + key, hdr + key)
        return data
    return data


def encode(R, ser, payload, rng=None):
    br = (rng.random() < 0.7) if rng else True
    p = _adapt(R, ser, payload, br)
    if ser == "serpent":
        data = R.serpent.dumps(p, bytes_repr=br)
    elif ser == "json":
        data = json.dumps(p, ensure_ascii=False).encode("utf-8")
    elif ser == "marshal":
        data = marshal.dumps(p)
    else:
        data = R.msgpack.packb(p, use_bin_type=True)
    if rng is not None and ser != "marshal" and rng.random() < 0.12:
        data = alt_encoding(R, ser, data, rng)
    return data
