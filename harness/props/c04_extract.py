"""C04 extractor: name tables of builtins / Pyro5.errors / sqlite3 / struct and a table of PROBES of the real decoders -> Lean.

Nothing here reads the source text of Pyro5/serializers.py: the behaviour of dict_to_class / make_exception / recreate_classes /
ext_hook / loads / loadsCall is recorded by calling the public entry points on fixed inputs (refactorings that keep the behaviour keep
the generated file byte-identical)."""
import json
import os

import common


def _lstr(s):
    """Lean String literal"""
    return json.dumps(s, ensure_ascii=True)


def _chars(s):
    """Lean `List Char` term, spelled out (kernel-friendly: `decide +kernel` never has to decode a String literal)"""
    out = []
    for c in s:
        if not (32 <= ord(c) < 127):
            raise RuntimeError("non-ASCII name %r" % s)
        out.append("'\\''" if c == "'" else ("'\\\\'" if c == "\\" else "'%s'" % c))
    if len(out) > 400:      # a literal that long is too deep for the elaborator: concatenate chunks
        return "(" + " ++ ".join("[" + ",".join(out[i:i + 200]) + "]" for i in range(0, len(out), 200)) + ")"
    return "[" + ",".join(out) + "]"


def _kinds(mod, base):
    rows = []
    for name, t in sorted(vars(mod).items()):
        if not isinstance(name, str) or any(ord(c) < 32 or ord(c) > 126 for c in name):
            raise RuntimeError("unexpected attribute name %r in %s" % (name, mod.__name__))
        if isinstance(t, type):
            if issubclass(t, base):
                rows.append((name, ".exc " + _chars(t.__module__ + "." + t.__qualname__)))
            else:
                rows.append((name, ".cls"))
        else:
            rows.append((name, ".other"))
    return rows


def _table(name, doc, rows):
    body = ",\n  ".join("(%s, %s)" % (_chars(n), k) for n, k in rows)
    return "/-- %s -/\ndef %s : List (List Char × Kind) := [\n  %s]\n" % (doc, name, body)


def _lit(R, v, label):
    """python literal tree -> Lean `Lit` term (mirrors `tokens` in c04.py)"""
    t = type(v)
    if t is str:
        return "(.str %s)" % _chars(v)
    if t is bytes or t is bytearray:
        return "(.bytes [%s])" % ",".join(str(b) for b in bytes(v))
    if t is list or t is tuple:
        terms = [_lit(R, x, label) for x in v]
        if len(terms) < 64:
            return "(.%s [%s])" % ("list" if t is list else "tuple", ", ".join(terms))
        # long lists: runs of equal elements as List.replicate (a literal of > 1000 elements is too deep for the elaborator)
        parts, i = [], 0
        while i < len(terms):
            j = i
            while j < len(terms) and terms[j] == terms[i]:
                j += 1
            parts.append("List.replicate %d %s" % (j - i, terms[i]) if j - i >= 8 else "[%s]" % ", ".join(terms[i:j]))
            i = j
        return "(.%s (%s))" % ("list" if t is list else "tuple", " ++ ".join(parts))
    if t is set:
        from props import c04
        return "(.set [%s])" % ", ".join(_lit(R, x, label) for x in sorted(v, key=lambda e: c04.canon(R, e)))
    if t is dict:
        vals = ", ".join(_lit(R, x, label) for x in v.values())
        if all(type(k) is str for k in v):
            return "(.dictS [%s] [%s])" % (", ".join(_chars(k) for k in v), vals)
        keys = ", ".join("(true, %s)" % _chars(k) if type(k) is str else "(false, %s)" % _chars(label(k)) for k in v)
        return "(.dictK [%s] [%s])" % (keys, vals)
    if t is R.msgpack.ExtType:
        from props import c04
        try:
            conv = c04._own_ext(v.code, v.data)
            return "(.ext %d %s %s %s)" % (v.code, _lstr(label(v)), _lstr(label(conv)), "true" if conv else "false")
        except Exception:
            return "(.ext %d %s %s false)" % (v.code, _lstr(label(v)), _lstr("none"))
    import datetime
    if t in (type(None), bool, int, float, complex, datetime.datetime, datetime.date, R.msgpack.Timestamp):
        return "(.atom %s %s)" % ("true" if v else "false", _lstr(label(v)))
    return "(.blob %s %s)" % ("true" if v else "false", _lstr(label(v)))


def _probe_table(R):
    """(name, serializer, op, registry, payload): the fixed inputs on which the real decoder is observed.  One well-formed class
    dict per recognised tag, the refusing branches (unknown / dunder / unflagged / non-class / non-text tags), every member
    missing or ill-typed, the registry, wrappers, containers of every kind, the call shapes of every serializer, msgpack
    extension values on both paths, and class dicts nested in class dicts (top-down decoding)."""
    ET = R.msgpack.ExtType
    P = []

    def add(name, payload, ser="json", op="loads", reg=()):
        P.append((name, ser, op, list(reg), payload))

    def exc(tag, **kw):
        d = {"__class__": tag, "__exception__": True, "args": ["m", 5]}
        d.update(kw)
        return d
    uri = {"__class__": "Pyro5.core.URI", "state": ["PYRO", "o", None, "h", 1]}
    proxy = {"__class__": "Pyro5.client.Proxy", "state": ["PYRO:o@127.0.0.1:1", ["ow"], ["m"], ["a"], "hello", None]}
    # --- the hard-coded tags, well-formed ------------------------------------------------------
    add("uri", uri)
    add("proxy", proxy)
    add("daemon", {"__class__": "Pyro5.server.Daemon", "state": []})
    for n in ("Serpent", "Marshal", "Json", "Msgpack"):
        add("util-" + n, {"__class__": "Pyro5.util.%sSerializer" % n})
    add("struct-error", {"__class__": "struct.error", "args": ["bad"], "attributes": {"x_note": 1}})
    add("struct-error-flag-irrelevant", {"__class__": "struct.error", "__exception__": False, "args": []})
    add("wrapper-exc", {"__class__": "Pyro5.core._ExceptionWrapper", "exception": exc("ZeroDivisionError")})
    add("wrapper-plain", {"__class__": "Pyro5.core._ExceptionWrapper", "exception": [1, {"a": uri}]})
    add("wrapper-untagged-dict", {"__class__": "Pyro5.core._ExceptionWrapper", "exception": {"a": 1}})
    add("wrapper-wrapper-proxy", {"__class__": "Pyro5.core._ExceptionWrapper",
                                  "exception": {"__class__": "Pyro5.core._ExceptionWrapper", "exception": proxy}})
    add("wrapper-hostile", {"__class__": "Pyro5.core._ExceptionWrapper", "exception": {"__class__": "os.system"}})
    add("wrapper-dunder", {"__class__": "Pyro5.core._ExceptionWrapper", "exception": exc("a.__b")})
    add("wrapper-missing", {"__class__": "Pyro5.core._ExceptionWrapper"})
    add("wrapper-serpent-float-inside", {"__class__": "Pyro5.core._ExceptionWrapper", "exception": {"__class__": "float", "value": "1"}},
        ser="serpent")
    # --- members missing / ill-typed -------------------------------------------------------------
    for n, st in (("missing", None), ("short", [1, 2, 3, 4]), ("long", [1, 2, 3, 4, 5, 6]), ("str5", "abcde"), ("none", 0),
                  ("dict5", {"a": 1, "b": 2, "c": 3, "d": 4, "e": 5})):
        d = {"__class__": "Pyro5.core.URI"}
        if n != "missing":
            d["state"] = st
        add("uri-state-" + n, d)
    for n, st in (("missing", None), ("short", ["PYRO:o@h:1", [], []]), ("empty", []), ("baduri", ["nope", [], [], [], "h", None]),
                  ("unhashable", ["PYRO:o@h:1", [[1]], [], [], "h", None]), ("int", 5), ("strstate", "PYRO:o@h:1"),
                  ("nested-uri-dict", [uri, [], [], [], "h", None]), ("nested-proxy-in-set", ["PYRO:o@h:1", proxy, [], [], "h", None])):
        d = {"__class__": "Pyro5.client.Proxy"}
        if n != "missing":
            d["state"] = st
        add("proxy-state-" + n, d)
    for n, st in (("missing", None), ("nonempty", [1]), ("str", ""), ("dict", {}), ("int", 3), ("strx", "x")):
        d = {"__class__": "Pyro5.server.Daemon"}
        if n != "missing":
            d["state"] = st
        add("daemon-state-" + n, d)
    add("exc-args-missing", {"__class__": "ValueError", "__exception__": True})
    add("exc-args-int", exc("ValueError", args=5))
    add("exc-args-str", exc("ValueError", args="ab"))
    add("exc-args-dict", exc("ValueError", args={"k": 1}))
    add("exc-args-classdict", exc("ValueError", args=[proxy, uri]))
    add("exc-attrs", exc("KeyError", attributes={"x_note": [1], "_pyroTraceback": ["l1"], "custom": uri}))
    add("exc-attrs-list", exc("KeyError", attributes=[1]))
    add("exc-attrs-none", exc("KeyError", attributes=None))
    add("exc-attrs-empty", exc("KeyError", attributes={}))
    add("exc-ctor-fails", exc("UnicodeDecodeError"))
    add("exc-setattr-fails", exc("ValueError", attributes={"__class__": "str"}))
    # --- Pyro5.errors.* ------------------------------------------------------------------------------
    for n in sorted(k for k in vars(R.errors) if "__" not in k):
        add("errors-" + n, {"__class__": "Pyro5.errors." + n, "args": ["m"]})
    add("errors-nope", {"__class__": "Pyro5.errors.Nope", "args": []})
    add("errors-empty", {"__class__": "Pyro5.errors.", "args": []})
    add("errors-dotted", {"__class__": "Pyro5.errors.NamingError.x", "args": []})
    add("errors-dunder", {"__class__": "Pyro5.errors.__builtins__", "args": []})
    # --- __exception__ branch ----------------------------------------------------------------------
    for tag in ("ValueError", "TimeoutError", "NamingError", "OSError", "IOError", "BaseException", "SystemExit", "int", "eval", "Nope",
                "builtins.KeyError", "exceptions.KeyError", "builtins.TimeoutError", "builtins.int", "builtins.eval", "builtins.open",
                "builtins.Nope", "builtins.", "builtins.os.system", "exceptions.", "sqlite3.Error", "sqlite3.OperationalError",
                "sqlite3.Warning", "sqlite3.connect", "sqlite3.Connection", "sqlite3.NopeError", "sqlite3.dbapi2.Error", "sqlite3.",
                "os.system", "subprocess.Popen", "Pyro5.errors", "Pyro5.core.URI.x", "Pyro5.util.Foo", "Pyro5.util.", "pyro5.core.uri",
                "tests.support.Thing", "float", "", ".", "x.ValueError", "builtins.__import__", "__main__.Evil", "a__b", "__"):
        add("flag-" + (tag or "empty"), exc(tag))
    for tag in ("ValueError", "builtins.KeyError", "sqlite3.Error", "os.system", "Evil", "builtins.__import__", "Pyro5.util.Foo"):
        add("noflag-" + tag, {"__class__": tag, "args": []})
    for n, fl in (("zero", 0), ("empty", ""), ("none", None), ("list", []), ("one", 1), ("str", "y"), ("list1", [0]), ("dict", {})):
        add("flagvalue-" + n, {"__class__": "ValueError", "__exception__": fl, "args": []})
    add("no-class-key-unknown", [{"a": 1}])
    # --- tags that are not text ------------------------------------------------------------------------
    for n, tag in (("none", None), ("int", 5), ("list", ["a"]), ("dict", {"a": 1}), ("true", True)):
        add("tag-" + n, {"__class__": tag, "__exception__": True, "args": []})
    add("tag-bytes", {"__class__": b"ValueError", "__exception__": True, "args": []}, ser="marshal")
    add("tag-bytes-dunder", {"__class__": b"a__b"}, ser="msgpack")
    add("tag-bytes-bad-utf8", {"__class__": b"\xff\xfe"}, ser="marshal")
    add("tag-bytes-surrogate", {"__class__": b"\xed\xa0\x80"}, ser="msgpack")
    add("tag-bytes-overlong", {"__class__": b"\xc0\xaf"}, ser="marshal")
    add("tag-bytes-2byte", {"__class__": "Pyro5.errors.ü".encode("utf-8")}, ser="marshal")
    add("tag-tuple", {"__class__": ("a", "b")}, ser="marshal")
    add("tag-tuple-dunder", {"__class__": ("__",)}, ser="marshal")
    # --- registry ------------------------------------------------------------------------------------------
    add("reg-plain", {"__class__": "test.Thing", "x": [uri]}, reg=["test.Thing"])
    add("reg-dunder", {"__class__": "my.__special__.Thing"}, reg=["my.__special__.Thing"])
    add("reg-other-dunder", {"__class__": "my.__other__.Thing"}, reg=["my.__special__.Thing"])
    add("reg-overrides-known", {"__class__": "Pyro5.core.URI", "state": 5}, reg=["Pyro5.core.URI"])
    add("reg-overrides-exc", exc("ValueError"), reg=["ValueError"])
    add("reg-bytes-tag", {"__class__": b"test.Thing"}, ser="marshal", reg=["test.Thing"])
    add("reg-not-inside-wrapper-skipped", {"__class__": "Pyro5.core._ExceptionWrapper", "exception": {"__class__": "test.Thing"}},
        reg=["test.Thing"])
    # --- containers / recreate_classes ------------------------------------------------------------------
    add("rc-list", [1, uri, [exc("KeyError")], {"k": {"z": proxy}}])
    add("rc-tuple-set", (1, uri, {1, "a", (2, "t")}, ({"k": uri},)), ser="marshal")
    add("rc-tuple-serpent", (uri, {"k": (exc("sqlite3.Error"),)}), ser="serpent")
    add("rc-frozenset-passthrough", [frozenset([1]), uri], ser="marshal")
    add("rc-nonstr-keys", {1: uri, b"k": [uri], (1, 2): 3}, ser="marshal")
    add("rc-keys-not-recreated", {"__class__x": 1, "k": uri})
    add("rc-first-error-wins", [{"__class__": "a__b"}, {"__class__": "os.system"}])
    add("rc-first-error-wins-2", [{"__class__": "os.system"}, {"__class__": "a__b"}])
    add("rc-dict-order", {"b": {"__class__": "os.system"}, "a": {"__class__": "a__b"}})
    # (lists beyond 1024 items are exercised by the generator's bulk lists and corpus/C04/bulk-list-*: a kernel evaluation of
    #  a 1000-element traversal is too deep, so they are not part of this table)
    mid = [0] * 40
    mid[20] = {"__class__": "os.system"}
    add("rc-mid-list", mid)
    mid2 = [0.5] * 48
    mid2[3] = uri
    add("rc-mid-list-ok", mid2, ser="msgpack")
    add("serpent-float", [{"__class__": "float", "value": "nan"}, {"__class__": "float", "value": 3}], ser="serpent")
    add("serpent-float-missing", {"__class__": "float"}, ser="serpent")
    add("serpent-float-bad", {"__class__": "float", "value": "x"}, ser="serpent")
    add("serpent-float-bytes-tag", {"__class__": b"float", "value": "1"}, ser="serpent")
    add("json-float-tag", {"__class__": "float", "value": "1"})
    # --- top-down: class dicts inside class dicts stay dicts --------------------------------------------
    for ser in ("serpent", "marshal", "json", "msgpack"):
        add("topdown-" + ser, exc("ValueError", args=[proxy], attributes={"x_note": uri}), ser=ser)
        add("topdown-call-" + ser, _call(ser, [exc("ValueError", args=proxy)], {"k": {"__class__": "Pyro5.core.URI", "state": proxy}}),
            ser=ser, op="call")
    # --- call shapes ------------------------------------------------------------------------------------------
    for ser in ("serpent", "marshal", "json", "msgpack"):
        add("call-ok-" + ser, _call(ser, [uri, 1], {"k": exc("KeyError")}), ser=ser, op="call")
        add("call-obj-not-recreated-" + ser, _call(ser, [], {}, obj=uri, method={"__class__": "os.system"}), ser=ser, op="call")
        add("call-vargs-hostile-" + ser, _call(ser, [{"__class__": "os.system"}], {}), ser=ser, op="call")
        add("call-kwargs-hostile-" + ser, _call(ser, [], {"k": {"__class__": "a__b"}}), ser=ser, op="call")
        add("call-vargs-is-classdict-" + ser, _call(ser, uri, exc("KeyError")), ser=ser, op="call")
    for ser in ("serpent", "marshal", "msgpack"):
        add("call-3-" + ser, ["o", "m", [uri]], ser=ser, op="call")
        add("call-5-" + ser, ["o", "m", [uri], {}, 1], ser=ser, op="call")
        add("call-str4-" + ser, "abcd", ser=ser, op="call")
        add("call-none-" + ser, None, ser=ser, op="call")
        add("call-dict4-" + ser, {"a": 1, "b": 2, "c": uri, "d": 4}, ser=ser, op="call")
    add("call-tuple-serpent", ("o", "m", (uri,), {}), ser="serpent", op="call")
    add("call-json-missing-kwargs", {"object": "o", "method": "m", "params": [uri]}, op="call")
    add("call-json-missing-params", {"object": "o", "method": "m", "kwargs": {}}, op="call")
    add("call-json-missing-object", {"method": "m", "params": [uri], "kwargs": {}}, op="call")
    add("call-json-missing-method", {"object": "o", "params": [uri], "kwargs": {}}, op="call")
    add("call-json-list", ["o", "m", [uri], {}], op="call")
    add("call-json-params-error-before-kwargs", {"params": [{"__class__": "a__b"}], "kwargs": {"k": {"__class__": "os.system"}}}, op="call")
    # --- msgpack extension values ----------------------------------------------------------------------------
    import struct
    exts = [ET(0x30, struct.pack("dd", 1.5, -2.0)), ET(0x31, b"1180591620717411303424"), ET(0x32, struct.pack("d", 86400.0 * 365)),
            ET(0x33, struct.pack("l", 730000))]
    add("ext-loads", [exts, {"k": exts[1]}], ser="msgpack")
    add("ext-call", ["o", "m", [exts[1], exts[0]], {"k": exts[3]}], ser="msgpack", op="call")
    add("ext-call-obj", [exts[1], "m", [], {}], ser="msgpack", op="call")
    add("ext-bad-data", [ET(0x31, b"12x")], ser="msgpack")
    add("ext-bad-data-call", ["o", "m", [ET(0x30, b"x")], {}], ser="msgpack", op="call")
    for code in (0, 5, 0x2f, 0x34, 127):
        add("ext-code-%d" % code, [ET(code, b"abc")], ser="msgpack")
    add("ext-unknown-code-call", ["o", "m", [ET(5, b"abc")], {}], ser="msgpack", op="call")
    add("ext-as-flag", {"__class__": "ValueError", "__exception__": ET(0x31, b"0"), "args": []}, ser="msgpack")
    add("ext-before-classdict-error", [{"__class__": "os.system"}, ET(5, b"")], ser="msgpack")
    return P


def _call(ser, vargs, kwargs, obj="obj", method="m"):
    if ser == "json":
        return {"object": obj, "method": method, "params": vargs, "kwargs": kwargs}
    return [obj, method, vargs, kwargs]


def _probes(R):
    """run the probe table on the real code; returns Lean source of the `probes` list + the probed flags"""
    from props import c04
    from props import c04_gen as G
    rows = []
    seen = set()
    for name, ser, op, reg, payload in _probe_table(R):
        if name in seen:
            raise RuntimeError("duplicate probe name " + name)
        seen.add(name)
        data = G.encode(R, ser, payload, None)
        c04.REC.start()
        try:
            lit = R.codec_loads(ser, data)
        finally:
            base = c04.REC.stop()
        res = c04.run_real(R, ser, op, data, reg)
        extra = c04._minus(res["events"], base) + res["events_del"]
        expect = res["canon"]
        if res.get("nocompare"):
            raise RuntimeError("probe %s is not comparable (%s)" % (name, res["nocompare"]))
        if extra:
            expect += " events:" + ",".join(sorted({e[0] for e in extra}))     # never equal to a model outcome
        rows.append("  { name := %s, ser := %d, call := %s, reg := [%s], spec := %s,\n    input := %s,\n    expect := %s }"
                    % (_lstr(name), c04.SERS.index(ser), "true" if op == "call" else "false",
                       ", ".join(_chars(t) for t in reg), _chars(res.get("site") or "-"),
                       _lit(R, lit, c04._label), _chars(expect)))
    return rows


def _ext_codes(R):
    """the extension codes ext_hook accepts (does not answer with SerializeError), probed with data of every shape it parses"""
    import struct
    ser = R.sers["msgpack"]
    datas = [struct.pack("dd", 1.0, 2.0), b"12", struct.pack("d", 86400.0), struct.pack("l", 730000), b""]
    out = []
    for code in range(0, 128):
        refused = 0
        for d in datas:
            try:
                ser.ext_hook(code, d)
            except R.errors.SerializeError:
                refused += 1
            except Exception:
                pass
        if refused == 0:
            out.append(code)
        elif refused != len(datas):
            raise RuntimeError("ext_hook refuses code %d for some data only" % code)
    return out


def _call_ext_hook(R):
    """does MsgpackSerializer.loadsCall convert extension values (probe, not source reading)"""
    ser = R.sers["msgpack"]
    data = R.msgpack.packb(["o", "m", [R.msgpack.ExtType(0x31, b"77")], {}], use_bin_type=True)
    r = ser.loadsCall(data)
    v = r[2][0]
    if v == 77 and type(v) is int:
        return True
    if type(v) is R.msgpack.ExtType:
        return False
    raise RuntimeError("cannot tell whether loadsCall applies ext_hook: got %r" % (v,))


def extract():
    common.repo_on_path()
    import builtins
    import sqlite3
    import struct
    from Pyro5 import errors, serializers
    from props import c04
    R = c04.real()
    path = serializers.__file__
    # --- name tables ------------------------------------------------------------------------
    allexc = sorted((n, t.__module__ + "." + t.__qualname__) for n, t in serializers.all_exceptions.items())
    struct_is_exc = isinstance(struct.error, type) and issubclass(struct.error, BaseException)
    struct_qual = struct.error.__module__ + "." + struct.error.__qualname__
    probes = _probes(R)

    out = []
    out.append("-- GENERATED by harness/props/c04.py from the imported modules builtins, Pyro5.errors, sqlite3, struct and by PROBING the\n"
               "-- real decoders of %s on a fixed table of inputs — do not edit\n" % os.path.relpath(path, common.REPO))
    out.append("namespace Pyro.Gen.C04\n")
    out.append("/-- what a module attribute is, as far as `issubclass(x, <base>)` can tell: an exception class (with its real\n"
               "    `__module__.__qualname__`), another class, or not a class at all (issubclass raises TypeError) -/\n"
               "inductive Kind\n  | exc (qual : List Char)\n  | cls\n  | other\n  deriving DecidableEq, Repr\n")
    out.append(_table("builtinsKinds", "vars(builtins): name ↦ kind w.r.t. BaseException", _kinds(builtins, BaseException)))
    out.append(_table("errorsKinds", "vars(Pyro5.errors): name ↦ kind w.r.t. Pyro5.errors.PyroError", _kinds(errors, errors.PyroError)))
    out.append(_table("sqlite3Kinds", "vars(sqlite3): name ↦ kind w.r.t. BaseException", _kinds(sqlite3, BaseException)))
    out.append("/-- Pyro5.serializers.all_exceptions: name ↦ real qualified name of the class -/\n"
               "def allExceptions : List (List Char × List Char) := [\n  %s]\n"
               % ",\n  ".join("(%s, %s)" % (_chars(n), _chars(q)) for n, q in allexc))
    out.append("def structErrorIsException : Bool := %s\n" % ("true" if struct_is_exc else "false"))
    out.append("def structErrorQual : List Char := %s\n" % _chars(struct_qual))
    out.append("/-- MsgpackSerializer.loadsCall converts extension values through ext_hook (probed on the real code) -/\n"
               "def msgpackCallExtHook : Bool := %s\n" % ("true" if _call_ext_hook(R) else "false"))
    out.append("/-- the extension codes ext_hook does not refuse with SerializeError (all 128 codes probed on the real code) -/\n"
               "def extHookAccepted : List Int := [%s]\n" % ", ".join(str(c) for c in _ext_codes(R)))
    out.append("/-- a literal tree as a wire codec delivers it (labels of leaves are opaque renderings) -/\n"
               "inductive Lit\n  | atom (truthy : Bool) (label : String)\n  | blob (truthy : Bool) (label : String)\n"
               "  | str (s : List Char)\n  | bytes (b : List UInt8)\n  | list (xs : List Lit)\n  | tuple (xs : List Lit)\n"
               "  | set (xs : List Lit)\n  | dictS (ks : List (List Char)) (vs : List Lit)\n"
               "  | dictK (ks : List (Bool × List Char)) (vs : List Lit)\n"
               "  | ext (code : Int) (raw : String) (conv : String) (convTruthy : Bool)\n")
    out.append("/-- one observation of the real decoder: serializer (0 serpent, 1 marshal, 2 json, 3 msgpack), path (call = loadsCall),\n"
               "    registered converter tags, the external call that raised (\"-\" = none), the literal tree the codec delivered, and the\n"
               "    canonical outcome (\"ok <rendering>\" / \"err <Enum>\", plus \" events:…\" if an audit event was seen) -/\n"
               "structure Probe where\n  name : String\n  ser : Nat\n  call : Bool\n  reg : List (List Char)\n  spec : List Char\n"
               "  input : Lit\n  expect : List Char\n")
    for k, row in enumerate(probes):
        out.append("def probe%d : Probe :=\n%s\n" % (k, row))
    out.append("def probes : List Probe := [%s]\n" % ", ".join("probe%d" % k for k in range(len(probes))))
    out.append("end Pyro.Gen.C04\n")
    return "\n".join(out)


if __name__ == "__main__":
    print(extract())
