"""C04 extractor: source facts of Pyro5/serializers.py (+ builtins / Pyro5.errors / sqlite3 / struct name tables) -> Lean."""
import ast
import json
import os

import common


def _lstr(s):
    """Lean String literal"""
    return json.dumps(s, ensure_ascii=True)


def _chars(s):
    """Lean `List Char` term, spelled out (kernel-friendly: `decide +kernel` never has to decode a String literal)"""
    out = []
    for c in s:
        if not (32 <= ord(c) < 127):
            raise RuntimeError("non-ASCII name %r" % s)
        out.append("'\\''" if c == "'" else ("'\\\\'" if c == "\\" else "'%s'" % c))
    return "[" + ",".join(out) + "]"


def _ordered(node):
    """all sub-nodes of `node` in source order"""
    out = [n for n in ast.walk(node) if hasattr(n, "lineno")]
    out.sort(key=lambda n: (n.lineno, n.col_offset, -(getattr(n, "end_lineno", n.lineno) * 100000 + getattr(n, "end_col_offset", 0))))
    return out


def _tests(fn):
    """the decision list of a function: comparisons, str-method tests, .get() and subscripts with constant keys, in source order"""
    out = []
    for n in _ordered(fn):
        if isinstance(n, ast.Compare):
            out.append(ast.unparse(n))
        elif isinstance(n, ast.Call) and isinstance(n.func, ast.Attribute) and n.func.attr in (
                "startswith", "endswith", "split", "get", "decode", "items"):
            out.append(ast.unparse(n))
        elif isinstance(n, ast.Call) and isinstance(n.func, ast.Name) and n.func.id in ("isinstance", "issubclass", "getattr", "setattr", "float"):
            out.append(ast.unparse(n))
        elif isinstance(n, ast.Subscript) and isinstance(n.slice, ast.Constant):
            out.append(ast.unparse(n))
    return out


def _kinds(mod, base):
    rows = []
    for name, t in sorted(vars(mod).items()):
        if not isinstance(name, str) or any(ord(c) < 32 or ord(c) > 126 for c in name):
            raise RuntimeError("unexpected attribute name %r in %s" % (name, mod.__name__))
        if isinstance(t, type):
            if issubclass(t, base):
                rows.append((name, ".exc " + _chars(t.__module__ + "." + t.__qualname__)))
            else:
                rows.append((name, ".cls"))
        else:
            rows.append((name, ".other"))
    return rows


def _table(name, doc, rows):
    body = ",\n  ".join("(%s, %s)" % (_chars(n), k) for n, k in rows)
    return "/-- %s -/\ndef %s : List (List Char × Kind) := [\n  %s]\n" % (doc, name, body)


def extract():
    common.repo_on_path()
    import builtins
    import sqlite3
    import struct
    from Pyro5 import errors, serializers
    path = serializers.__file__
    tree = ast.parse(open(path).read())
    classes = {n.name: n for n in tree.body if isinstance(n, ast.ClassDef)}

    def fn(cname, fname):
        hits = [n for n in classes[cname].body if isinstance(n, ast.FunctionDef) and n.name == fname]
        if len(hits) != 1:
            raise RuntimeError("cannot find %s.%s" % (cname, fname))
        return hits[0]

    # --- decision lists -------------------------------------------------------------------
    d2c = _tests(fn("SerializerBase", "dict_to_class"))
    mkexc = _tests(fn("SerializerBase", "make_exception"))
    serp = _tests(fn("SerpentSerializer", "dict_to_class"))
    exth = _tests(fn("MsgpackSerializer", "ext_hook"))
    # recreate_classes: the exact types dispatched on, in order
    rc = fn("SerializerBase", "recreate_classes")
    rctypes = []
    for n in _ordered(rc):
        if isinstance(n, ast.Compare) and len(n.ops) == 1 and isinstance(n.ops[0], ast.Is) and isinstance(n.comparators[0], ast.Name):
            rctypes.append(n.comparators[0].id)
    rctests = _tests(rc)
    # --- loads / loadsCall shapes ---------------------------------------------------------
    shapes = []
    for cname in ("SerpentSerializer", "MarshalSerializer", "JsonSerializer", "MsgpackSerializer"):
        for fname in ("loads", "loadsCall"):
            f = fn(cname, fname)
            nrec = sum(1 for n in ast.walk(f) if isinstance(n, ast.Call) and isinstance(n.func, ast.Attribute)
                       and n.func.attr == "recreate_classes")
            shapes.append(("%s.%s" % (cname, fname), nrec))

    def unpack_kw(fname):
        f = fn("MsgpackSerializer", fname)
        calls = [n for n in ast.walk(f) if isinstance(n, ast.Call) and isinstance(n.func, ast.Attribute)
                 and n.func.attr == "unpackb"]
        if len(calls) != 1:
            raise RuntimeError("MsgpackSerializer.%s: expected exactly one msgpack.unpackb call" % fname)
        kws = []
        for k in calls[0].keywords:
            if k.arg is None:
                raise RuntimeError("**kwargs in unpackb call")
            kws.append("%s=%s" % (k.arg, ast.unparse(k.value)))
        return sorted(kws)

    hook_methods = sorted(n.name for n in classes["MsgpackSerializer"].body
                          if isinstance(n, ast.FunctionDef) and n.name in ("object_hook", "ext_hook", "object_pairs_hook"))
    # --- name tables ------------------------------------------------------------------------
    allexc = sorted((n, t.__module__ + "." + t.__qualname__) for n, t in serializers.all_exceptions.items())
    struct_is_exc = isinstance(struct.error, type) and issubclass(struct.error, BaseException)
    struct_qual = struct.error.__module__ + "." + struct.error.__qualname__

    def strlist(name, doc, xs):
        return "/-- %s -/\ndef %s : List String := [%s]\n" % (doc, name, ", ".join(_lstr(x) for x in xs))

    out = []
    out.append("-- GENERATED by harness/props/c04.py from %s and the imported modules builtins, Pyro5.errors, sqlite3, struct — do not edit\n"
               % os.path.relpath(path, common.REPO))
    out.append("namespace Pyro.Gen.C04\n")
    out.append("/-- what a module attribute is, as far as `issubclass(x, <base>)` can tell: an exception class (with its real\n"
               "    `__module__.__qualname__`), another class, or not a class at all (issubclass raises TypeError) -/\n"
               "inductive Kind\n  | exc (qual : List Char)\n  | cls\n  | other\n  deriving DecidableEq, Repr\n")
    out.append(_table("builtinsKinds", "vars(builtins): name ↦ kind w.r.t. BaseException", _kinds(builtins, BaseException)))
    out.append(_table("errorsKinds", "vars(Pyro5.errors): name ↦ kind w.r.t. Pyro5.errors.PyroError", _kinds(errors, errors.PyroError)))
    out.append(_table("sqlite3Kinds", "vars(sqlite3): name ↦ kind w.r.t. BaseException", _kinds(sqlite3, BaseException)))
    out.append("/-- Pyro5.serializers.all_exceptions: name ↦ real qualified name of the class -/\n"
               "def allExceptions : List (List Char × List Char) := [\n  %s]\n"
               % ",\n  ".join("(%s, %s)" % (_chars(n), _chars(q)) for n, q in allexc))
    out.append("def structErrorIsException : Bool := %s\n" % ("true" if struct_is_exc else "false"))
    out.append("def structErrorQual : List Char := %s\n" % _chars(struct_qual))
    out.append(strlist("dictToClassTests", "decision list of SerializerBase.dict_to_class (tests, lookups, in source order)", d2c))
    out.append(strlist("makeExceptionTests", "SerializerBase.make_exception", mkexc))
    out.append(strlist("serpentDictToClassTests", "SerpentSerializer.dict_to_class", serp))
    out.append(strlist("extHookTests", "MsgpackSerializer.ext_hook", exth))
    out.append(strlist("recreateTypes", "types dispatched on by recreate_classes (`t is <type>`), in order", rctypes))
    out.append(strlist("recreateTests", "recreate_classes", rctests))
    out.append("/-- number of recreate_classes calls in each loads / loadsCall -/\ndef recreateCalls : List (String × Nat) := [%s]\n"
               % ", ".join("(%s, %d)" % (_lstr(n), k) for n, k in shapes))
    out.append(strlist("msgpackLoadsKw", "keyword arguments of msgpack.unpackb in MsgpackSerializer.loads", unpack_kw("loads")))
    out.append(strlist("msgpackLoadsCallKw", "keyword arguments of msgpack.unpackb in MsgpackSerializer.loadsCall", unpack_kw("loadsCall")))
    out.append(strlist("msgpackHookMethods", "hook methods defined by MsgpackSerializer", hook_methods))
    out.append("end Pyro.Gen.C04\n")
    return "\n".join(out)


if __name__ == "__main__":
    print(extract())
