"""
C01, concurrent use of one serializer: a value crosses unchanged also while another thread is serializing.

Real-code oracle only.  The serializer objects are process-wide singletons shared by every proxy and daemon worker
thread ("must be thread safe").  The codec libraries call back into Python for values they have no encoding for
(Pyro's default hooks / class_to_dict, which calls the object's __getstate__); that is the one place where a second
thread can run in the middle of a message.  The oracle makes that interleaving happen deterministically (events, no
sleeps): thread A serializes a value holding a `Gate` object whose __getstate__ blocks; while A is inside the callback
the main thread B sends its own value through dumps/loads and dumpsCall/loadsCall of the SAME serializer; then A is
released.  Both must get exactly what they get when run alone.
"""
import threading

import common

SERS = ["serpent", "marshal", "json", "msgpack"]


class Gate(object):
    """__getstate__ returns a plain dict (no class key: it arrives as a dict); optionally waits in the middle"""

    def __init__(self, inside=None, go=None):
        self.inside, self.go = inside, go

    def __getstate__(self):
        if self.inside is not None:
            self.inside.set()
            if not self.go.wait(20):
                raise RuntimeError("gate never released")
        return {"gate": "state", "n": 12345678901234567890123}


def _values_a(gate):
    return [[1, gate, "tail"], {"k": [gate, 2.5], "z": "end"}, gate]


VALUES_B = [[7], {"k": 2 ** 70, "t": "x" * 40}, "plain text", [{"a": [1, 2, 3]}, None, True], (1, 2), {1, 2, 3}]


def _canon(v):
    from props import c01_vals as V
    return repr(V.norm(V.tree(v), True))


def _run_b(s, vb, as_call):
    if as_call:
        return s.loadsCall(s.dumpsCall("o", "m", (vb,), {"k": vb}))[2:]
    return s.loads(s.dumps(vb))


def _run_a(s, va, as_call):
    if as_call:
        return s.loadsCall(s.dumpsCall("o", "m", (va,), {}))[2][0]
    return s.loads(s.dumps(va))


def _outcome(fn):
    try:
        return ("ok", _canon(fn()))
    except Exception as x:       # noqa: BLE001
        return ("err", type(x).__name__ + ": " + str(x)[:80])


def check(ctx, ser, ia, ib, a_call, b_call):
    from Pyro5 import serializers
    s = serializers.serializers[ser]
    vb = VALUES_B[ib]
    alone_a = _outcome(lambda: _run_a(s, _values_a(Gate())[ia], a_call))
    alone_b = _outcome(lambda: _run_b(s, vb, b_call))
    if alone_a[0] != "ok":
        return True     # this serializer does not take the value at that nesting (marshal: nested objects) - nothing to interleave
    inside, go = threading.Event(), threading.Event()
    box = {}

    def thread_a():
        box["a"] = _outcome(lambda: _run_a(s, _values_a(Gate(inside, go))[ia], a_call))

    t = threading.Thread(target=thread_a, daemon=True)
    t.start()
    try:
        if not inside.wait(20):
            raise RuntimeError("C01 concurrency oracle: the callback was never reached (%s)" % ser)
        got_b = _outcome(lambda: _run_b(s, vb, b_call))
    finally:
        go.set()
        t.join(30)
    ctx.evaluations += 1
    ctx.nontriv(("conc", ser, ia, ib, a_call, b_call))
    case = {"concurrent": True, "serializer": ser, "a": ia, "b": ib, "a_call": a_call, "b_call": b_call}
    if got_b != alone_b:
        ctx.fail("concurrent-serialization-%s" % ser,
                 "%s: thread B %s %r while thread A is inside a default()/__getstate__ callback of its own message: B gets %s, alone %s"
                 % (ser, "calls with" if b_call else "returns", vb, got_b[1][:160], alone_b[1][:160]), case)
        return False
    if box.get("a") != alone_a:
        ctx.fail("concurrent-serialization-%s" % ser,
                 "%s: thread A's message, interrupted in a callback while thread B serialized %r, arrives as %s, alone %s"
                 % (ser, vb, str(box.get("a"))[:160], alone_a[1][:160]), case)
        return False
    return True


def run(ctx):
    common.repo_on_path()
    rng = ctx.sub_rng("conc-search" if ctx.search_mode else "conc")
    combos = [(ser, ia, ib, ac, bc) for ser in SERS for ia in range(3) for ib in range(len(VALUES_B))
              for ac in (False, True) for bc in (False, True)]
    rng.shuffle(combos)
    # one full sweep is 4*3*6*4 = 288 interleavings (a few ms each)
    for c in combos[:ctx.n(288, 288)]:
        if not check(ctx, *c):
            break


def replay(case):
    common.repo_on_path()
    ctx = common.Ctx("C01", "quick", 0)
    check(ctx, case["serializer"], case["a"], case["b"], case["a_call"], case["b_call"])
    for f in ctx.failures:
        print("REPRODUCED [%s] %s" % (f["signature"], f["desc"][:600]))
    if not ctx.failures:
        print("not reproduced: both threads get what they get alone")
    return 1 if ctx.failures else 0
