"""
C05 transcriber: Pyro5/server.py `Daemon._clientDisconnect` -> Lean (shallow embedding over the model's own types,
lean/PyroModel/ServerLoopStreams.lean), regenerated from the CURRENT source on every run.

Fragment (everything else raises Untranslatable - sound by refusal, nothing is guessed or skipped except docstrings,
`log.*(...)` calls and `pass`):

  top level   [alias = <config test>]* , exactly one loop per path `for k in list(self.streaming_responses)` (possibly one
              per branch of an `if <config test>:` ... `else:` ...), then the user hook `self.clientDisconnect(conn)` as the
              LAST statement; private helpers `self._x(names...)` of the same class are inlined
  loop body   info = self.streaming_responses.get(k[, None]) ; if / elif / else ; continue ;
              a, b, c, d = info ; self.streaming_responses[k] = (4 components) ; self.streaming_responses.pop(k, None)
  conditions  and / or / not with Python's short-circuit order over the atoms
                S = truth of `info`           (a 4-tuple or None)
                O = `info[0] is conn`         (`is not` = negation; only where `info` is known to be there)
                C = `config.ITER_STREAM_LINGER > 0`   (`config` resolved through the real module; loop-invariant)
              `x is None` / `x is not None` on `info` = not S / S

The function is not translated statement by statement but NORMALISED: it is executed symbolically once for every
assignment of the atoms (S, O, C); what one iteration does to the entry (no-op / pop / set with which components) is
the leaf of a decision tree that is re-emitted in the fixed atom order S, O, C with equal branches merged.  So the Lean
text does not depend on local names, on `if c: continue` vs nesting, on De Morgan forms, on the linger test being hoisted
into a local or placed inside / outside the loop, nor on helpers being extracted.  A path on which the source would
subscript / unpack `info` while it is None (TypeError at run time) is refused.
"""
import ast
import inspect
import textwrap


class Untranslatable(Exception):
    pass


TABLE_ATTR = "streaming_responses"
HOOK = "clientDisconnect"
FIELDS = ["ownerOf", "stampOf", "lingerOf", "itemsOf"]


def _is_self_attr(node, attr, selfname):
    return isinstance(node, ast.Attribute) and node.attr == attr and isinstance(node.value, ast.Name) and node.value.id == selfname


class _Continue(Exception):
    pass


class Tr:
    def __init__(self, server_module, cls):
        self.mod = server_module
        self.cls = cls
        self.depth = 0

    # ---- helpers --------------------------------------------------------------------------------------------------
    def fn_ast(self, fn):
        src = textwrap.dedent(inspect.getsource(fn))
        tree = ast.parse(src).body[0]
        if not isinstance(tree, ast.FunctionDef):
            raise Untranslatable("not a plain function: %s" % fn)
        if tree.decorator_list:
            raise Untranslatable("decorated function")
        a = tree.args
        if a.vararg or a.kwarg or a.kwonlyargs or a.defaults or a.posonlyargs:
            raise Untranslatable("parameter list shape")
        return tree

    def is_config_linger(self, node):
        """config.ITER_STREAM_LINGER > 0, with `config` resolved through the real module"""
        if not (isinstance(node, ast.Compare) and len(node.ops) == 1 and isinstance(node.ops[0], ast.Gt)):
            return False
        l, r = node.left, node.comparators[0]
        if not (isinstance(r, ast.Constant) and r.value == 0 and type(r.value) in (int, float)):
            return False
        if isinstance(l, ast.Attribute) and isinstance(l.value, ast.Name) and l.attr == "ITER_STREAM_LINGER":
            import Pyro5
            return getattr(self.mod, l.value.id, None) is Pyro5.config
        return False

    def skip(self, st):
        if isinstance(st, ast.Pass):
            return True
        if isinstance(st, ast.Expr) and isinstance(st.value, ast.Constant) and isinstance(st.value.value, str):
            return True
        if isinstance(st, ast.Expr) and isinstance(st.value, ast.Call) and isinstance(st.value.func, ast.Attribute) \
                and isinstance(st.value.func.value, ast.Name) and st.value.func.value.id == "log" \
                and getattr(self.mod, "log", None).__class__.__module__ == "logging":
            return True
        return False

    # ---- conditions -----------------------------------------------------------------------------------------------
    def truth(self, node, env, asg):
        if isinstance(node, ast.BoolOp):
            if isinstance(node.op, ast.And):
                for v in node.values:
                    if not self.truth(v, env, asg):
                        return False
                return True
            for v in node.values:
                if self.truth(v, env, asg):
                    return True
            return False
        if isinstance(node, ast.UnaryOp) and isinstance(node.op, ast.Not):
            return not self.truth(node.operand, env, asg)
        if isinstance(node, ast.Name):
            v = env.get(node.id)
            if v == ("info",):
                return asg["S"]
            if isinstance(v, tuple) and v[0] == "bool":
                return v[1]
            raise Untranslatable("truth value of %s" % node.id)
        if self.is_config_linger(node):
            return asg["C"]
        if isinstance(node, ast.Compare) and len(node.ops) == 1 and isinstance(node.ops[0], (ast.Is, ast.IsNot)):
            neg = isinstance(node.ops[0], ast.IsNot)
            l, r = node.left, node.comparators[0]
            if isinstance(l, ast.Name) and env.get(l.id) == ("info",) and isinstance(r, ast.Constant) and r.value is None:
                return (not asg["S"]) != neg
            if isinstance(l, ast.Subscript) and isinstance(l.value, ast.Name) and env.get(l.value.id) == ("info",) \
                    and isinstance(l.slice, ast.Constant) and l.slice.value == 0 and isinstance(r, ast.Name) and env.get(r.id) == ("conn",):
                if not asg["S"]:
                    raise Untranslatable("info[0] is evaluated on a path where info may be None")
                return asg["O"] != neg
        raise Untranslatable("condition " + ast.dump(node)[:120])

    # ---- statements of one loop iteration ------------------------------------------------------------------------
    def component(self, node, env, pos, asg):
        if isinstance(node, ast.Constant) and node.value is None and pos == 0:
            return "none"
        if isinstance(node, ast.Constant) and type(node.value) is int and pos in (1, 2) and node.value >= 0:
            return str(node.value)
        if isinstance(node, ast.Name):
            v = env.get(node.id)
            if v == ("conn",) and pos == 0:
                return "(some conn)"
            if isinstance(v, tuple) and v[0] == "fld" and v[1] == pos:
                return "(%s info)" % FIELDS[pos]
            if isinstance(v, tuple) and v[0] == "fld" and {v[1], pos} == {1, 2}:
                return "(%s info)" % FIELDS[v[1]]
        if isinstance(node, ast.Call) and not node.args and not node.keywords and isinstance(node.func, ast.Attribute) \
                and node.func.attr == "time" and isinstance(node.func.value, ast.Name) and pos in (1, 2):
            import time
            if getattr(self.mod, node.func.value.id, None) is time:
                return "now"
        raise Untranslatable("tuple component %d: %s" % (pos, ast.dump(node)[:100]))

    def is_table(self, node, env):
        return isinstance(node, ast.Attribute) and node.attr == TABLE_ATTR and isinstance(node.value, ast.Name) \
            and env.get(node.value.id) == ("self",)

    def body(self, stmts, env, asg, ops):
        for st in stmts:
            if self.skip(st):
                continue
            if isinstance(st, ast.Continue):
                raise _Continue()
            if isinstance(st, ast.If):
                self.body(st.body if self.truth(st.test, env, asg) else st.orelse, env, asg, ops)
                continue
            if isinstance(st, ast.Assign) and len(st.targets) == 1:
                tg, val = st.targets[0], st.value
                if isinstance(tg, ast.Name):
                    if self.is_config_linger(val):
                        env[tg.id] = ("bool", asg["C"])
                        continue
                    if isinstance(val, ast.Call) and isinstance(val.func, ast.Attribute) and val.func.attr == "get" \
                            and self.is_table(val.func.value, env) and not val.keywords and 1 <= len(val.args) <= 2 \
                            and isinstance(val.args[0], ast.Name) and env.get(val.args[0].id) == ("key",) \
                            and (len(val.args) == 1 or (isinstance(val.args[1], ast.Constant) and val.args[1].value is None)):
                        env[tg.id] = ("info",)
                        continue
                if isinstance(tg, ast.Tuple) and isinstance(val, ast.Name) and env.get(val.id) == ("info",) and len(tg.elts) == 4 \
                        and all(isinstance(e, ast.Name) for e in tg.elts):
                    if not asg["S"]:
                        raise Untranslatable("info is unpacked on a path where it may be None")
                    for i, e in enumerate(tg.elts):
                        env[e.id] = ("fld", i)
                    continue
                if isinstance(tg, ast.Subscript) and self.is_table(tg.value, env) and isinstance(tg.slice, ast.Name) \
                        and env.get(tg.slice.id) == ("key",) and isinstance(val, ast.Tuple) and len(val.elts) == 4:
                    ops.append("Table.set @T@ k (Entry.mk %s)" % " ".join(self.component(e, env, i, asg) for i, e in enumerate(val.elts)))
                    continue
            if isinstance(st, ast.Expr) and isinstance(st.value, ast.Call):
                c = st.value
                if isinstance(c.func, ast.Attribute) and c.func.attr == "pop" and self.is_table(c.func.value, env) and not c.keywords \
                        and len(c.args) == 2 and isinstance(c.args[0], ast.Name) and env.get(c.args[0].id) == ("key",) \
                        and isinstance(c.args[1], ast.Constant) and c.args[1].value is None:
                    ops.append("Table.pop @T@ k")
                    continue
                inl = self.inline(c, env)
                if inl is not None:
                    self.body(inl[0], inl[1], asg, ops)
                    continue
            raise Untranslatable("statement in the loop: " + ast.dump(st)[:160])

    def inline(self, call, env):
        """self._helper(name, ...) with a private helper of the same class: (its statements, its environment)"""
        f = call.func
        if not (isinstance(f, ast.Attribute) and isinstance(f.value, ast.Name) and env.get(f.value.id) == ("self",)
                and f.attr.startswith("_") and not f.attr.startswith("__") and not call.keywords):
            return None
        fn = inspect.getattr_static(self.cls, f.attr, None)
        if not inspect.isfunction(fn) or self.depth > 3:
            return None
        tree = self.fn_ast(fn)
        params = [a.arg for a in tree.args.args]
        if len(params) != len(call.args) + 1 or not all(isinstance(a, ast.Name) and a.id in env for a in call.args):
            raise Untranslatable("helper call shape: " + f.attr)
        new = {params[0]: ("self",)}
        for p, a in zip(params[1:], call.args):
            new[p] = env[a.id]
        stmts = list(tree.body)
        if stmts and isinstance(stmts[-1], ast.Return) and stmts[-1].value is None:
            stmts.pop()
        self.depth += 1
        return stmts, new

    # ---- top level ------------------------------------------------------------------------------------------------
    def top(self, stmts, env, C, found):
        """-> found = {'loop': (For node, env at the loop) , 'hook': bool}; statements after the hook are refused"""
        for st in stmts:
            if self.skip(st):
                continue
            if found["hook"]:
                raise Untranslatable("statement after the user hook")
            if isinstance(st, ast.If):
                self.top(st.body if self.truth(st.test, env, {"C": C, "S": None, "O": None}) else st.orelse, env, C, found)
                continue
            if isinstance(st, ast.Assign) and len(st.targets) == 1 and isinstance(st.targets[0], ast.Name) and self.is_config_linger(st.value):
                env[st.targets[0].id] = ("bool", C)
                continue
            if isinstance(st, ast.For) and not st.orelse and isinstance(st.target, ast.Name):
                it = st.iter
                ok = isinstance(it, ast.Call) and isinstance(it.func, ast.Name) and it.func.id == "list" and len(it.args) == 1 \
                    and not it.keywords and "list" not in vars(self.mod)
                if ok:
                    a = it.args[0]
                    if isinstance(a, ast.Call) and isinstance(a.func, ast.Attribute) and a.func.attr == "keys" and not a.args:
                        a = a.func.value
                    ok = self.is_table(a, env)
                if not ok:
                    raise Untranslatable("loop is not over a snapshot of the stream table's keys")
                if found["loop"] is not None:
                    raise Untranslatable("more than one loop on a path")
                e2 = dict(env)
                e2[st.target.id] = ("key",)
                found["loop"] = (st.body, e2)
                continue
            if isinstance(st, ast.Expr) and isinstance(st.value, ast.Call):
                c = st.value
                if isinstance(c.func, ast.Attribute) and c.func.attr == HOOK and isinstance(c.func.value, ast.Name) \
                        and env.get(c.func.value.id) == ("self",) and len(c.args) == 1 and not c.keywords \
                        and isinstance(c.args[0], ast.Name) and env.get(c.args[0].id) == ("conn",):
                    found["hook"] = True
                    continue
                inl = self.inline(c, env)
                if inl is not None:
                    self.top(inl[0], inl[1], C, found)
                    continue
            raise Untranslatable("top-level statement: " + ast.dump(st)[:160])

    def leaf(self, C, S, O):
        found = {"loop": None, "hook": False}
        tree = self.fn_ast(inspect.getattr_static(self.cls, "_clientDisconnect"))
        params = [a.arg for a in tree.args.args]
        if len(params) != 2:
            raise Untranslatable("_clientDisconnect(self, conn) expected")
        self.depth = 0
        self.top(tree.body, {params[0]: ("self",), params[1]: ("conn",)}, C, found)
        if not found["hook"]:
            raise Untranslatable("the user hook clientDisconnect(conn) is not called (last)")
        if found["loop"] is None:
            return []
        ops = []
        try:
            self.body(found["loop"][0], dict(found["loop"][1]), {"C": C, "S": S, "O": O}, ops)
        except _Continue:
            pass
        return ops


def _expr(ops):
    out = "t"
    for op in ops:
        out = "(" + op.replace("@T@", out) + ")"
    return out


def transcribe(server_module):
    """Lean source of the per-key step and of the whole function"""
    tr = Tr(server_module, server_module.Daemon)
    leaves = {}
    for C in (True, False):
        for S, O in ((True, True), (True, False), (False, False)):
            leaves[(S, O, C)] = _expr(tr.leaf(C, S, O))

    def on_c(S, O):
        a, b = leaves[(S, O, True)], leaves[(S, O, False)]
        return a if a == b else "(if linger > 0 then %s else %s)" % (a, b)

    def on_o(S):
        if not S:
            return on_c(False, False)
        a, b = on_c(True, True), on_c(True, False)
        return a if a == b else "(if ownerIs info conn then %s else %s)" % (a, b)
    a, b = on_o(True), on_o(False)
    tree = a if a == b else "(if info.isSome then %s else %s)" % (a, b)
    return f"""/-- one iteration of the loop of `Daemon._clientDisconnect` over the key `k` (decision tree in the atom order
    `info` present / `info[0] is conn` / `ITER_STREAM_LINGER > 0`, equal branches merged) -/
def disconnectStepSrc (linger now conn : Nat) (t : Table) (k : Nat) : Table :=
  let info := t k
  {tree}
/-- `Daemon._clientDisconnect(conn)`: the loop over the snapshot `ks = list(self.streaming_responses)`, then the user hook -/
def clientDisconnectSrc (linger now conn : Nat) (ks : List Nat) (t : Table) : Table × Bool :=
  (ks.foldl (disconnectStepSrc linger now conn) t, true)
"""


def probe_rows(server_module):
    """the REAL function on a few tables: (linger>0, entries [(id, owner, stamp, linger flag)], result) - conn is 1, now = 77"""
    import Pyro5
    config = Pyro5.config
    rows = []
    saved = config.ITER_STREAM_LINGER
    real_time = server_module.time

    class T:
        @staticmethod
        def time():
            return 77
    conns = {1: object(), 2: object(), 3: object()}
    tables = [[], [(5, 1, 10, 0)], [(5, 2, 10, 0)], [(5, 1, 10, 0), (6, 2, 11, 0), (7, 1, 12, 0)], [(4, None, 3, 50), (5, 2, 9, 0), (6, 1, 9, 0)],
              [(1, 3, 1, 0), (2, 2, 2, 0), (3, None, 3, 9)]]
    try:
        server_module.time = T
        for linger in (0, 5):
            config.ITER_STREAM_LINGER = linger
            for tb in tables:
                d = object.__new__(server_module.Daemon)
                called = []
                d.clientDisconnect = lambda c, _l=called: _l.append(c)
                streams = {}
                d.streaming_responses = {"s%d" % i: (conns.get(o), st, lg, streams.setdefault(i, iter([i]))) for i, o, st, lg in tb}
                d._clientDisconnect(conns[1])
                inv = {id(v): k for k, v in conns.items()}
                res = []
                for i, o, st, lg in tb:
                    e = d.streaming_responses.get("s%d" % i)
                    if e is None:
                        res.append((i, None))
                    else:
                        if e[3] is not streams[i]:
                            raise Untranslatable("probe: the stream object of an entry was replaced")
                        res.append((i, (inv.get(id(e[0])) if e[0] is not None else None, e[1], e[2])))
                if len(d.streaming_responses) != sum(1 for _, e in res if e is not None) or called != [conns[1]]:
                    raise Untranslatable("probe: keys were added / the hook was not called exactly once with the connection")
                rows.append((linger, tb, res))
    finally:
        server_module.time = real_time
        config.ITER_STREAM_LINGER = saved
    return rows


def lean_rows(rows):
    opt = lambda o: "none" if o is None else "(some %d)" % o
    out = []
    for linger, tb, res in rows:
        ents = "[" + ", ".join("(%d, Entry.mk %s %d %d [%d])" % (i, opt(o), st, lg, i) for i, o, st, lg in tb) + "]"
        exp = "[" + ", ".join("(%d, %s)" % (i, "none" if e is None else "some (Entry.mk %s %d %d [%d])" % (opt(e[0]), e[1], e[2], i))
                              for i, e in res) + "]"
        out.append("  (%d, %s, %s)" % (linger, ents, exp))
    return "[\n" + ",\n".join(out) + "]"
