"""C01: per-property translator  python `ast`  ->  Lean source (shallow embedding over the Values model).

Transcribes `SerializerBase.recreate_classes` (the class-dict re-creation every serializer applies to vargs, kwargs and
results) from the CURRENT source into a `mutual` block of Lean definitions over `Pyro.Values.Val / Vals / Pairs`:

    recreateSrc dictToClass : Val -> Except Err Val        (the function itself: dispatch on the exact type)
    recreateSrcItems  ...   : Vals -> Except Err Vals      (the comprehension  `f(x) for x in literal`)
    recreateSrcValues ...   : Pairs -> Except Err Pairs    (the loop / comprehension over `literal.items()`, keys kept)

`self.dict_to_class(literal)` is a collaborator: it becomes the parameter `dictToClass` (the model's `dictToClass s`).

SOUND BY REFUSAL: every statement / expression / call target / operator that is not one of the forms below raises
`Untranslatable`.  Skipped silently: docstrings, `log.*(...)` calls, annotations.  Normalised: local and parameter names
(none appears in the output), `t = type(x); if t is T` = `if type(x) is T`, `if / elif / else` chains = sequences of
closed `if`s, `not k in d` = `k not in d` (branches swapped), negated membership guard with the other branch first,
list / set / dict comprehension = `list(..)` / `set(..)` / `tuple(..)` over a generator = accumulator loop
(`r = {}; for k, v in d.items(): r[k] = f(v); return r`), string constants and type names resolved through the real
module (a module-level constant is replaced by its value), helper methods of the same class whose body is a single
`return` of a supported form are inlined.
"""
import ast
import builtins
import inspect
import textwrap


class Untranslatable(Exception):
    pass


CONTAINER_CTOR = {set: "set", list: "list", tuple: "tuple", frozenset: "frozenset", dict: "dict"}
COLLABORATORS = {"dict_to_class": "dictToClass"}


def _no(node, why):
    raise Untranslatable("%s at line %s: %s" % (why, getattr(node, "lineno", "?"), ast.dump(node)[:160]))


class _Fn:
    def __init__(self, cls, name, module):
        self.cls, self.name, self.module = cls, name, module
        try:
            fn = inspect.unwrap(getattr(cls, name))
            fn = getattr(fn, "__func__", fn)
            src = textwrap.dedent(inspect.getsource(fn))
        except (AttributeError, OSError, TypeError) as x:
            raise Untranslatable("cannot get the source of %s.%s: %r" % (cls.__name__, name, x))
        tree = ast.parse(src)
        if len(tree.body) != 1 or not isinstance(tree.body[0], ast.FunctionDef):
            raise Untranslatable("%s.%s is not a plain function definition" % (cls.__name__, name))
        self.node = tree.body[0]
        if self.node.decorator_list:
            _no(self.node, "decorated function")
        a = self.node.args
        if a.vararg or a.kwarg or a.kwonlyargs or a.defaults or a.posonlyargs or len(a.args) != 2:
            _no(self.node, "signature is not (self, literal)")
        self.self_name, self.lit = a.args[0].arg, a.args[1].arg


class Translator:
    def __init__(self, cls, fname, module):
        self.cls, self.fname, self.module = cls, fname, module
        self.fn = _Fn(cls, fname, module)

    # ---- resolution through the real module
    def resolve(self, node):
        """a Name / Attribute / Constant that denotes a module-level object -> that object"""
        if isinstance(node, ast.Constant):
            return node.value
        if isinstance(node, ast.Name):
            if hasattr(self.module, node.id):
                return getattr(self.module, node.id)
            if hasattr(builtins, node.id):
                return getattr(builtins, node.id)
            _no(node, "unresolvable name")
        if isinstance(node, ast.Attribute):
            base = self.resolve(node.value)
            if not inspect.ismodule(base) and not inspect.isclass(base):
                _no(node, "attribute of something that is neither module nor class")
            if not hasattr(base, node.attr):
                _no(node, "unresolvable attribute")
            return getattr(base, node.attr)
        _no(node, "not a constant expression")

    # ---- expressions
    def is_lit(self, node, env):
        return isinstance(node, ast.Name) and env.get(node.id) == "LIT"

    def is_typeof(self, node, env):
        if isinstance(node, ast.Name) and env.get(node.id) == "TYPEOF":
            return True
        return (isinstance(node, ast.Call) and isinstance(node.func, ast.Name) and node.func.id == "type"
                and "type" not in env and len(node.args) == 1 and not node.keywords and self.is_lit(node.args[0], env))

    def self_call(self, node, env):
        """`self.m(arg)` -> (m, arg) or None"""
        if (isinstance(node, ast.Call) and isinstance(node.func, ast.Attribute) and isinstance(node.func.value, ast.Name)
                and env.get(node.func.value.id) == "SELF" and len(node.args) == 1 and not node.keywords):
            return node.func.attr, node.args[0]
        return None

    def elt_fn(self, node, var, env):
        """the element expression of a comprehension / loop body: 'rec' (self.f(var)) or 'id' (var)"""
        if isinstance(node, ast.Name) and node.id == var:
            return "id"
        sc = self.self_call(node, env)
        if sc and sc[0] == self.fname and isinstance(sc[1], ast.Name) and sc[1].id == var:
            return "rec"
        _no(node, "element expression is neither the loop variable nor the recursive call on it")

    def one_gen(self, comp, env):
        if len(comp.generators) != 1:
            _no(comp, "nested comprehension")
        g = comp.generators[0]
        if g.ifs or g.is_async:
            _no(comp, "filtered / async comprehension")
        return g

    def items_of(self, node, env):
        """`LIT.items()`"""
        return (isinstance(node, ast.Call) and isinstance(node.func, ast.Attribute) and node.func.attr == "items"
                and not node.args and not node.keywords and self.is_lit(node.func.value, env))

    def value_expr(self, node, env, ty, depth=0):
        """the returned expression in a branch where type(LIT) is `ty` (None = unknown) -> action"""
        if self.is_lit(node, env):
            return ("id",)
        seq_types = (set, list, tuple, frozenset)
        # comprehensions over the items of a sequence container
        comp, out = None, None
        if isinstance(node, ast.ListComp):
            comp, out = node, "list"
        elif isinstance(node, ast.SetComp):
            comp, out = node, "set"
        elif (isinstance(node, ast.Call) and isinstance(node.func, ast.Name) and len(node.args) == 1 and not node.keywords
              and isinstance(node.args[0], (ast.GeneratorExp, ast.ListComp)) and node.func.id not in env):
            target = self.resolve(node.func)
            if target not in (set, list, tuple, frozenset):
                _no(node, "call of something other than set/list/tuple/frozenset around a generator")
            comp, out = node.args[0], CONTAINER_CTOR[target]
        if comp is not None:
            g = self.one_gen(comp, env)
            if ty not in seq_types or not self.is_lit(g.iter, env) or not isinstance(g.target, ast.Name):
                _no(node, "comprehension not over the items of a set/list/tuple literal")
            return ("map", out, self.elt_fn(comp.elt, g.target.id, env))
        if isinstance(node, ast.DictComp):
            g = self.one_gen(node, env)
            if (ty is not dict or not self.items_of(g.iter, env) or not isinstance(g.target, ast.Tuple) or len(g.target.elts) != 2
                    or not all(isinstance(e, ast.Name) for e in g.target.elts)):
                _no(node, "dict comprehension not over literal.items()")
            k, v = (e.id for e in g.target.elts)
            if not (isinstance(node.key, ast.Name) and node.key.id == k) or k == v:
                _no(node, "dict comprehension changes the keys")
            return ("mapvalues", self.elt_fn(node.value, v, env))
        sc = self.self_call(node, env)
        if sc:
            name, arg = sc
            if not self.is_lit(arg, env):
                _no(node, "method call on something other than the literal")
            if name in COLLABORATORS:
                if ty is not dict:
                    _no(node, "collaborator %s outside the dict branch" % name)
                return ("collab", COLLABORATORS[name])
            if name == self.fname:
                _no(node, "non-terminating self call")
            if depth < 3 and name in vars(self.cls):         # helper of the same class: inline
                h = _Fn(self.cls, name, self.module)
                return self.block(self._strip(h.node.body), {h.self_name: "SELF", h.lit: "LIT"}, ty, depth + 1)
        _no(node, "unsupported expression")

    # ---- statements
    def _strip(self, stmts):
        out = []
        for s in stmts:
            if isinstance(s, ast.Expr) and isinstance(s.value, ast.Constant) and isinstance(s.value.value, str):
                continue        # docstring
            if (isinstance(s, ast.Expr) and isinstance(s.value, ast.Call) and isinstance(s.value.func, ast.Attribute)
                    and isinstance(s.value.func.value, ast.Name) and s.value.func.value.id == "log"):
                continue
            if isinstance(s, ast.AnnAssign) and s.value is None:
                continue
            out.append(s)
        return out

    def type_test(self, test, env):
        """`type(LIT) is T` -> T or None"""
        if isinstance(test, ast.Compare) and len(test.ops) == 1 and isinstance(test.ops[0], ast.Is):
            a, b = test.left, test.comparators[0]
            if self.is_typeof(b, env):
                a, b = b, a
            if self.is_typeof(a, env):
                t = self.resolve(b)
                if t not in CONTAINER_CTOR:
                    _no(test, "type test against a type the model has no container for")
                return t
        return None

    def member_test(self, test, env):
        """`CONST in LIT` / `CONST not in LIT` / `not CONST in LIT` -> (key string, positive?) or None"""
        neg = False
        while isinstance(test, ast.UnaryOp) and isinstance(test.op, ast.Not):
            neg, test = not neg, test.operand
        if isinstance(test, ast.Compare) and len(test.ops) == 1 and isinstance(test.ops[0], (ast.In, ast.NotIn)):
            if not self.is_lit(test.comparators[0], env):
                return None
            key = self.resolve(test.left)
            if type(key) is not str:
                _no(test, "membership test with a key that is not a string constant")
            if isinstance(test.ops[0], ast.NotIn):
                neg = not neg
            return key, not neg
        return None

    def block(self, stmts, env, ty, depth=0):
        """a statement list that must end in return on every path -> action
        actions: ('id',) ('map', ctor, f) ('mapvalues', f) ('collab', name) ('haskey', key, then, else) ('types', {T: action}, default)"""
        stmts = self._strip(stmts)
        env = dict(env)
        if not stmts:
            _no(self.fn.node, "a path falls off the end of the function (returns None)")
        s, rest = stmts[0], stmts[1:]
        if isinstance(s, ast.Return):
            if s.value is None:
                _no(s, "bare return")
            return self.value_expr(s.value, env, ty, depth)
        if isinstance(s, ast.Assign) and len(s.targets) == 1 and isinstance(s.targets[0], ast.Name):
            name = s.targets[0].id
            if self.is_typeof(s.value, env):
                env[name] = "TYPEOF"
                return self.block(rest, env, ty, depth)
            # accumulator loop:  r = {} ; for k, v in LIT.items(): r[k] = f(v) ; return r
            if isinstance(s.value, ast.Dict) and not s.value.keys and ty is dict and len(rest) == 2:
                loop, ret = rest
                if (isinstance(loop, ast.For) and not loop.orelse and self.items_of(loop.iter, env) and isinstance(loop.target, ast.Tuple)
                        and len(loop.target.elts) == 2 and all(isinstance(e, ast.Name) for e in loop.target.elts)
                        and isinstance(ret, ast.Return) and isinstance(ret.value, ast.Name) and ret.value.id == name
                        and len(self._strip(loop.body)) == 1):
                    k, v = (e.id for e in loop.target.elts)
                    b = self._strip(loop.body)[0]
                    if (isinstance(b, ast.Assign) and len(b.targets) == 1 and isinstance(b.targets[0], ast.Subscript)
                            and isinstance(b.targets[0].value, ast.Name) and b.targets[0].value.id == name
                            and isinstance(b.targets[0].slice, ast.Name) and b.targets[0].slice.id == k and k != v
                            and name not in (k, v) and env.get(name) is None):
                        return ("mapvalues", self.elt_fn(b.value, v, env))
            # accumulator loop:  r = [] ; for x in LIT: r.append(f(x)) ; return r
            if isinstance(s.value, ast.List) and not s.value.elts and ty in (list, set, tuple, frozenset) and len(rest) == 2:
                loop, ret = rest
                if (isinstance(loop, ast.For) and not loop.orelse and self.is_lit(loop.iter, env) and isinstance(loop.target, ast.Name)
                        and isinstance(ret, ast.Return) and isinstance(ret.value, ast.Name) and ret.value.id == name
                        and len(self._strip(loop.body)) == 1 and env.get(name) is None and loop.target.id != name):
                    b = self._strip(loop.body)[0]
                    if (isinstance(b, ast.Expr) and isinstance(b.value, ast.Call) and isinstance(b.value.func, ast.Attribute)
                            and b.value.func.attr == "append" and isinstance(b.value.func.value, ast.Name)
                            and b.value.func.value.id == name and len(b.value.args) == 1 and not b.value.keywords):
                        return ("map", "list", self.elt_fn(b.value.args[0], loop.target.id, env))
            _no(s, "unsupported assignment")
        if isinstance(s, ast.If):
            # normal form: `if c: A` with A closed, followed by the rest  ==  if c: A else: rest
            other = list(s.orelse) + list(rest) if not self._closed(s.orelse) else list(s.orelse)
            if s.orelse and not self._closed(s.body):
                _no(s, "if/else whose first branch falls through")
            if not self._closed(s.body):
                _no(s, "if-branch that falls through")
            t = self.type_test(s.test, env)
            if t is not None:
                if ty is not None:
                    _no(s, "type test inside a branch where the type is known")
                then = self.block(s.body, env, t, depth)
                els = self.block(other, env, None, depth)
                if els[0] == "types":
                    if t in els[1]:
                        pass          # unreachable second test of the same type: the first wins
                    else:
                        els[1][t] = then
                    return els
                return ("types", {t: then}, els)
            m = self.member_test(s.test, env)
            if m is not None:
                if ty is not dict:
                    _no(s, "membership test outside the dict branch")
                key, positive = m
                a, b = self.block(s.body, env, ty, depth), self.block(other, env, ty, depth)
                return ("haskey", key, a, b) if positive else ("haskey", key, b, a)
            _no(s, "unsupported condition")
        _no(s, "unsupported statement")

    def _closed(self, stmts):
        stmts = self._strip(stmts)
        if not stmts:
            return False
        last = stmts[-1]
        if isinstance(last, (ast.Return, ast.Raise)):
            return True
        if isinstance(last, ast.If):
            return self._closed(last.body) and self._closed(last.orelse)
        return False

    def translate(self):
        act = self.block(self.fn.node.body, {self.fn.self_name: "SELF", self.fn.lit: "LIT"}, None)
        if act[0] != "types":
            act = ("types", {}, act)
        return act


# ---- Lean text
def _str_lit(s):
    return "[" + ", ".join(str(ord(c)) for c in s) + "]"


def _emit_branch(act, var, ctor):
    """Lean term of type Except Err Val for a container branch; `var` : Vals or Pairs, the payload of constructor `ctor`"""
    k = act[0]
    if k == "id":
        return ".ok (.%s %s)" % (ctor, var)
    if k == "map":
        if act[2] == "id":
            return ".ok (.%s %s)" % (act[1], var)
        return "do let ys ← recreateSrcItems dictToClass %s; .ok (.%s ys)" % (var, act[1])
    if k == "mapvalues":
        if act[1] == "id":
            return ".ok (.dict %s)" % var
        return "do let ys ← recreateSrcValues dictToClass %s; .ok (.dict ys)" % var
    if k == "collab":
        return "%s %s" % (act[1], var)
    if k == "haskey":
        return "if %s.hasKey (.str %s) then (%s) else (%s)" % (var, _str_lit(act[1]), _emit_branch(act[2], var, ctor),
                                                               _emit_branch(act[3], var, ctor))
    raise Untranslatable("no Lean form for action %r" % (act,))


def emit(act, origin):
    types, default = act[1], act[2]
    if default != ("id",):
        raise Untranslatable("the default path (no container type matches) is not `return literal`: %r" % (default,))
    arms = []
    for t in (set, list, tuple, frozenset, dict):          # disjoint constructors: the order of the tests is immaterial
        if t in types:
            ctor = CONTAINER_CTOR[t]
            var = "kvs" if t is dict else "xs"
            arms.append("  | .%s %s => %s" % (ctor, var, _emit_branch(types[t], var, ctor)))
    arms.append("  | v => .ok v")
    return """-- GENERATED by harness/props/c01_tr.py from %s -- do not edit
import PyroModel.Values
namespace Pyro.Gen.C01Src
open Pyro.Values

/-! shallow transcription of `recreate_classes`; `dictToClass` = the collaborator `self.dict_to_class` -/
mutual
def recreateSrc (dictToClass : Pairs → Except Err Val) : Val → Except Err Val
%s
def recreateSrcItems (dictToClass : Pairs → Except Err Val) : Vals → Except Err Vals
  | .nil => .ok .nil
  | .cons x xs => do
    let y ← recreateSrc dictToClass x
    let ys ← recreateSrcItems dictToClass xs
    .ok (.cons y ys)
def recreateSrcValues (dictToClass : Pairs → Except Err Val) : Pairs → Except Err Pairs
  | .nil => .ok .nil
  | .cons k v rest => do
    let v' ← recreateSrc dictToClass v
    let r ← recreateSrcValues dictToClass rest
    .ok (.cons k v' r)
end

/-- `serializer.loads(serializer.dumps(v))` with the transcription in the place of the model's `recreate`
    (the wire phases `enc` / `dec` are the model's; fixed text, not generated) -/
def resSrc (c : Cfg) (s : Ser) (v : Val) : Except Err Val :=
  match s with
  | .serpent => do
    let w ← enc .serpent true v
    let d ← dec .serpent false false w
    recreateSrc (dictToClass .serpent) d
  | .marshal => do
    let m ← marshalTop c.resListItems v
    let w ← enc .marshal true m
    let d ← dec .marshal false false w
    recreateSrc (dictToClass .marshal) d
  | .json => do
    let w ← enc .json true v
    let d ← dec .json false false w
    recreateSrc (dictToClass .json) d
  | .msgpack => do
    let w ← enc .msgpack true v
    let d ← dec .msgpack c.resExtHook c.resObjHook w
    if c.resRecreate then recreateSrc (dictToClass .msgpack) d else .ok d

end Pyro.Gen.C01Src
""" % (origin, "\n".join(arms))


def transcribe_recreate_classes():
    """Lean source of Gen/C01Src.lean from the current Pyro5.serializers; every serializer class must inherit the one function"""
    from Pyro5 import serializers
    base = serializers.SerializerBase
    for s in serializers.serializers.values():
        owner = next(c for c in type(s).__mro__ if "recreate_classes" in vars(c))
        if owner is not base:
            raise Untranslatable("%s overrides recreate_classes" % type(s).__name__)
    act = Translator(base, "recreate_classes", serializers).translate()
    return emit(act, "Pyro5/serializers.py SerializerBase.recreate_classes")
