"""C13 — every connection is cleaned up exactly once, however it ends."""
import ast
import json
import os

import common
import srvkit
from props import c08

ID = "C13"
LEAN_MODEL_TARGETS = ["drv_c08", "drv_c13close"]
LEAN_PROOF_TARGETS = ["PyroProps.C13", "PyroProps.C13Ast", "PyroProps.C13Src"]
AUDIT_FILES = ["PyroModel/Server.lean", "PyroModel/Gen/C13.lean", "PyroProps/C13.lean", "PyroModel/PyIR.lean", "PyroProps/C13Ast.lean",
               "PyroModel/Cleanup.lean", "PyroProps/C13Src.lean"]
THEOREMS = ["Pyro.C13.C13_once", "Pyro.C13.C13_closes_what_is_tracked", "Pyro.C13.C13_endings_close",
            "Pyro.C13.C13_idempotent_close", "Pyro.C13.C13_frame", "Pyro.C13.C13_daemon", "Pyro.C13.C13_gen_facts",
            # SocketConnection.close transcribed from the source on every run (py2ir.py): never raises, closes every tracked
            # resource exactly once whatever raises, leaves nothing behind; keep_open touches nothing; a second close closes nothing
            "Pyro.C13Ast.close_translated", "Pyro.C13Ast.close_keep_open", "Pyro.C13Ast.close_twice",
            # SocketServer_Multiplex.events transcribed on every run (props/c13_tr.py, shallow embedding over PyroModel/Cleanup.lean):
            # equal to the hand model for all rounds; a poll round with any number of ready sockets makes hook / unregister / close
            # exactly once for each connection that ended in it, in order, and for no other
            "Pyro.C13Src.C13_events_translated", "Pyro.C13Src.C13_round_cleanup", "Pyro.C13Src.C13_round_once",
            "Pyro.C13Src.C13_source_round_once"]
SUITES = ["cleanup", "rounds", "close"]
RULE = ("histories over 1-3 connections on the real thread-pool and multiplex transports (in-memory sockets): accepted handshake, "
        "0-5 requests that track / untrack resources, use a session-mode object, return, raise every exception class, then an "
        "ending (orderly eof at a boundary, cut at every kind of offset, garbage, timeout, security error, callback re-raise) "
        "while other connections stay open; a second sweep cuts one fixed request at EVERY byte offset; suite `rounds`: 2-4 "
        "connections delivered to the multiplex server in poll rounds of SEVERAL ready sockets in arbitrary order (ended ones not "
        "last, two ended together, the listening socket among them), compared with the same items one by one; non-trivial = an "
        "accepted connection that tracked >= 1 resource and ended; distinct = distinct model line x transport")
ASSUMPTIONS = ["garbage collection of weakly tracked resources is not exercised (the harness keeps them alive)",
               "a daemon shut down while connections are open is outside the property's list of endings"]
TRUSTED = ["harness/srvkit.py (in-memory sockets, fake selector/listener; real Daemon, real transports, real Pool)",
           "harness/py2ir.py + lean/PyroModel/PyIR.lean as the meaning of the fragment SocketConnection.close is written in "
           "(with contextlib.suppress(Exception), for over a collection, method calls that may raise); exercised on every run by "
           "suite `close`: the real method on fake sockets / resources vs the interpreter on the transcription (drv_c13close)",
           "harness/props/c13_tr.py (ast -> combinators of lean/PyroModel/Cleanup.lean, refuses what it does not know) and the "
           "meaning of those combinators; the transcription of events() is not run by a driver (drv_c13 is still a placeholder): "
           "it is tied by the proof C13_events_translated and the real events() by suite `rounds` against the sequential model"]


def extract():
    common.repo_on_path()
    from Pyro5 import svr_threads, svr_multiplex, socketutil

    def calls_in(stmts, cls=None, depth=0):
        """the cleanup calls made by these statements, in source order; a call of a method of the same class
        (`self._helper(...)`) counts as the calls that helper makes (so extracting a helper changes nothing)"""
        out = []
        helpers = {n.name: n for n in cls.body if isinstance(n, ast.FunctionDef)} if cls is not None else {}
        calls = []
        for st in stmts:
            for node in ast.walk(st):
                if isinstance(node, ast.Call) and isinstance(node.func, ast.Attribute):
                    calls.append(node)
        for node in sorted(calls, key=lambda n: (n.lineno, n.col_offset)):
            name = node.func.attr
            if name in ("_clientDisconnect", "close", "unregister"):
                out.append(name)
            elif name in helpers and isinstance(node.func.value, ast.Name) and node.func.value.id == "self" and depth < 3:
                out += calls_in(helpers[name].body, cls, depth + 1)
        return out
    t = ast.parse(open(svr_threads.__file__).read())
    cls = [n for n in t.body if isinstance(n, ast.ClassDef) and n.name == "ClientConnectionJob"][0]
    call = [n for n in cls.body if isinstance(n, ast.FunctionDef) and n.name == "__call__"][0]
    tries = [n for n in ast.walk(call) if isinstance(n, ast.Try) and n.finalbody]
    thread_finally = calls_in(tries[0].finalbody, cls) if tries else []
    m = ast.parse(open(svr_multiplex.__file__).read())
    cls = [n for n in m.body if isinstance(n, ast.ClassDef) and n.name == "SocketServer_Multiplex"][0]
    ev = [n for n in cls.body if isinstance(n, ast.FunctionDef) and n.name == "events"][0]
    inactive = []
    for node in ast.walk(ev):
        # `if not active:` / `elif not self.handleRequest(s):` - the branch taken for a connection that is no longer active
        if isinstance(node, ast.If) and isinstance(node.test, ast.UnaryOp) and isinstance(node.test.op, ast.Not) \
                and (getattr(node.test.operand, "id", "") == "active" or "handleRequest" in ast.unparse(node.test.operand)):
            found = calls_in(node.body, cls)
            if "_clientDisconnect" in found:
                inactive = found
    s = ast.parse(open(socketutil.__file__).read())
    cls = [n for n in s.body if isinstance(n, ast.ClassDef) and n.name == "SocketConnection"][0]
    close = [n for n in cls.body if isinstance(n, ast.FunctionDef) and n.name == "close"][0]
    # what close() does to the session instances and the tracked resources is no longer read from its text: the method is
    # transcribed below and PyroProps/C13Ast.lean proves it (close_translated); these three flags record that the
    # transcription exists (the extractor raises otherwise)
    clears_inst = clears_tracked = each = True
    b = lambda x: "true" if x else "false"
    # SocketConnection.close itself, transcribed statement by statement into the PyIR deep embedding
    import py2ir
    tr = py2ir.Tr(socketutil)
    close_ast = py2ir.wrap(tr.function("close", ["self"], owner=socketutil.SocketConnection))
    # SocketServer_Multiplex.events, transcribed by the per-property translator (shallow embedding over PyroModel/Cleanup.lean);
    # c13_tr.Untranslatable propagates: the runner reports the broken tie and searches for a failing input
    from props import c13_tr
    events_src = c13_tr.translate_events(svr_multiplex)
    return f"""-- GENERATED by harness/props/c13.py from Pyro5/svr_threads.py, svr_multiplex.py, socketutil.py — do not edit
import PyroModel.PyIR
import PyroModel.Cleanup
namespace Pyro.Gen.C13
open Pyro.Cleanup in
/-- `SocketServer_Multiplex.events(self, eventsockets)` as it is written now (harness/props/c13_tr.py) -/
def eventsSrc (hr : HookBehaviour) (eventsockets : List Ev) : Stmt :=
  {events_src}
/-- `SocketConnection.close(self)` as it is written now (harness/py2ir.py, one node per Python AST node) -/
def closeSrc : Pyro.PyIR.Stmt :=
  {close_ast}
/-- calls in the `finally:` of ClientConnectionJob.__call__, in order -/
def threadFinally : List String := {json.dumps(thread_finally)}
/-- calls in the `if not active:` branch of SocketServer_Multiplex.events, in order -/
def multiplexInactive : List String := {json.dumps(inactive)}
def closeClearsInstances : Bool := {b(clears_inst)}
def closeClearsTracked : Bool := {b(clears_tracked)}
def closeClosesEachTracked : Bool := {b(each)}
end Pyro.Gen.C13
"""


def localise(nconn, evs):
    """resource ids become per-connection (conn*10 + k) so that 'closed exactly once' is observable"""
    out = []
    for c, it in evs:
        if it[0] == "msg" and it[1]["body"][0] == "call" and it[1]["body"][1][0] == "method":
            m = dict(it[1])
            spec = dict(m["body"][1][1])
            for k in ("track", "untrack"):
                if k in spec:
                    spec[k] = [c * 10 + (r % 10) for r in spec[k]]
            m["body"] = ("call", ("method", spec))
            it = ("msg", m)
        out.append((c, it))
    return out


def gen_history(g, rng):
    nconn, evs = g.history()
    # bias towards accepted connections that do something and then end
    if rng.random() < 0.7:
        per = {}
        for c in range(nconn):
            items = [("msg", {"type": 1, "ser": rng.choice([1, 2, 3, 4]), "seq": rng.randint(0, 65535), "oneway": False,
                              "body": ("handshake", True, True, "accept")})]
            for _ in range(rng.choice([0, 1, 2, 3, 5])):
                ser = rng.choice([1, 2, 3, 4])
                ow = rng.random() < 0.1
                spec = g.method(ow)
                if rng.random() < 0.6:
                    spec["track"] = rng.sample(range(1, 7), rng.choice([1, 2, 3]))
                if rng.random() < 0.3:
                    spec["untrack"] = rng.sample(range(1, 7), rng.choice([1, 2]))
                if rng.random() < 0.3 and not spec.get("callback"):
                    spec["session"] = True
                if rng.random() < 0.2 and not ow and spec.get("out", "ret") == "ret":
                    spec["out"] = "stream"
                items.append(("msg", {"type": 4, "ser": ser, "seq": rng.randint(0, 65535), "oneway": ow,
                                      "body": ("call", ("method", spec))}))
            if rng.random() < 0.75:
                items.append(rng.choice([("cut", 0.0), ("cut", rng.random()), ("cut", 0.999), ("timeout",), ("timeout",),
                                         ("cut", 0.0, "reset"), ("cut", rng.random(), "reset"),
                                         ("garbage", rng.randrange(len(srvkit.GARBAGE))),
                                         ("msg", {"type": rng.choice([1, 2, 3, 5, 0, 77]), "ser": 2, "seq": 1, "oneway": False,
                                                  "body": ("undecodable",)})]))
            per[c] = items
        evs = []
        idx = {c: 0 for c in per}
        while any(idx[c] < len(per[c]) for c in per):
            c = rng.choice([c for c in per if idx[c] < len(per[c])])
            evs.append((c, per[c][idx[c]]))
            idx[c] += 1
    return nconn, localise(nconn, evs)


def model_line(m):
    out = []
    for part in m.split(" ; "):
        f = part.split("|")
        # phase|replies|execs|hook|close|resClosed|tracked|slot|session
        res = ",".join(sorted(f[5].split(","), key=lambda x: int(x))) if f[5] != "-" else "-"
        ntr = 0 if f[6] == "-" else len(f[6].split(","))
        out.append("%s|%s|%s|%d|%s|%d|%s|%s" % (f[0], f[2], f[3], min(int(f[4]), 1), res, ntr, f[7], f[8]))
    return " ; ".join(out)


def real_line(obs, res, servertype):
    out = []
    for c, o in enumerate(obs):
        if o is None:
            out.append("fresh|-|0|0|-|0|0|0")
            continue
        closed = o["sockclosed"] > 0
        first_ok = bool(o["replies"]) and o["replies"][0][0] == 2
        phase = "closed" if closed else ("active" if first_ok else "fresh")
        ex = ",".join(map(str, o["execs"])) or "-"
        mine = sorted(r for r in res if r // 10 == c for _ in range(res[r]))
        rc = ",".join(map(str, mine)) or "-"
        if servertype == "thread":
            slot = 1 if (o["job_done"] is False and first_ok) else 0
        else:
            slot = 1 if o["registered"] else 0
        out.append("%s|%s|%d|%d|%s|%d|%d|%d" % (phase, ex, o["hook"], 1 if closed else 0, rc, o["tracked_left"], slot,
                                                0 if o["session_empty"] else 1))
    return " ; ".join(out)


def _oracle_case(ctx, st, nconn, evs, obs, res, pool, case):
    """the property itself, from the real observations only"""
    for c, o in enumerate(obs):
        if o is None:
            continue
        accepted = bool(o["replies"]) and o["replies"][0][0] == 2
        closed = o["sockclosed"] > 0
        mine = {r: n for r, n in res.items() if r // 10 == c}
        # what is tracked at the end, from the executed tokens
        specs = {}
        for cc, it in evs:
            if cc == c and it[0] == "msg" and it[1]["body"][0] == "call" and it[1]["body"][1][0] == "method":
                specs[it[1]["body"][1][1]["token"]] = it[1]["body"][1][1]
        tracked = []
        # every method that ran for a request of THIS connection counts, also one that found no connection in its context
        for tok in [t for t in o.get("all_execs", o["execs"]) if t in specs]:
            sp = specs.get(tok, {})
            for r in sp.get("track", []):
                if r not in tracked:
                    tracked.append(r)
            for r in sp.get("untrack", []):
                if r in tracked:
                    tracked.remove(r)
        if closed:
            want_hook = 1 if accepted else 0
            if o["hook"] != want_hook:
                ctx.fail("hook-count:%s" % st, "%s server: connection %d (accepted=%s) ended with %d disconnect-hook calls"
                         % (st, c, accepted, o["hook"]), case)
            for r, n in mine.items():
                want = 1 if r in tracked else 0
                if n != want:
                    ctx.fail("resource-close-count:%s" % st, "%s server: resource %d of connection %d closed %d times (tracked at the end: %s)"
                             % (st, r, c, n, r in tracked), case)
            if not o["session_empty"] or o["tracked_left"]:
                ctx.fail("not-released:%s" % st, "%s server: closed connection %d still holds session instances / tracked resources" % (st, c), case)
            if (st == "thread" and o["job_done"] is False) or (st == "multiplex" and o["registered"]):
                ctx.fail("slot-not-released:%s" % st, "%s server: closed connection %d still occupies its worker / selector slot" % (st, c), case)
        else:
            if o["hook"] != 0 or any(n for n in mine.values()):
                ctx.fail("early-cleanup:%s" % st, "%s server: connection %d is still open but hook=%d, resource closes=%r"
                         % (st, c, o["hook"], mine), case)
    if pool is not None:
        still = sum(1 for o in obs if o is not None and o["sockclosed"] == 0 and o["replies"] and o["replies"][0][0] == 2)
        if pool[0] != still:
            ctx.fail("pool-accounting", "thread pool reports %d busy workers with %d open connections" % (pool[0], still), case)


def _run(ctx, name, n, do_model, sweep=True):
    rng = ctx.sub_rng(name)
    g = c08.Gen(rng)
    hists = [gen_history(g, rng) for _ in range(n)]
    if sweep:
        # one fixed request cut at EVERY byte offset (exhaustive per message), with a bystander holding a resource
        base = {"type": 4, "ser": 3, "seq": 9, "oneway": False, "body": ("call", ("method", {"token": 0}))}
        full = len(srvkit.render_msg(base))
        offsets = range(0, full) if ctx.tier == "thorough" else list(range(0, 44)) + list(range(44, full, 7))
        shake = ("msg", {"type": 1, "ser": 3, "seq": 1, "oneway": False, "body": ("handshake", True, True, "accept")})
        for k in offsets:
            t1 = {"token": 9001, "track": [1, 2]}
            t2 = {"token": 9002, "track": [11]}
            evs = [(0, shake), (1, shake),
                   (0, ("msg", {"type": 4, "ser": 3, "seq": 2, "oneway": False, "body": ("call", ("method", t1))})),
                   (1, ("msg", {"type": 4, "ser": 3, "seq": 2, "oneway": False, "body": ("call", ("method", t2))})),
                   (0, ("cut", k / full))]
            hists.append((2, evs))
    lines, reals, cases = [], [], []
    for nconn, evs in hists:
        for st in ("thread", "multiplex"):
            hook_raises = [c for c in range(nconn) if (len(evs) + c) % 3 == 0]     # some connections' disconnect hook raises
            linger = 0 if len(evs) % 2 == 0 else None          # item streams are dropped at once / linger after a disconnect
            # a server-side timeout exists only with COMMTIMEOUT set: then a silent peer is timed out by the timeout the server
            # put on the accepted socket (and by nothing else)
            ct = 0.5 if (any(it[0] == "timeout" for _, it in evs) or len(evs) % 3 == 1) else 0.0
            case = {"servertype": st, "nconn": nconn, "evs": evs, "hook_raises": hook_raises, "linger": linger, "commtimeout": ct}
            try:
                obs, res, pool = c08.run_real(st, nconn, evs, hook_raises, linger=linger, collect=True, commtimeout=ct)
            except srvkit.Stuck as x:
                ctx.fail("stuck:" + st, "the %s server got stuck: %r" % (st, x), case)
                continue
            except (OSError, RuntimeError, ValueError, KeyError, AttributeError, TypeError) as x:
                # nothing may escape the transport server's event handling: its loop would end, the connection that just ended would
                # never be cleaned up and no other connection would be served again
                ctx.fail("server-loop-raises:" + st, "the %s server's event handling raises %r: the ended connection is not cleaned up "
                         "and the request loop ends" % (st, x), case)
                continue
            except srvkit.Blocked as x:
                ctx.fail("no-server-timeout:" + st, "COMMTIMEOUT is %.1f but a silent peer is never timed out, so its connection is never "
                         "cleaned up and (multiplex) nothing else is served: %s" % (ct, x), case)
                continue
            ctx.evaluations += 1
            lines.append(c08.hist_line(nconn, evs))
            reals.append(real_line(obs, res, st))
            cases.append(case)
            _oracle_case(ctx, st, nconn, evs, obs, res, pool, case)
            if any(o is not None and o["sockclosed"] and o["replies"] and o["replies"][0][0] == 2 for o in obs) and res:
                ctx.nontriv(lines[-1] + st)
            ctx.count("closed-conns:%d" % sum(1 for o in obs if o is not None and o["sockclosed"]))
            if len(ctx.samples) < 4 and res and len(evs) > 4:
                ctx.sample({"servertype": st, "history": lines[-1], "observed": reals[-1]})
    if do_model and lines:
        outs = common.run_driver("drv_c08", lines)
        ctx.corr_cases += len(lines)
        for l, r, o, c in zip(lines, reals, outs, cases):
            m = model_line(o)
            if r != m:
                ctx.mismatch("cleanup", {"line": l, "servertype": c["servertype"], "case": c}, r, m)


# ---- poll rounds of the multiplex server: SEVERAL ready sockets handed to events() at once ------------------------
def gen_rounds(g, rng):
    """a history over 2-4 connections, delivered to the multiplex server in poll rounds: every round hands events() a list of
    SEVERAL ready sockets at once (connections with a request pending, connections that have just ended - not only in last
    position -, the listening socket with a new client waiting), in an arbitrary order.  Handled one after the other in list
    order, as events() does, a round is the same as its items delivered one by one: the flattened history is what the model
    and the oracle see."""
    nconn = rng.choice([2, 3, 3, 4])
    per = {}
    for c in range(nconn):
        items = [("msg", {"type": 1, "ser": rng.choice([1, 2, 3, 4]), "seq": rng.randint(0, 65535), "oneway": False,
                          "body": ("handshake", True, True, "accept") if rng.random() < 0.9 else ("handshake", True, True, "raises")})]
        for _ in range(rng.choice([0, 1, 1, 2, 3])):
            ser = rng.choice([1, 2, 3, 4])
            ow = rng.random() < 0.1
            spec = g.method(ow)
            if rng.random() < 0.6:
                spec["track"] = rng.sample(range(1, 7), rng.choice([1, 2, 3]))
            if rng.random() < 0.3:
                spec["untrack"] = rng.sample(range(1, 7), rng.choice([1, 2]))
            if rng.random() < 0.3 and not spec.get("callback"):
                spec["session"] = True
            items.append(("msg", {"type": 4, "ser": ser, "seq": rng.randint(0, 65535), "oneway": ow,
                                  "body": ("call", ("method", spec))}))
        if rng.random() < 0.8:
            items.append(rng.choice([("cut", 0.0), ("cut", rng.random()), ("cut", 0.999), ("timeout",),
                                     ("cut", 0.0, "reset"), ("cut", rng.random(), "reset"),
                                     ("garbage", rng.randrange(len(srvkit.GARBAGE))),
                                     ("msg", {"type": rng.choice([1, 2, 3, 5, 0, 77]), "ser": 2, "seq": 1, "oneway": False,
                                              "body": ("undecodable",)})]))
        per[c] = items
    idx = {c: 0 for c in per}
    rounds = []
    while any(idx[c] < len(per[c]) for c in per):
        live = [c for c in per if idx[c] < len(per[c])]
        k = len(live) if rng.random() < 0.6 else rng.randint(1, len(live))
        chosen = rng.sample(live, k)
        rnd, new_seen = [], False
        for c in chosen:
            if idx[c] == 0:
                if new_seen:
                    continue        # the listening socket is reported once per round and accept() takes one client
                new_seen = True
            rnd.append((c, per[c][idx[c]]))
            idx[c] += 1
        rounds.append(rnd)
    rounds = [localise(nconn, r) for r in rounds]
    return nconn, rounds


def run_rounds(nconn, rounds, hook_raises=(), linger=None, commtimeout=0.0, collect=True):
    """the real multiplex server, its events() called once per round with all the round's ready sockets"""
    rig = srvkit.Rig("multiplex", linger=linger, commtimeout=commtimeout)
    rig.hook_raises = set(hook_raises)
    try:
        srv = rig.daemon.transportServer
        for rnd in rounds:
            ready, fed = [], []
            for c, it in rnd:
                while len(rig.socks) <= c:
                    rig.socks.append(srvkit.FakeSock(len(rig.socks)))
                    rig.socks[-1].strict_timeout = bool(rig.commtimeout)
                s = rig.socks[c]
                first = c not in rig.started
                if not first and rig._mux_conn(c) is None:
                    continue                    # that connection is gone already: nothing reports its socket as ready
                data, ending = c08.item_bytes(it, first=first)
                s.peername_fails = (ending == "reset")
                s.feed(data)
                if ending:
                    s.end(ending)
                if first:
                    rig.started[c] = True
                    rig.listener.queue.append(s)
                    ready.append(rig.listener)
                else:
                    ready.append(rig._mux_conn(c))
                fed.append(c)
            srv.sock = rig.listener
            try:
                srv.events(ready)
                # bytes still buffered behind the message that was handled (pipelined data): signalled again, one at a time
                for c in fed:
                    guard = 0
                    while rig._mux_conn(c) is not None and rig.socks[c].inbound:
                        srv.events([rig._mux_conn(c)])
                        guard += 1
                        if guard > 1000:
                            raise srvkit.Stuck("multiplex events loop")
            finally:
                srv.sock = rig.real_sock
            rig._wait_oneway()
        obs = [rig.observe(c) if c in rig.started else None for c in range(nconn)]
        for o in obs:
            if o is not None:
                o["all_execs"] = [t for _, t in rig.execs]
        if collect:
            rig.collect_garbage()
        res = {r: rig.resources[r].closes for r in rig.resources}
        return obs, res, rig.pool_accounting()
    finally:
        rig.close()


def _guarded(ctx, st, case, fn):
    """run the real server; what escapes it is a failure of the property (see _run)"""
    try:
        return fn()
    except srvkit.Stuck as x:
        ctx.fail("stuck:" + st, "the %s server got stuck: %r" % (st, x), case)
    except (OSError, RuntimeError, ValueError, KeyError, AttributeError, TypeError) as x:
        ctx.fail("server-loop-raises:" + st, "the %s server's event handling raises %r: the ended connection is not cleaned up "
                 "and the request loop ends" % (st, x), case)
    except srvkit.Blocked as x:
        ctx.fail("no-server-timeout:" + st, "COMMTIMEOUT is %.1f but a silent peer is never timed out, so its connection is never "
                 "cleaned up and (multiplex) nothing else is served: %s" % (case.get("commtimeout", 0.0), x), case)
    return None


def _run_rounds(ctx, name, n, do_model):
    rng = ctx.sub_rng(name)
    g = c08.Gen(rng)
    lines, reals, cases = [], [], []
    st = "multiplex"
    for i in range(n):
        nconn, rounds = gen_rounds(g, rng)
        evs = [e for r in rounds for e in r]
        hook_raises = [c for c in range(nconn) if (len(evs) + c) % 3 == 0]
        linger = 0 if len(evs) % 2 == 0 else None
        ct = 0.5 if (any(it[0] == "timeout" for _, it in evs) or len(evs) % 3 == 1) else 0.0
        case = {"servertype": st, "nconn": nconn, "evs": evs, "rounds": rounds, "hook_raises": hook_raises, "linger": linger,
                "commtimeout": ct}
        got = _guarded(ctx, st, case, lambda: run_rounds(nconn, rounds, hook_raises, linger=linger, commtimeout=ct))
        if got is None:
            continue
        obs, res, pool = got
        ctx.evaluations += 1
        lines.append(c08.hist_line(nconn, evs))
        reals.append(real_line(obs, res, st))
        cases.append(case)
        _oracle_case(ctx, st, nconn, evs, obs, res, pool, case)
        # non-trivial: a round in which a connection ended and was NOT the last ready socket of that round
        big = max(len(r) for r in rounds)
        ctx.count("round-size:%d" % big)
        if any(o is not None and o["sockclosed"] and o["replies"] and o["replies"][0][0] == 2 for o in obs) and big >= 2:
            ctx.nontriv(lines[-1] + "rounds")
    if do_model and lines:
        outs = common.run_driver("drv_c08", lines)
        ctx.corr_cases += len(lines)
        for l, r, o, c in zip(lines, reals, outs, cases):
            m = model_line(o)
            if r != m:
                ctx.mismatch("rounds", {"line": l, "servertype": st, "case": c}, r, m)


# ---- SocketConnection.close on its own: the real method vs the PyIR interpreter on its transcription ------------
def _close_suite(ctx, n):
    from Pyro5 import socketutil
    rng = ctx.sub_rng("close")
    lines, reals = [], []
    for _ in range(n):
        keep = rng.random() < 0.15
        ids = rng.sample(range(1, 40), rng.choice([0, 0, 1, 2, 3, 5, 8]))
        raising = [i for i in ids if rng.random() < 0.3]
        ninst = rng.choice([0, 1, 3])
        sr, cr = rng.random() < 0.3, rng.random() < 0.3
        log = []

        class Sock:
            def shutdown(self, how):
                log.append("S")
                if sr:
                    raise OSError("shutdown fails")

            def close(self):
                log.append("C")
                if cr:
                    raise OSError("close fails")

        class Res:
            def __init__(self, i):
                self.i = i

            def close(self):
                log.append(self.i)
                if self.i in raising:
                    raise RuntimeError("resource %d fails to close" % self.i)

            def __len__(self):
                return self.i % 2
        conn = socketutil.SocketConnection(Sock(), "obj", keep_open=keep)
        objs = [Res(i) for i in ids]
        for o in objs:
            conn.tracked_resources.add(o)
        conn.pyroInstances = {k: object() for k in range(ninst)}
        try:
            r = conn.close()
            outcome = "returned" if keep else "normal"        # (Python cannot tell `return` from falling off the end)
        except BaseException as x:
            outcome = "raised"
        ctx.evaluations += 1
        ctx.count("close:" + outcome)
        # the set iterates in its own order: compare the socket calls in order and the resource closes as a sorted list
        canon = lambda l: ",".join([str(x) for x in l if x in ("S", "C")] + [str(x) for x in sorted(y for y in l if y not in ("S", "C"))]) or "-"
        reals.append("%s | %s | %d | %d" % (outcome, canon(log), len(conn.tracked_resources), len(conn.pyroInstances)))
        lines.append("close %d %s %d %s %d %d" % (keep, ",".join(map(str, ids)) or "-", ninst, ",".join(map(str, raising)) or "-", sr, cr))
        # ---- D: the property itself on the real method
        case = {"kind": "close", "line": lines[-1]}
        if outcome == "raised":
            ctx.fail("close-raises", "SocketConnection.close() raised; %s" % lines[-1], case)
        if not keep:
            closes = sorted(x for x in log if x not in ("S", "C"))
            if closes != sorted(ids):
                ctx.fail("close-not-once", "close() called close() on resources %r, tracked were %r" % (closes, sorted(ids)), case)
            if len(conn.tracked_resources) or len(conn.pyroInstances):
                ctx.fail("close-leaves-state", "after close() the connection still holds %d tracked resources / %d session instances"
                         % (len(conn.tracked_resources), len(conn.pyroInstances)), case)
            before = len(log)
            conn.close()
            if [x for x in log[before:] if x not in ("S", "C")]:
                ctx.fail("close-twice-closes-again", "a second close() closed resources again: %r" % log[before:], case)
        if len(ids) >= 2 and raising:
            ctx.nontriv(lines[-1])
        conn.keep_open = True       # __del__ calls close() again: nothing more to observe
    outs = common.run_driver("drv_c13close", lines)
    ctx.corr_cases += len(lines)
    for l, r, o in zip(lines, reals, outs):
        f = o.split(" | ")
        if len(f) == 4:
            parts = f[1].split(",") if f[1] != "-" else []
            f[1] = ",".join([x for x in parts if x in ("S", "C")] + [str(x) for x in sorted(int(y) for y in parts if y not in ("S", "C"))]) or "-"
            o = " | ".join(f)
        if r != o:
            ctx.mismatch("close", {"line": l}, r, o)


def correspondence(ctx):
    _run(ctx, "hist", ctx.n(90, 1200), True)
    _run_rounds(ctx, "rounds", ctx.n(120, 2000), True)
    _close_suite(ctx, ctx.n(400, 20000))


def oracle(ctx):
    if ctx.search_mode:
        _run(ctx, "search", ctx.n(200, 3000), False)
        _run_rounds(ctx, "search-rounds", ctx.n(300, 4000), False)


def replay(ctx, case):
    f = case.get("failing_input") or {}
    c = f.get("case") or {}
    if "evs" not in c:
        print(json.dumps(case.get("no_longer_checks")))
        return 1
    evs = [(e[0], c08._untuple(e[1])) for e in c["evs"]]
    try:
        if c.get("rounds"):
            rounds = [[(e[0], c08._untuple(e[1])) for e in r] for r in c["rounds"]]
            print("poll rounds (connections ready together):", [[e[0] for e in r] for r in rounds])
            obs, res, pool = run_rounds(c["nconn"], rounds, c.get("hook_raises", ()), linger=c.get("linger"),
                                        commtimeout=c.get("commtimeout", 0.0))
        else:
            obs, res, pool = c08.run_real(c["servertype"], c["nconn"], evs, c.get("hook_raises", ()), linger=c.get("linger"), collect=True,
                                      commtimeout=c.get("commtimeout", 0.0))
    except srvkit.Blocked as x:
        print("history:", c08.hist_line(c["nconn"], evs))
        print("   a silent peer is never timed out:", x)
        print("VIOLATION reproduced")
        return 1
    except (OSError, RuntimeError, ValueError, KeyError, AttributeError, TypeError) as x:
        print("history:", c08.hist_line(c["nconn"], evs))
        print("   the server's event handling raises %r" % (x,))
        print("VIOLATION reproduced")
        return 1
    print("history:", c08.hist_line(c["nconn"], evs))
    print("observed:", real_line(obs, res, c["servertype"]))
    before = len(ctx.failures)
    _oracle_case(ctx, c["servertype"], c["nconn"], evs, obs, res, pool, c)
    bad = len(ctx.failures) > before
    for fl in ctx.failures[before:]:
        print("  ", fl["desc"])
    print("VIOLATION reproduced" if bad else "not reproduced")
    return 1 if bad else 0
