"""C11 extractor: facts about the batch machinery of the CURRENT source of common.REPO -> lean/PyroModel/Gen/C11.lean

All facts are BEHAVIOURAL probes of the real objects, taken at extraction time (nothing is read from the source
text, so renamed locals / private helpers, docstrings, type hints, equivalent control flow do not matter):

  serverProbes     the real Daemon.handleRequest, called synchronously on one end of a socketpair with a real INVOKE
                   message (FLAGS_BATCH, with and without FLAGS_ONEWAY) for a fixed table of call lists against a small
                   probe object: how many calls had been executed when handleRequest returned, and what came back on the
                   wire (result list with wrappers / exception response / nothing; FLAGS_BATCH on the reply)
  singleProbes     the same for plain single calls (same gate, same serialize-or-fallback of a raised exception)
  generatorProbes  a real client.BatchProxy on top of a scripted stand-in for the Proxy: what the caller gets out of the
                   object returned by batch() for a fixed table of result lists (values, wrappers, exception objects as values)
  clientFacts      BatchProxy / _BatchedRemoteMethod / Proxy._pyroInvokeBatch / _ExceptionWrapper.raiseIt observed from outside
  dumpsCallNoKwargs, wrapperInReplyList   per serializer (executed)

PyroProps/C11.lean proves (by `decide`) that the MODEL gives exactly the observed outcome on every probe
(`probeObj` there is the model of class Probe here).  Encoding of outcomes: see `_reply_tokens`.
"""
import json
import os
import shutil
import socket
import tempfile

import common

# ---- the probe object and the ids shared with PyroProps/C11.lean (probeObj) -----------------------------------------
P_NAMES = ["ok", "boom", "unsend", "hidden", "_private", "nosuch"]
E_PRIVATE, E_MISSING, E_UNEXPOSED, E_FALLBACK, E_UNKNOWN = 101, 102, 103, 900, 999
SERVER_SCENARIOS = [
    (False, []),
    (False, [(0, 1), (0, 2), (0, 3)]),
    (False, [(0, 1), (1, 7), (0, 3)]),
    (False, [(1, 7), (0, 1)]),
    (False, [(0, 1), (3, 0), (0, 3)]),
    (False, [(0, 1), (0, 2), (4, 0), (0, 3)]),
    (False, [(5, 0), (0, 1)]),
    (False, [(0, 1), (2, 0), (0, 2)]),
    (True, []),
    (True, [(0, 1), (0, 2), (0, 3)]),
    (True, [(0, 1), (1, 7), (0, 3)]),
    (True, [(0, 1), (3, 0), (0, 3)]),
]
SINGLE_SCENARIOS = [(0, 5), (1, 7), (2, 0), (3, 0), (4, 0), (5, 0)]
# result lists handed to the client side: even token 2v = plain value v, odd token 2e+1 = wrapper of exception e
GENERATOR_SCENARIOS = [
    [],
    [2, 4, 6],
    [2, 15, 6],
    [15],
    [2, 4, 19],
    [2, 100, 4],          # value 50 is an exception OBJECT returned as a value: must be yielded, not raised
    [102, 15],            # value 51 likewise, then a real wrapper
    [104, 106, 2],        # None, []
]


def _make_probe_class():
    common.repo_on_path()
    from Pyro5 import server

    class Probe(object):
        def __init__(self):
            self.n = 0
            self.opaque = object()

        @server.expose
        def ok(self, x):
            self.n += 1
            return x

        @server.expose
        def boom(self, x):
            self.n += 1
            raise ValueError(x)

        @server.expose
        def unsend(self, x):
            self.n += 1
            raise KeyError(self.opaque)        # this instance cannot be serialised

        def hidden(self, x):                   # public, not exposed
            self.n += 1
            return x

        def _private(self, x):
            self.n += 1
            return x
    return Probe


def _exc_token(e):
    msg = str(e)
    if isinstance(e, AttributeError):
        if msg.startswith("attempt to access private attribute"):
            return E_PRIVATE
        if msg.startswith("attempt to access unexposed attribute"):
            return E_UNEXPOSED
        if "nosuch" in msg:
            return E_MISSING
    if type(e) is ValueError and len(e.args) == 1 and isinstance(e.args[0], int) and 0 <= e.args[0] < 100:
        return e.args[0]
    if type(e).__name__ == "PyroError" and msg.startswith("Error serializing exception") and "KeyError" in msg:
        return E_FALLBACK
    return E_UNKNOWN


def _reply_tokens(protocol, core, ser, msg, batch):
    """[] nothing sent | [0, e] exception response | [1, items…] result list WITH FLAGS_BATCH | [3, items…] result list
    without it | [2, v] plain value | [9] anything else"""
    if msg is None:
        return []
    if msg.type != protocol.MSG_RESULT:
        return [9]
    data = ser.loads(msg.data)
    if msg.flags & protocol.FLAGS_EXCEPTION:
        return [0, _exc_token(data)] if isinstance(data, BaseException) else [9]
    if batch:
        if not isinstance(data, list):
            return [9]
        toks = [1 if msg.flags & protocol.FLAGS_BATCH else 3]
        for it in data:
            if isinstance(it, core._ExceptionWrapper):
                toks.append(2 * _exc_token(it.exception) + 1)
            elif isinstance(it, int) and not isinstance(it, bool) and 0 <= it < 100:
                toks.append(2 * it)
            else:
                return [9]
        return toks
    if isinstance(data, int) and not isinstance(data, bool) and 0 <= data < 100:
        return [2, data]
    return [9]


def server_probes():
    """-> (batch probes [(oneway, calls, executed, tokens)], single probes [((n, a), executed, tokens)])"""
    common.repo_on_path()
    from Pyro5 import server, protocol, serializers, socketutil, core
    Probe = _make_probe_class()
    tmp = tempfile.mkdtemp(prefix="c11x-", dir="/tmp")
    ser = serializers.serializers["serpent"]
    d = server.Daemon(unixsocket=os.path.join(tmp, "d.sock"))
    obj = Probe()
    d.register(obj, "probe")

    def request(flags, method, vargs, kwargs, batch):
        obj.n = 0
        a, b = socket.socketpair()
        try:
            conn = socketutil.SocketConnection(a, "probe")
            peer = socketutil.SocketConnection(b)
            req = protocol.SendingMessage(protocol.MSG_INVOKE, flags, 7, ser.serializer_id,
                                          ser.dumpsCall("probe", method, vargs, kwargs))
            b.sendall(req.data)
            try:
                d.handleRequest(conn)
            except Exception:
                return obj.n, [9]
            executed = obj.n           # at the moment handleRequest returned (a oneway batch runs in-line)
            b.settimeout(0.0)
            try:
                waiting = b.recv(1, socket.MSG_PEEK)
            except (BlockingIOError, socket.timeout, OSError):
                waiting = b""
            msg = None
            if waiting:
                b.settimeout(10.0)
                msg = protocol.recv_stub(peer, None)
                if msg.seq != 7:
                    return executed, [9]
            return executed, _reply_tokens(protocol, core, ser, msg, batch)
        finally:
            a.close()
            b.close()

    try:
        batches = []
        for oneway, calls in SERVER_SCENARIOS:
            flags = protocol.FLAGS_BATCH | (protocol.FLAGS_ONEWAY if oneway else 0)
            wire_calls = [(P_NAMES[n], (x,), {}) for n, x in calls]
            executed, toks = request(flags, "<batch>", wire_calls, {}, True)
            batches.append((oneway, calls, executed, toks))
        singles = []
        for n, x in SINGLE_SCENARIOS:
            executed, toks = request(0, P_NAMES[n], (x,), {}, False)
            singles.append(((n, x), executed, toks))
        return batches, singles
    finally:
        try:
            d.close()
        except Exception:
            pass
        shutil.rmtree(tmp, ignore_errors=True)


def client_probes():
    """-> (generator probes [(items, yielded, raised|None)], facts [(name, bool)])"""
    common.repo_on_path()
    from Pyro5 import client, core, protocol, errors
    values = {50: ValueError("returned, not raised"), 51: errors.NamingError("returned, not raised"), 52: None, 53: []}

    def to_item(tok):
        if tok % 2:
            return core._ExceptionWrapper(ValueError(tok // 2))
        v = tok // 2
        return values[v] if v in values else v

    def value_id(v):
        for k, obj in values.items():
            if v is obj:
                return k
        if isinstance(v, int) and not isinstance(v, bool) and 0 <= v < 50:
            return v
        return 98

    class FakeProxy(object):
        """stands where the real Proxy stands behind a BatchProxy: records what is submitted, answers from a script"""
        def __init__(self, answer):
            self.answer, self.submits = answer, []

        def _pyroClaimOwnership(self):
            pass

        def _pyroInvokeBatch(self, calls, oneway=False):
            self.submits.append((list(calls), bool(oneway)))
            return None if oneway else self.answer

    gens = []
    for toks in GENERATOR_SCENARIOS:
        fp = FakeProxy([to_item(t) for t in toks])
        bp = client.BatchProxy(fp)
        for _ in toks:
            bp.anything(0)
        yielded, raised = [], None
        try:
            for v in bp():
                yielded.append(value_id(v))
        except Exception as e:      # noqa
            raised = _exc_token(e)
        gens.append((toks, yielded, raised))

    facts = []
    # collection and submission
    fp = FakeProxy([1, 2, 3])
    bp = client.BatchProxy(fp)
    bp.first(1)
    bp.second(2, 3, k=4)
    bp.third.sub()
    r = bp()
    facts.append(("calls-forwarded-in-call-order-with-args-and-kwargs",
                  len(fp.submits) == 1 and [tuple(c) for c in fp.submits[0][0]][:2] == [("first", (1,), {}), ("second", (2, 3), {"k": 4})]))
    facts.append(("dotted-name-forwarded-as-one-name", len(fp.submits) == 1 and len(fp.submits[0][0]) == 3
                  and tuple(fp.submits[0][0][2]) == ("third.sub", (), {})))
    facts.append(("normal-submit-is-not-oneway-and-returns-the-results", len(fp.submits) == 1 and fp.submits[0][1] is False
                  and r is not None and list(r) == [1, 2, 3]))
    bp()
    facts.append(("one-submit-per-call-and-list-cleared-after-submit", len(fp.submits) == 2 and fp.submits[1][0] == []))
    fp = FakeProxy([1])
    bp = client.BatchProxy(fp)
    bp.first(1)
    r = bp(oneway=True)
    facts.append(("oneway-forwarded-and-returns-None", r is None and fp.submits == [([("first", (1,), {})], True)]))
    # Proxy._pyroInvokeBatch: one "<batch>" request carrying the calls, FLAGS_BATCH, FLAGS_ONEWAY iff oneway
    sent = []

    class RecordingProxy(client.Proxy):
        def _pyroInvoke(self, methodname, vargs, kwargs, flags=0, objectId=None):
            sent.append((methodname, vargs, kwargs, flags))
            return "reply"

    rp = RecordingProxy("PYRO:probe@localhost:1")
    calls = [("first", (1,), {})]
    back = rp._pyroInvokeBatch(calls)
    rp._pyroInvokeBatch(calls, True)
    ok = len(sent) == 2
    facts.append(("invokeBatch-sends-one-<batch>-request-with-the-calls-and-hands-back-the-reply",
                  ok and back == "reply" and all(s[0] == "<batch>" and list(s[1]) == calls and not s[2] for s in sent)))
    facts.append(("invokeBatch-flags-batch-and-oneway-iff-oneway",
                  ok and sent[0][3] == protocol.FLAGS_BATCH and sent[1][3] == protocol.FLAGS_BATCH | protocol.FLAGS_ONEWAY))
    # _ExceptionWrapper.raiseIt raises the wrapped object itself
    e = ValueError("the one")
    try:
        core._ExceptionWrapper(e).raiseIt()
        same = False
    except Exception as x:      # noqa
        same = x is e
    facts.append(("raiseIt-raises-the-wrapped-exception-object", same))
    return gens, facts


def dumps_call_probe():
    """does serializer.dumpsCall(obj, '<batch>', calls, None) succeed and load back, per serializer (import + execution)"""
    common.repo_on_path()
    from Pyro5 import serializers
    out = []
    for name in sorted(serializers.serializers):
        ser = serializers.serializers[name]
        ok = True
        try:
            blob = ser.dumpsCall("obj", "<batch>", [("m", (1,), {"k": 2})], None)
            obj, method, vargs, kwargs = ser.loadsCall(blob)
            ok = obj == "obj" and method == "<batch>" and len(vargs) == 1 and not kwargs
        except Exception:
            ok = False
        out.append((name, ok))
    return out


def wrapper_probe():
    """does a reply list holding an exception wrapper survive serializer.dumps / loads, per serializer (import + execution)"""
    common.repo_on_path()
    from Pyro5 import serializers, core
    out = []
    for name in sorted(serializers.serializers):
        ser = serializers.serializers[name]
        try:
            back = ser.loads(ser.dumps([1, core._ExceptionWrapper(ValueError("x"))]))
            w = back[1]
            ok = len(back) == 2 and back[0] == 1 and isinstance(w, core._ExceptionWrapper) \
                and type(w.exception) is ValueError and tuple(w.exception.args) == ("x",)
        except Exception:
            ok = False
        out.append((name, ok))
    return out


def _b(x):
    return "true" if x else "false"


def _nats(xs):
    return "[" + ", ".join(str(x) for x in xs) + "]"


def _pairs(ps):
    return "[" + ", ".join("(%d, %d)" % (a, b) for a, b in ps) + "]"


def extract():
    common.repo_on_path()
    batches, singles = server_probes()
    gens, facts = client_probes()
    probe, wprobe = dumps_call_probe(), wrapper_probe()
    sp = ",\n  ".join("(%s, %s, %d, %s)" % (_b(ow), _pairs(cs), ex, _nats(t)) for ow, cs, ex, t in batches)
    si = ",\n  ".join("((%d, %d), %d, %s)" % (c[0], c[1], ex, _nats(t)) for c, ex, t in singles)
    ge = ",\n  ".join("(%s, %s, %s)" % (_nats(t), _nats(y), "none" if r is None else "some %d" % r) for t, y, r in gens)
    fa = ",\n  ".join("(%s, %s)" % (json.dumps(n), _b(ok)) for n, ok in facts)
    from props import c11_tr
    src = c11_tr.translate()      # raises Untranslatable (-> "extractor" is reported broken) when the source left the fragment
    return f"""-- GENERATED by harness/props/c11_extract.py by probing the real Pyro5.server / client / core / serializers of the checked tree
-- and (section "transcribed") by harness/props/c11_tr.py from the AST of the checked tree — do not edit
import PyroModel.Batch
namespace Pyro.Gen.C11
open Pyro.Batch
/-- observed on the real Daemon.handleRequest (FLAGS_BATCH): (oneway, calls as (name id, argument), calls executed when
    handleRequest returned, reply: [] nothing | 0,e exception response | 1,items result list with FLAGS_BATCH (2v value, 2e+1 wrapper)) -/
def serverProbes : List (Bool × List (Nat × Nat) × Nat × List Nat) := [
  {sp}]
/-- observed on the real Daemon.handleRequest, plain single calls: (call, executed, reply: 2,v value | 0,e exception response) -/
def singleProbes : List ((Nat × Nat) × Nat × List Nat) := [
  {si}]
/-- observed on a real BatchProxy over a scripted proxy: (result list handed to the client, values yielded, exception raised) -/
def generatorProbes : List (List Nat × List Nat × Option Nat) := [
  {ge}]
/-- observed behaviour of BatchProxy / _BatchedRemoteMethod / Proxy._pyroInvokeBatch / _ExceptionWrapper.raiseIt -/
def clientFacts : List (String × Bool) := [
  {fa}]
/-- per serializer (sorted by name): dumpsCall(obj, "<batch>", calls, None) succeeds and loads back -/
def dumpsCallNoKwargs : List (String × Bool) := [{", ".join('(%s, %s)' % (json.dumps(n), _b(ok)) for n, ok in probe)}]
/-- per serializer (sorted by name): loads(dumps([1, _ExceptionWrapper(ValueError("x"))])) gives the list with the wrapper back -/
def wrapperInReplyList : List (String × Bool) := [{", ".join('(%s, %s)' % (json.dumps(n), _b(ok)) for n, ok in wprobe)}]

/-! ### transcribed from the source (harness/props/c11_tr.py) -/
set_option linter.unusedVariables false
{src}
end Pyro.Gen.C11
"""
