"""C11 extractor: source facts of the batch machinery -> lean/PyroModel/Gen/C11.lean

Everything is read from the CURRENT source of common.REPO (import + ast).  The walk is deliberately
conservative: a statement the walker does not recognise becomes an `other:<NodeType>` token, which no
obligation in PyroProps/C11.lean accepts.
"""
import ast
import json
import os

import common


def _name(node):
    """dotted name of a Name/Attribute chain, '' otherwise"""
    if isinstance(node, ast.Name):
        return node.id
    if isinstance(node, ast.Attribute):
        b = _name(node.value)
        return (b + "." if b else "") + node.attr
    return ""


def _find_func(tree, cls, fn):
    for n in tree.body:
        if cls is None and isinstance(n, ast.FunctionDef) and n.name == fn:
            return n
        if isinstance(n, ast.ClassDef) and n.name == cls:
            for m in n.body:
                if isinstance(m, ast.FunctionDef) and m.name == fn:
                    return m
    raise ValueError("source shape not recognised: %s.%s not found" % (cls, fn))


def _is_flag_test(test, var, flag):
    """`<var> & protocol.<flag>`"""
    return (isinstance(test, ast.BinOp) and isinstance(test.op, ast.BitAnd)
            and _name(test.left) == var and _name(test.right).endswith(flag))


def _server_tokens(stmts):
    out = []
    for st in stmts:
        if isinstance(st, ast.Assign) and isinstance(st.value, ast.Call) and _name(st.value.func).endswith("_get_attribute"):
            out.append("gate:" + _name(st.value.func).split(".")[-1])
        elif isinstance(st, ast.Assign) and isinstance(st.value, ast.Call) and _name(st.value.func) == "method" \
                and any(isinstance(a, ast.Starred) for a in st.value.args) and any(k.arg is None for k in st.value.keywords):
            out.append("call")
        elif isinstance(st, ast.Assign) and len(st.targets) == 1 and _name(st.targets[0]).endswith("._pyroTraceback"):
            out.append("set-traceback")
        elif isinstance(st, ast.Assign) and isinstance(st.value, ast.Call) and _name(st.value.func).endswith("format_traceback"):
            out.append("format-traceback")
        elif isinstance(st, ast.Assign) and isinstance(st.value, ast.Call) and _name(st.value.func).endswith("_serializeException"):
            out.append("serialize-or-fallback")
        elif isinstance(st, ast.Expr) and isinstance(st.value, ast.Call) and _name(st.value.func) == "data.append":
            a = st.value.args[0]
            if isinstance(a, ast.Call) and _name(a.func).endswith("_ExceptionWrapper"):
                out.append("append:wrapper")
            elif isinstance(a, ast.Name):
                out.append("append:" + a.id)
            else:
                out.append("append:?")
        elif isinstance(st, ast.Expr) and isinstance(st.value, ast.Call) and _name(st.value.func).endswith("methodcall_error_handler"):
            out.append("hook")
        elif isinstance(st, ast.Break):
            out.append("break")
        elif isinstance(st, ast.Try):
            out.append("try[")
            out += _server_tokens(st.body)
            out.append("]")
            for h in st.handlers:
                out.append("except:%s[" % (_name(h.type) if h.type is not None else "*"))
                out += _server_tokens(h.body)
                out.append("]")
            if st.orelse:
                out.append("else[")
                out += _server_tokens(st.orelse)
                out.append("]")
            if st.finalbody:
                out.append("finally[")
                out += _server_tokens(st.finalbody)
                out.append("]")
        else:
            out.append("other:" + type(st).__name__)
    return out


def server_facts(tree):
    fn = _find_func(tree, "Daemon", "handleRequest")
    batch_if = None
    for node in ast.walk(fn):
        if isinstance(node, ast.If) and _is_flag_test(node.test, "request_flags", "FLAGS_BATCH"):
            # the request-side test (the reply side tests `wasBatched`)
            batch_if = node
            break
    if batch_if is None:
        raise ValueError("source shape not recognised: no `if request_flags & FLAGS_BATCH` in handleRequest")
    loops = [s for s in batch_if.body if isinstance(s, ast.For)]
    if len(loops) != 1:
        raise ValueError("source shape not recognised: batch branch has %d for-loops" % len(loops))
    loop = loops[0]
    shape = _server_tokens(loop.body)
    # wasBatched = True after the loop, inside the batch branch
    after = batch_if.body[batch_if.body.index(loop) + 1:]
    flag_after = any(isinstance(s, ast.Assign) and _name(s.targets[0]) == "wasBatched"
                     and isinstance(s.value, ast.Constant) and s.value.value is True for s in after)
    # the single call branch: `method = _get_attribute(obj, method)` in the else part of the batch test
    single_gate = ""
    for node in batch_if.orelse:
        for sub in ast.walk(node):
            if isinstance(sub, ast.Assign) and isinstance(sub.value, ast.Call) and _name(sub.value.func).endswith("_get_attribute") \
                    and _name(sub.targets[0]) == "method":
                single_gate = _name(sub.value.func).split(".")[-1]
    # oneway: `if request_flags & FLAGS_ONEWAY: return` precedes `data = serializer.dumps(data)` in the same block
    oneway_first = False
    for node in ast.walk(fn):
        body = getattr(node, "body", None)
        if not isinstance(body, list):
            continue
        for blk in (body, getattr(node, "orelse", []) or []):
            for i, st in enumerate(blk):
                if isinstance(st, ast.If) and _is_flag_test(st.test, "request_flags", "FLAGS_ONEWAY") \
                        and len(st.body) == 1 and isinstance(st.body[0], ast.Return) and st.body[0].value is None:
                    dumps_in_else = any(isinstance(x, ast.Assign) and isinstance(x.value, ast.Call)
                                        and _name(x.value.func) == "serializer.dumps" for x in st.orelse)
                    sends_before = any(isinstance(x, ast.Expr) and isinstance(x.value, ast.Call)
                                       and _name(x.value.func) == "conn.send" for x in blk[:i])
                    if dumps_in_else and not sends_before:
                        oneway_first = True
    # the plain call's exception response goes through the same serialize-or-fallback step as a failed batch member
    ser = _find_func(tree, "Daemon", "_sendExceptionResponse")
    single_fallback = any(isinstance(st, ast.Assign) and isinstance(st.value, ast.Call)
                          and _name(st.value.func) == "self._serializeException"
                          and [_name(a) for a in st.value.args] == ["serializer", "exc_value", "tbinfo"] for st in ser.body)
    batch_fallback_args = []
    for st in ast.walk(loop):
        if isinstance(st, ast.Assign) and isinstance(st.value, ast.Call) and _name(st.value.func) == "self._serializeException":
            batch_fallback_args.append([_name(a) for a in st.value.args])
    same_fallback = single_fallback and batch_fallback_args == [["serializer", "xv", "tblines"]]
    return shape, single_gate, oneway_first, flag_after, same_fallback


def client_facts(tree, core_tree):
    # BatchProxy.__resultsgenerator
    g = _find_func(tree, "BatchProxy", "__resultsgenerator")
    gen = []
    for st in g.body:
        if isinstance(st, ast.For) and _name(st.iter) == "results" and not st.orelse:
            gen.append("for")
            for s2 in st.body:
                if isinstance(s2, ast.If) and isinstance(s2.test, ast.Call) and _name(s2.test.func) == "isinstance" \
                        and _name(s2.test.args[0]) == _name(st.target):
                    gen.append("if-isinstance:%s[" % _name(s2.test.args[1]).split(".")[-1])
                    for s3 in s2.body:
                        if isinstance(s3, ast.Expr) and isinstance(s3.value, ast.Call) and _name(s3.value.func) == _name(st.target) + ".raiseIt":
                            gen.append("raiseIt")
                        else:
                            gen.append("other:" + type(s3).__name__)
                    gen.append("]")
                    gen.append("else[")
                    for s3 in s2.orelse:
                        if isinstance(s3, ast.Expr) and isinstance(s3.value, ast.Yield) and _name(s3.value.value) == _name(st.target):
                            gen.append("yield")
                        else:
                            gen.append("other:" + type(s3).__name__)
                    gen.append("]")
                else:
                    gen.append("other:" + type(s2).__name__)
        else:
            gen.append("other:" + type(st).__name__)
    # _ExceptionWrapper.raiseIt
    r = _find_func(core_tree, "_ExceptionWrapper", "raiseIt")
    raise_it = []
    for st in r.body:
        if isinstance(st, ast.Raise) and st.cause is None:
            raise_it.append("raise:" + _name(st.exc))
        else:
            raise_it.append("other:" + type(st).__name__)
    # Proxy._pyroInvokeBatch
    ib = _find_func(tree, "Proxy", "_pyroInvokeBatch")
    inv = []
    for st in ib.body:
        if isinstance(st, ast.Assign) and _name(st.targets[0]) == "flags":
            inv.append("flags=" + _name(st.value).split(".")[-1])
        elif isinstance(st, ast.If) and _name(st.test) == "oneway" and not st.orelse:
            inv.append("if:oneway[")
            for s2 in st.body:
                if isinstance(s2, ast.AugAssign) and isinstance(s2.op, ast.BitOr) and _name(s2.target) == "flags":
                    inv.append("flags|=" + _name(s2.value).split(".")[-1])
                else:
                    inv.append("other:" + type(s2).__name__)
            inv.append("]")
        elif isinstance(st, ast.Return) and isinstance(st.value, ast.Call) and _name(st.value.func) == "self._pyroInvoke" \
                and not st.value.keywords:
            args = []
            for a in st.value.args:
                if isinstance(a, ast.Constant):
                    args.append(str(a.value))
                else:
                    args.append(_name(a) or "?")
            inv.append("return:_pyroInvoke(%s)" % ",".join(args))
        else:
            inv.append("other:" + type(st).__name__)
    # BatchProxy.__call__
    bc = _find_func(tree, "BatchProxy", "__call__")
    if [a.arg for a in bc.args.args] != ["self", "oneway"] or len(bc.args.defaults) != 1 or \
            not (isinstance(bc.args.defaults[0], ast.Constant) and bc.args.defaults[0].value is False):
        raise ValueError("source shape not recognised: BatchProxy.__call__ signature")
    call = []
    for st in bc.body:
        if isinstance(st, ast.Expr) and isinstance(st.value, ast.Call) and _name(st.value.func).endswith("_pyroClaimOwnership"):
            call.append("claim")
        elif isinstance(st, ast.Assign) and _name(st.targets[0]) == "results" and isinstance(st.value, ast.Call) \
                and _name(st.value.func).endswith("_pyroInvokeBatch"):
            call.append("results=_pyroInvokeBatch(%s)" % ",".join(_name(a).replace("self.__", "") for a in st.value.args))
        elif isinstance(st, ast.Assign) and _name(st.targets[0]) == "self.__calls" and isinstance(st.value, ast.List) and not st.value.elts:
            call.append("calls=[]")
        elif isinstance(st, ast.If) and isinstance(st.test, ast.UnaryOp) and isinstance(st.test.op, ast.Not) \
                and _name(st.test.operand) == "oneway" and not st.orelse:
            call.append("if-not:oneway[")
            for s2 in st.body:
                if isinstance(s2, ast.Return) and isinstance(s2.value, ast.Call) and _name(s2.value.func).endswith("__resultsgenerator") \
                        and [_name(a) for a in s2.value.args] == ["results"]:
                    call.append("return:generator")
                else:
                    call.append("other:" + type(s2).__name__)
            call.append("]")
        else:
            call.append("other:" + type(st).__name__)
    # _BatchedRemoteMethod.__call__
    bm = _find_func(tree, "_BatchedRemoteMethod", "__call__")
    meth = []
    if bm.args.vararg is None or bm.args.kwarg is None:
        raise ValueError("source shape not recognised: _BatchedRemoteMethod.__call__ signature")
    for st in bm.body:
        if isinstance(st, ast.Expr) and isinstance(st.value, ast.Call) and _name(st.value.func) == "self.__calls.append" \
                and isinstance(st.value.args[0], ast.Tuple):
            els = [_name(e).replace("self.__", "") for e in st.value.args[0].elts]
            meth.append("append:(%s)" % ",".join(els))
        else:
            meth.append("other:" + type(st).__name__)
    return gen, raise_it, inv, call, meth


def dumps_call_probe():
    """does serializer.dumpsCall(obj, '<batch>', calls, None) succeed and load back, per serializer (import + execution)"""
    common.repo_on_path()
    from Pyro5 import serializers
    out = []
    for name in sorted(serializers.serializers):
        ser = serializers.serializers[name]
        ok = True
        try:
            blob = ser.dumpsCall("obj", "<batch>", [("m", (1,), {"k": 2})], None)
            obj, method, vargs, kwargs = ser.loadsCall(blob)
            ok = obj == "obj" and method == "<batch>" and len(vargs) == 1 and not kwargs
        except Exception:
            ok = False
        out.append((name, ok))
    return out


def wrapper_probe():
    """does a reply list holding an exception wrapper survive serializer.dumps / loads, per serializer (import + execution)"""
    common.repo_on_path()
    from Pyro5 import serializers, core
    out = []
    for name in sorted(serializers.serializers):
        ser = serializers.serializers[name]
        try:
            back = ser.loads(ser.dumps([1, core._ExceptionWrapper(ValueError("x"))]))
            w = back[1]
            ok = len(back) == 2 and back[0] == 1 and isinstance(w, core._ExceptionWrapper) \
                and type(w.exception) is ValueError and tuple(w.exception.args) == ("x",)
        except Exception:
            ok = False
        out.append((name, ok))
    return out


def lean_str_list(xs):
    return "[" + ", ".join(json.dumps(x) for x in xs) + "]"


def extract():
    common.repo_on_path()
    from Pyro5 import server, client, core
    stree = ast.parse(open(server.__file__).read())
    ctree = ast.parse(open(client.__file__).read())
    otree = ast.parse(open(core.__file__).read())
    shape, single_gate, oneway_first, flag_after, same_fallback = server_facts(stree)
    gen, raise_it, inv, call, meth = client_facts(ctree, otree)
    probe = dumps_call_probe()
    wprobe = wrapper_probe()
    b = lambda x: "true" if x else "false"
    rel = lambda m: os.path.relpath(m.__file__, common.REPO)
    return f"""-- GENERATED by harness/props/c11_extract.py from {rel(server)}, {rel(client)}, {rel(core)}, Pyro5/serializers.py — do not edit
namespace Pyro.Gen.C11
/-- statements of the body of the `for` loop in the batch branch of Daemon.handleRequest, in order -/
def batchLoopShape : List String := {lean_str_list(shape)}
/-- the gate function called by the single-call branch of handleRequest -/
def singleCallGate : String := {json.dumps(single_gate)}
/-- `if request_flags & FLAGS_ONEWAY: return` precedes serializer.dumps(data) / conn.send -/
def onewayReturnsBeforeReply : Bool := {b(oneway_first)}
/-- `wasBatched = True` follows the loop -/
def batchedFlagAfterLoop : Bool := {b(flag_after)}
/-- a failed batch member and a failed plain call both go through Daemon._serializeException(serializer, <exception>, <traceback>) -/
def sameSerializeOrFallback : Bool := {b(same_fallback)}
/-- BatchProxy.__resultsgenerator -/
def resultsGenShape : List String := {lean_str_list(gen)}
/-- _ExceptionWrapper.raiseIt -/
def raiseItShape : List String := {lean_str_list(raise_it)}
/-- Proxy._pyroInvokeBatch -/
def invokeBatchShape : List String := {lean_str_list(inv)}
/-- BatchProxy.__call__ -/
def batchCallShape : List String := {lean_str_list(call)}
/-- _BatchedRemoteMethod.__call__ -/
def batchedMethodShape : List String := {lean_str_list(meth)}
/-- per serializer (sorted by name): dumpsCall(obj, "<batch>", calls, None) succeeds and loads back -/
def dumpsCallNoKwargs : List (String × Bool) := [{", ".join('(%s, %s)' % (json.dumps(n), b(ok)) for n, ok in probe)}]
/-- per serializer (sorted by name): loads(dumps([1, _ExceptionWrapper(ValueError("x"))])) gives the list with the wrapper back -/
def wrapperInReplyList : List (String × Bool) := [{", ".join('(%s, %s)' % (json.dumps(n), b(ok)) for n, ok in wprobe)}]
end Pyro.Gen.C11
"""
