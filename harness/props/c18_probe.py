"""
C18 extractor helper: BEHAVIOURAL facts about Pool.__init__ / process / notify_done / close.

Instead of reading the methods' source text, the real methods are *called* (single-threaded, no thread is ever
started) on every small pool state and the effect is written down as a table; the Lean obligation
`C18_gen_behaviour` re-proves on every run that the model's atomic method (`Pool.call`) has exactly that effect
on every row.  How a method is spelled (helpers, early returns, locals, discard vs. test-and-remove, constants)
does not matter; what it does to idle / busy / closed / the workers' slots and events does.

While probing, every access of the pool's shared state is watched: accesses made while `count_lock` is not held,
blocking calls (join / sleep / wait) made while it is held, and joins without a timeout are counted.

Row encoding (lists of naturals):
  [[min, max, closed, arg], idle, busy, slots, events, [result, closed'], idle', busy', slots', events']
  workers are numbered in creation order; slot 0 = None, k+1 = job k (51 = the job a busy worker already holds,
  101 = the job being submitted); arg = position of the worker `set.pop()` returned in the sorted idle list
  (process) / the worker passed in (notify_done); result 0 returned, 1 NoFreeWorkersError, 2 PoolError,
  4 RuntimeError, 5 ValueError, 9 anything else.
"""
import threading
import types

import common

OLD_JOB = 50
NEW_JOB = 100


class Rec:
    def __init__(self):
        self.held = 0
        self.active = False
        self.unlocked = 0
        self.blocking_in_lock = 0
        self.untimed_joins = 0
        self.joins = 0
        self.lock_kinds = set()
        self.fail_start = False
        self.started = []
        self.lock_missing_at_start = 0

    def access(self):
        if self.active and self.held == 0:
            self.unlocked += 1

    def blocking(self):
        if self.active and self.held > 0:
            self.blocking_in_lock += 1


def _code(exc, svr_threads):
    if exc is None:
        return 0
    if type(exc) is svr_threads.NoFreeWorkersError:
        return 1
    if type(exc) is svr_threads.PoolError:
        return 2
    if type(exc) is RuntimeError:
        return 4
    if type(exc) is ValueError:
        return 5
    return 9


def probe():
    """returns dict(init=[rows], process=[rows], startfail=[rows], notify=[rows], close=[rows], facts={...})"""
    common.repo_on_path()
    from Pyro5 import svr_threads, config
    rec = Rec()

    class PLock:
        def acquire(self, blocking=True, timeout=-1):
            rec.held += 1
            return True

        def release(self):
            rec.held -= 1

        def __enter__(self):
            rec.held += 1
            return self

        def __exit__(self, *a):
            rec.held -= 1

    class PEvent:
        def __init__(self):
            self.flag = False

        def set(self):
            self.flag = True

        def clear(self):
            self.flag = False

        def is_set(self):
            return self.flag

        def wait(self, timeout=None):
            rec.blocking()
            return self.flag

    ns = {}
    for m in ("add", "remove", "discard", "pop", "clear", "copy", "__contains__", "__len__", "__iter__", "update",
              "difference_update", "__ior__", "__isub__", "__bool__"):
        if not hasattr(set, m):
            continue

        def make(m):
            real = getattr(set, m)

            def f(self, *a, **k):
                pool = holder.get("pool")
                # only the sets that ARE the pool's idle / busy at this instant are shared (close() keeps emptying the
                # old objects through locals after it has replaced them)
                if pool is not None and (self is pool.__dict__.get("idle") or self is pool.__dict__.get("busy")):
                    rec.access()
                if m == "pop" and not a and not k and set.__len__(self) > 1:
                    # any element is a legitimate result of set.pop(); take the oldest worker so that the generated
                    # tables do not depend on the hash order of this process (the row records which one was taken)
                    order = {id(w): i for i, w in enumerate(rec.started)}
                    x = min(set.__iter__(self), key=lambda w: order.get(id(w), len(order)))
                    set.remove(self, x)
                    return x
                return real(self, *a, **k)
            return f
        ns[m] = make(m)
    PSet = type("PSet", (set,), ns)
    holder = {}

    def mk_lock(kind):
        def f():
            rec.lock_kinds.add(kind)
            return PLock()
        return f

    shim_threading = types.SimpleNamespace(Event=PEvent, Lock=mk_lock("Lock"), RLock=mk_lock("RLock"),
                                           current_thread=threading.current_thread, Thread=threading.Thread)

    def sleep(s):
        rec.blocking()
    shim_time = types.SimpleNamespace(sleep=sleep, time=lambda: 0.0)

    def w_start(self):
        pool = holder.get("pool") or getattr(self, "pool", None)
        if pool is not None and "count_lock" not in pool.__dict__:
            rec.lock_missing_at_start += 1
        if rec.fail_start:
            raise RuntimeError("can't start new thread")
        rec.started.append(self)

    def w_join(self, timeout=None):
        rec.joins += 1
        if timeout is None:
            rec.untimed_joins += 1
        rec.blocking()

    def w_alive(self):
        return self in rec.started

    class IPool(svr_threads.Pool):
        @property
        def closed(self):
            rec.access()
            return self.__dict__.get("_closed", False)

        @closed.setter
        def closed(self, v):
            rec.access()
            self.__dict__["_closed"] = v

    saved = (svr_threads.threading, svr_threads.time, config.THREADPOOL_SIZE, config.THREADPOOL_SIZE_MIN)
    had_set = "set" in svr_threads.__dict__
    svr_threads.threading = shim_threading
    svr_threads.time = shim_time
    svr_threads.set = PSet
    svr_threads.Worker.start = w_start
    svr_threads.Worker.join = w_join
    svr_threads.Worker.is_alive = w_alive
    out = {"init": [], "process": [], "startfail": [], "notify": [], "close": []}
    try:
        # ---- Pool.__init__ ---------------------------------------------------------------------------
        for mn in range(0, 4):
            for mx in range(0, 4):
                config.THREADPOOL_SIZE, config.THREADPOOL_SIZE_MIN = mx, mn
                rec.started = []
                holder.clear()
                before = rec.lock_missing_at_start
                try:
                    p = IPool()
                    exc = None
                except Exception as e:      # noqa
                    exc, p = e, None
                if p is None:
                    out["init"].append([[mn, mx], [_code(exc, svr_threads), 0, 0, 0, 0, 0]])
                else:
                    d = p.__dict__
                    out["init"].append([[mn, mx], [0, set.__len__(d["idle"]), set.__len__(d["busy"]),
                                                   1 if d.get("_closed") else 0,
                                                   1 if rec.lock_missing_at_start == before and "count_lock" in d else 0,
                                                   len(rec.started)]])

        # ---- states ------------------------------------------------------------------------------------
        def build(n_idle, n_busy, closed):
            total = max(1, n_idle + n_busy)
            config.THREADPOOL_SIZE, config.THREADPOOL_SIZE_MIN = 99, total
            rec.started = []
            rec.fail_start = False
            holder.clear()
            p = IPool()
            holder["pool"] = p
            ws = list(rec.started)
            if len(ws) != total:
                raise ValueError("Pool() did not start THREADPOOL_SIZE_MIN workers")
            d = p.__dict__
            set.clear(d["idle"])
            set.clear(d["busy"])
            for i, w in enumerate(ws):
                w.job = None
                w.job_available.flag = False
                if i < n_idle:
                    set.add(d["idle"], w)
                elif i < n_idle + n_busy:
                    set.add(d["busy"], w)
                    w.job = OLD_JOB
            d["_closed"] = bool(closed)
            return p, ws

        def observe(p, ws, newjob):
            d = p.__dict__
            allw = list(ws)
            for w in list(set.__iter__(d["idle"])) + list(set.__iter__(d["busy"])):
                if w not in allw:
                    allw.append(w)
            idx = {id(w): i for i, w in enumerate(allw)}

            def slot(w):
                if w.job is None:
                    return 0
                if w.job is newjob:
                    return NEW_JOB + 1
                if w.job == OLD_JOB:
                    return OLD_JOB + 1
                return 999
            return (1 if d.get("_closed") else 0,
                    sorted(idx[id(w)] for w in set.__iter__(d["idle"])),
                    sorted(idx[id(w)] for w in set.__iter__(d["busy"])),
                    [slot(w) for w in allw], [1 if w.job_available.flag else 0 for w in allw], allw)

        def call(fn):
            rec.active = True
            try:
                fn()
                return None
            except Exception as e:      # noqa
                return e
            finally:
                rec.active = False
                rec.held = 0

        for mn in (1, 2):
            for mx in (mn, mn + 1):
                for closed in (0, 1):
                    for n_idle in range(0, 3):
                        for n_busy in range(0, 3):
                            for fail in (False, True):
                                p, ws = build(n_idle, n_busy, closed)
                                config.THREADPOOL_SIZE, config.THREADPOOL_SIZE_MIN = mx, mn
                                c0, i0, b0, s0, e0, _ = observe(p, ws, None)
                                job = object()
                                rec.fail_start = fail
                                exc = call(lambda: p.process(job))
                                rec.fail_start = False
                                c1, i1, b1, s1, e1, allw = observe(p, ws, job)
                                popped = [k for k in i0 if k not in i1]
                                pick = i0.index(popped[0]) if popped else 0
                                row = [[mn, mx, closed, pick], i0, b0, s0, e0, [_code(exc, svr_threads), c1], i1, b1, s1, e1]
                                out["startfail" if fail else "process"].append(row)
                            total = max(1, n_idle + n_busy)
                            for w in range(total):
                                p, ws = build(n_idle, n_busy, closed)
                                config.THREADPOOL_SIZE, config.THREADPOOL_SIZE_MIN = mx, mn
                                c0, i0, b0, s0, e0, _ = observe(p, ws, None)
                                exc = call(lambda: p.notify_done(ws[w]))
                                c1, i1, b1, s1, e1, _ = observe(p, ws, None)
                                out["notify"].append([[mn, mx, closed, w], i0, b0, s0, e0, [_code(exc, svr_threads), c1], i1, b1, s1, e1])
                            p, ws = build(n_idle, n_busy, closed)
                            config.THREADPOOL_SIZE, config.THREADPOOL_SIZE_MIN = mx, mn
                            c0, i0, b0, s0, e0, _ = observe(p, ws, None)
                            exc = call(lambda: p.close())
                            c1, i1, b1, s1, e1, _ = observe(p, ws, None)
                            out["close"].append([[mn, mx, closed, 0], i0, b0, s0, e0, [_code(exc, svr_threads), c1], i1, b1, s1, e1])
    finally:
        svr_threads.threading, svr_threads.time, config.THREADPOOL_SIZE, config.THREADPOOL_SIZE_MIN = saved
        if not had_set:
            del svr_threads.__dict__["set"]
        del svr_threads.Worker.start
        del svr_threads.Worker.join
        del svr_threads.Worker.is_alive
    kinds = sorted(rec.lock_kinds)
    out["facts"] = {
        "lockKind": kinds[0] if len(kinds) == 1 else "unknown",
        "unlockedAccesses": rec.unlocked,
        "blockingInsideLock": rec.blocking_in_lock,
        "untimedJoins": rec.untimed_joins,
    }
    return out


def lean_rows(rows):
    def lst(l):
        return "[" + ", ".join(str(x) for x in l) + "]"
    return "[\n  " + ",\n  ".join("[" + ", ".join(lst(part) for part in row) + "]" for row in rows) + "]"
