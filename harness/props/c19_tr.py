"""C19 — per-property translator: methods of Pyro5.core.URI (python `ast`) -> shallow Lean definitions over
`Pyro.UriPy` (lean/PyroModel/UriPy.lean).

The translator is a symbolic executor of straight-line/branching code without loops.  It walks the statements in
continuation-passing style (the statements after an `if` are translated once per branch, `return` cuts the
continuation), keeps for every local and every assigned attribute of `self` the Lean term it currently holds
together with a static type, and emits a decision tree whose leaves are `.ok <self / value>` or `.error <exception>`.
Consequences (the normalisations asked for):
  * locals never appear in the output (forward substitution); binders introduced by the translator (`v0`, `v1`, … in
    order of emission) are the only names, parameters are `p1`, `p2`, …
  * `if c: A; return` / `if c: A else: B` / nested-else vs early-return forms give the same tree
  * module-level constants (str / int / compiled patterns) are resolved through the real module to their values,
    `len(<constant>)` is evaluated
  * private helper methods of the same class (`self._x(...)`, single underscore) are inlined at the call site
  * `not x in y` = `x not in y`; `a != b` = `not a == b`
  * a conditional expression `A if c else B` that is evaluated first in a right-hand side / returned value is the
    If statement it abbreviates; a local bound to a constant (e.g. a format string chosen that way) is that constant
SOUND BY REFUSAL: every node kind, call target, attribute, operator, constant pattern that is not explicitly
understood raises `Untranslatable`.  Skipped silently: docstrings, `log.*(...)` calls, annotations, `pass`.
"""
import ast
import inspect
import re
import textwrap


class Untranslatable(Exception):
    pass


IPV6_PATTERN = r"\[([0-9a-fA-F:%]+)](:(\d+))?"

# static types: T str | OT None-or-str | PV None/str/int | INT | NONE | B | M6? (None or bracket match) | V6 | ("TUP", [...])
ATTR_TYPES = {"sockname": "OT", "host": "OT", "port": "PV"}
ERR_KINDS = [("invalid uri (protocol)", "protocol"), ("invalid uri (location)", "location"),
             ("invalid uri (metadata)", "metadata"), ("invalid ipv6 address: enclosed", "brackets"),
             ("invalid ipv6 address: the part", "ipv6"), ("invalid port in uri", "port"), ("invalid uri", "invalid")]


def lean_text(s):
    return "[" + ", ".join(str(ord(c)) for c in s) + "]"


class Env:
    def __init__(self, names, attrs, consts=None):
        self.names = dict(names)     # python local -> (term, type)
        self.attrs = dict(attrs)     # attribute of self -> (term, type, assigned?)
        self.consts = dict(consts or {})   # python local currently bound to a constant str/int -> its python value

    def copy(self):
        return Env(self.names, self.attrs, self.consts)


class Translator:
    def __init__(self, module, cls, errors_module):
        self.module = module
        self.cls = cls
        self.errors = errors_module
        self.counter = 0
        self.universe = [(errors_module.PyroError, "Pyro.UriPy.ExcClass.pyroError"),
                         (ValueError, "Pyro.UriPy.ExcClass.valueError"), (TypeError, "Pyro.UriPy.ExcClass.typeError")]

    # ------------------------------------------------------------------ helpers
    def fresh(self):
        v = "v%d" % self.counter
        self.counter += 1
        return v

    def bad(self, node, why=""):
        raise Untranslatable("%s %s (line %s)" % (type(node).__name__, why, getattr(node, "lineno", "?")))

    def resolve(self, node):
        """the python object a Name / dotted Attribute denotes in the real module (never for locals / self)"""
        if isinstance(node, ast.Name):
            if hasattr(self.module, node.id):
                return getattr(self.module, node.id)
            import builtins
            if hasattr(builtins, node.id):
                return getattr(builtins, node.id)
            self.bad(node, "unresolved name " + node.id)
        if isinstance(node, ast.Attribute):
            if isinstance(node.value, ast.Name) and node.value.id in ("self", "cls"):
                if node.attr in ATTR_TYPES or not hasattr(self.cls, node.attr):
                    self.bad(node, "instance attribute")
                return getattr(self.cls, node.attr)
            base = self.resolve(node.value)
            if not hasattr(base, node.attr):
                self.bad(node, "unresolved attribute " + node.attr)
            return getattr(base, node.attr)
        self.bad(node, "not resolvable")

    def consteval(self, node, env):
        """python value of a constant expression, or raise KeyError"""
        if isinstance(node, ast.Constant) and type(node.value) in (str, int) :
            return node.value
        if isinstance(node, ast.Name) and node.id in env.consts and node.id in env.names:
            return env.consts[node.id]          # a local that holds a constant on this path
        if isinstance(node, ast.Name) and node.id not in env.names and node.id != "self":
            v = getattr(self.module, node.id, KeyError)
            if type(v) in (str, int):
                return v
        if isinstance(node, ast.Call) and isinstance(node.func, ast.Name) and node.func.id == "len" \
                and "len" not in env.names and len(node.args) == 1 and not node.keywords:
            v = self.consteval(node.args[0], env)
            if type(v) is str:
                return len(v)
        raise KeyError

    def const_char(self, node, env):
        try:
            v = self.consteval(node, env)
        except KeyError:
            self.bad(node, "expected a one-character constant")
        if type(v) is not str or len(v) != 1:
            self.bad(node, "expected a one-character constant")
        return ord(v)

    # ------------------------------------------------------------------ pure expressions
    def ex(self, node, env):
        try:
            v = self.consteval(node, env)
            if type(v) is str:
                return lean_text(v), "T"
            return str(v) if v >= 0 else "(%d)" % v, "INT"
        except KeyError:
            pass
        if isinstance(node, ast.Constant):
            if node.value is None:
                return "none", "NONE"
            self.bad(node, "constant %r" % (node.value,))
        if isinstance(node, ast.Name):
            if node.id in env.names:
                return env.names[node.id]
            self.bad(node, "unbound / non-constant name " + node.id)
        if isinstance(node, ast.Attribute):
            if isinstance(node.value, ast.Name) and node.value.id == "self" and "self" not in env.names:
                if node.attr in env.attrs:
                    return env.attrs[node.attr][:2]
                if node.attr in ATTR_TYPES:
                    return "self." + node.attr, ATTR_TYPES[node.attr]
            self.bad(node, "attribute " + node.attr)
        if isinstance(node, ast.Subscript):
            t, ty = self.ex(node.value, env)
            sl = node.slice
            if ty == "T" and isinstance(sl, ast.Slice) and sl.upper is None and sl.step is None and sl.lower is not None:
                try:
                    n = self.consteval(sl.lower, env)
                except KeyError:
                    self.bad(node, "slice bound")
                if type(n) is int and n >= 0:
                    return "(List.drop %d %s)" % (n, t), "T"
            self.bad(node, "subscript")
        if isinstance(node, ast.BinOp) and isinstance(node.op, ast.Add):
            a, ta = self.ex(node.left, env)
            b, tb = self.ex(node.right, env)
            if ta == "T" and tb == "T":
                return "(%s ++ %s)" % (a, b), "T"
            self.bad(node, "+ on %s, %s" % (ta, tb))
        if isinstance(node, ast.Call):
            return self.call(node, env)
        self.bad(node)

    def call(self, node, env):
        f = node.func
        if node.keywords:
            self.bad(node, "keyword arguments")
        if isinstance(f, ast.Attribute):
            # re.match(<pattern>, s) / <compiled>.match(s)
            if f.attr == "match":
                pat = None
                if isinstance(f.value, ast.Name) and f.value.id not in env.names and self.resolve(f.value) is re:
                    if len(node.args) != 2:
                        self.bad(node, "re.match with flags")
                    try:
                        pat = self.consteval(node.args[0], env)
                    except KeyError:
                        obj = self.resolve(node.args[0])
                        pat = obj if isinstance(obj, str) else None
                    arg = node.args[1]
                else:
                    is_local = isinstance(f.value, ast.Name) and f.value.id in env.names
                    obj = None if is_local else self.resolve(f.value)
                    if isinstance(obj, re.Pattern) and int(obj.flags) == 32 and len(node.args) == 1:
                        pat = obj.pattern
                    arg = node.args[0] if node.args else None
                if pat != IPV6_PATTERN:
                    self.bad(node, "match against an unknown pattern %r" % (pat,))
                a, ta = self.ex(arg, env)
                if ta != "T":
                    self.bad(node, "match on " + ta)
                return "(Pyro.Uri.ipv6Match %s)" % a, "M6?"
            recv, tr = self.ex(f.value, env)
            if f.attr == "startswith" and tr == "T" and len(node.args) == 1:
                try:
                    p = self.consteval(node.args[0], env)
                except KeyError:
                    self.bad(node, "startswith a non-constant")
                if type(p) is str:
                    return "(Pyro.Uri.startsWith %s %s)" % (lean_text(p), recv), "B"
            if f.attr == "partition" and tr == "T" and len(node.args) == 1:
                c = self.const_char(node.args[0], env)
                return "(Pyro.UriPy.partition1 %d %s)" % (c, recv), ("TUP", ["T", "T", "T"])
            if f.attr == "groups" and tr == "V6" and not node.args:
                return "(Pyro.UriPy.v6Groups %s)" % recv, ("TUP", ["T", "OT", "OT"])
            self.bad(node, "method %s on %s" % (f.attr, tr))
        self.bad(node, "call")

    # ------------------------------------------------------------------ Boolean expressions (pure)
    def truthy(self, t, ty, node):
        if ty == "B":
            return t
        if ty == "T":
            return "(Pyro.UriPy.truthyT %s)" % t
        if ty == "OT":
            return "(Pyro.UriPy.truthyOT %s)" % t
        if ty == "PV":
            return "(Pyro.UriPy.truthyPV %s)" % t
        if ty == "NONE":
            return "false"
        if ty == "V6":
            return "true"
        if ty == "M6?":
            return "(Option.isSome %s)" % t
        self.bad(node, "truthiness of " + str(ty))

    def coerce(self, t, ty, want, node):
        if ty == want:
            return t
        table = {("T", "OT"): "(some %s)", ("NONE", "OT"): "none", ("T", "PV"): "(Pyro.UriPy.PortVal.str %s)",
                 ("OT", "PV"): "(Pyro.UriPy.PortVal.ofOpt %s)", ("INT", "PV"): "(Pyro.UriPy.PortVal.int %s)",
                 ("NONE", "PV"): "Pyro.UriPy.PortVal.none"}
        if (ty, want) in table:
            f = table[(ty, want)]
            return f % t if "%s" in f else f
        self.bad(node, "cannot hold a %s where a %s is expected" % (ty, want))

    def bx(self, node, env):
        if isinstance(node, ast.UnaryOp) and isinstance(node.op, ast.Not):
            return "(!%s)" % self.bx(node.operand, env)
        if isinstance(node, ast.BoolOp):
            op = " || " if isinstance(node.op, ast.Or) else " && "
            return "(" + op.join(self.bx(v, env) for v in node.values) + ")"
        if isinstance(node, ast.Compare) and len(node.ops) == 1:
            op, l, r = node.ops[0], node.left, node.comparators[0]
            if isinstance(op, (ast.In, ast.NotIn)):
                c = self.const_char(l, env)
                t, ty = self.ex(r, env)
                if ty != "T":
                    self.bad(node, "`in` on " + str(ty))
                s = "(Pyro.UriPy.containsChar %d %s)" % (c, t)
                return s if isinstance(op, ast.In) else "(!%s)" % s
            if isinstance(op, (ast.Eq, ast.NotEq)):
                a, ta = self.ex(l, env)
                b, tb = self.ex(r, env)
                if ta in ("T", "OT") and tb in ("T", "OT"):
                    if ta != tb:
                        a, b = self.coerce(a, ta, "OT", node), self.coerce(b, tb, "OT", node)
                    s = "(%s == %s)" % (a, b)
                    return s if isinstance(op, ast.Eq) else "(!%s)" % s
            self.bad(node, "comparison")
        t, ty = self.ex(node, env)
        return self.truthy(t, ty, node)

    # ------------------------------------------------------------------ conditions with refinement
    def refinable(self, node, env):
        """a Name / self attribute whose current value has an Option type: a truthiness test refines it"""
        if isinstance(node, ast.Name) and node.id in env.names and env.names[node.id][1] in ("OT", "M6?"):
            return True
        if isinstance(node, ast.Attribute) and isinstance(node.value, ast.Name) and node.value.id == "self" \
                and "self" not in env.names and (node.attr in env.attrs or node.attr in ATTR_TYPES):
            return self.ex(node, env)[1] == "OT"
        return False

    def has_refinable(self, node, env):
        if self.refinable(node, env):
            return True
        if isinstance(node, ast.UnaryOp) and isinstance(node.op, ast.Not):
            return self.has_refinable(node.operand, env)
        if isinstance(node, ast.BoolOp):
            return any(self.has_refinable(v, env) for v in node.values)
        return False

    def cond(self, test, env, then_fn, else_fn, ind):
        """Lean term for `if test: then else: else`; the branch functions take the (refined) environment"""
        pad = "  " * ind
        if isinstance(test, ast.UnaryOp) and isinstance(test.op, ast.Not) and self.has_refinable(test.operand, env):
            return self.cond(test.operand, env, else_fn, then_fn, ind)
        if isinstance(test, ast.BoolOp) and self.has_refinable(test, env):
            first, rest = test.values[0], test.values[1:]
            rest_node = rest[0] if len(rest) == 1 else ast.BoolOp(op=test.op, values=rest)
            if isinstance(test.op, ast.Or):
                return self.cond(first, env, then_fn, lambda e, i: self.cond(rest_node, e, then_fn, else_fn, i), ind)
            return self.cond(first, env, lambda e, i: self.cond(rest_node, e, then_fn, else_fn, i), else_fn, ind)
        if self.refinable(test, env):
            t, ty = self.ex(test, env)
            v = self.fresh()
            e2 = env.copy()
            new = (v, "T" if ty == "OT" else "V6")
            if isinstance(test, ast.Name):
                e2.names[test.id] = new
            else:
                old = env.attrs.get(test.attr)
                e2.attrs[test.attr] = new + ((old[2] if old else False),)
            scrut = "Pyro.UriPy.nonEmpty? %s" % t if ty == "OT" else t
            a = then_fn(e2, ind + 2)
            b = else_fn(env, ind + 2)
            return "(match %s with\n%s  | some %s =>\n%s    %s\n%s  | none =>\n%s    %s)" % (scrut, pad, v, pad, a, pad, pad, b)
        c = self.bx(test, env)
        a = then_fn(env, ind + 1)
        b = else_fn(env, ind + 1)
        return "(if %s = true then\n%s  %s\n%selse\n%s  %s)" % (c, pad, a, pad, pad, b)

    # ------------------------------------------------------------------ exceptions
    def exc_of_raise(self, node, env):
        x = node.exc
        if node.cause is not None or x is None:
            self.bad(node, "raise form")
        if not isinstance(x, ast.Call) or x.keywords or len(x.args) > 1:
            self.bad(node, "raise of a non-call")
        cls = self.resolve(x.func)
        if cls is self.errors.PyroError:
            if not x.args:
                self.bad(node, "PyroError without message")
            msg = x.args[0]
            head = msg
            while isinstance(head, ast.BinOp) and isinstance(head.op, ast.Add):
                self.message_part(head.right, env)
                head = head.left
            try:
                text = self.consteval(head, env)
            except KeyError:
                self.bad(node, "message does not start with a constant")
            if type(text) is not str:
                self.bad(node, "message")
            for prefix, kind in ERR_KINDS:
                if text.startswith(prefix):
                    return cls, "(Pyro.UriPy.Exc.pyro Pyro.Uri.Err.%s)" % kind
            self.bad(node, "unknown PyroError message %r" % text)
        if cls is TypeError:
            return cls, "Pyro.UriPy.Exc.typeError"
        if cls is ValueError:
            return cls, "Pyro.UriPy.Exc.valueError"
        self.bad(node, "raise of %r" % (cls,))

    def message_part(self, node, env):
        """a non-leading part of an error message: must be in the fragment, its text is not part of the model"""
        if isinstance(node, ast.Call) and isinstance(node.func, ast.Name) and node.func.id == "str" \
                and "str" not in env.names and len(node.args) == 1 and not node.keywords:
            self.ex(node.args[0], env)
            return
        self.ex(node, env)

    def handler_classes(self, h):
        if h.type is None:
            classes = [BaseException]
        elif isinstance(h.type, ast.Tuple):
            classes = [self.resolve(e) for e in h.type.elts]
        else:
            classes = [self.resolve(h.type)]
        for c in classes:
            if not (isinstance(c, type) and issubclass(c, BaseException)):
                self.bad(h, "except of a non-class")
        return tuple(classes)

    def raise_static(self, cls, term, env, handlers, ind):
        """an exception of a statically known class travels up the handler stack"""
        for i, (classes, fn) in enumerate(handlers):
            if issubclass(cls, classes):
                return fn(env, handlers[i + 1:], ind)
        return "(.error %s)" % term

    def raise_dynamic(self, var, possible, env, handlers, ind):
        """exception held by the Lean variable `var`; `possible` = python classes it may have"""
        pad = "  " * ind
        for i, (classes, fn) in enumerate(handlers):
            caught = [n for c, n in self.universe if issubclass(c, classes)]
            if not any(issubclass(c, classes) for c in possible):
                continue
            a = fn(env, handlers[i + 1:], ind + 1)
            rest_possible = [c for c in possible if not issubclass(c, classes)]
            if not rest_possible:
                # every class the primitive can raise is caught here; keep the test (cheap, and it shows the classes)
                pass
            b = self.raise_dynamic(var, rest_possible or possible, env, handlers[i + 1:], ind + 1)
            return "(if Pyro.UriPy.catches [%s] %s = true then\n%s  %s\n%selse\n%s  %s)" % (
                ", ".join(caught), var, pad, a, pad, pad, b)
        return "(.error %s)" % var

    # ------------------------------------------------------------------ possibly raising right-hand sides
    def rhs(self, node, env, handlers, kont, ind):
        """translate an expression that may be a raising primitive; kont(term, type, ind) gives the continuation"""
        pad = "  " * ind
        if isinstance(node, ast.Call) and isinstance(node.func, ast.Name) and node.func.id == "int" \
                and "int" not in env.names and len(node.args) == 1 and not node.keywords:
            a, ta = self.ex(node.args[0], env)
            a = self.coerce(a, ta, "PV", node)
            v, e = self.fresh(), self.fresh()
            ok = kont(v, "INT", ind + 2)
            er = self.raise_dynamic(e, [ValueError, TypeError], env, handlers, ind + 2)
            return "(match Pyro.UriPy.pyIntPV %s with\n%s  | .ok %s =>\n%s    %s\n%s  | .error %s =>\n%s    %s)" % (
                a, pad, v, pad, ok, pad, e, pad, er)
        if isinstance(node, ast.BinOp) and isinstance(node.op, ast.Mod):
            try:
                fmt = self.consteval(node.left, env)
            except KeyError:
                self.bad(node, "% with a non-constant format")
            if type(fmt) is not str:
                self.bad(node, "% on a number")
            args = node.right.elts if isinstance(node.right, ast.Tuple) else [node.right]
            pieces = re.split(r"(%.)", fmt)
            specs = [p for p in pieces if len(p) == 2 and p[0] == "%"]
            if any(s not in ("%s", "%d") for s in specs) or len(specs) != len(args):
                self.bad(node, "format string %r" % fmt)
            return self.format(pieces, list(args), [], env, handlers, kont, ind, node)
        t, ty = self.ex(node, env)
        return kont(t, ty, ind)

    def format(self, pieces, args, done, env, handlers, kont, ind, node):
        pad = "  " * ind
        while pieces:
            p = pieces.pop(0)
            if p == "%s":
                a, ta = self.ex(args.pop(0), env)
                done.append("Pyro.UriPy.fmtS %s" % self.coerce(a, ta, "OT", node))
            elif p == "%d":
                a, ta = self.ex(args.pop(0), env)
                a = self.coerce(a, ta, "PV", node)
                v, e = self.fresh(), self.fresh()
                ok = self.format(pieces, args, done + [v], env, handlers, kont, ind + 2, node)
                er = self.raise_dynamic(e, [TypeError], env, handlers, ind + 2)
                return "(match Pyro.UriPy.fmtD %s with\n%s  | .ok %s =>\n%s    %s\n%s  | .error %s =>\n%s    %s)" % (
                    a, pad, v, pad, ok, pad, e, pad, er)
            elif p:
                done.append(lean_text(p))
        return kont("(" + " ++ ".join(done) + ")" if done else "[]", "T", ind)

    # ------------------------------------------------------------------ statements
    def assign(self, targets, t, ty, env, node, const=None):
        """bind (term, type) to every target; returns the new environment (`const` = python value when the right-hand
        side is a constant: remembered for locals so that e.g. a format string may be named first)"""
        env = env.copy()
        for tg in targets:
            if isinstance(tg, ast.Tuple):
                if not (isinstance(ty, tuple) and ty[0] == "TUP" and len(ty[1]) == len(tg.elts)):
                    self.bad(node, "unpacking of " + str(ty))
                n = len(tg.elts)
                for i, (sub, sty) in enumerate(zip(tg.elts, ty[1])):
                    proj = t + "".join([".2"] * i) + (".1" if i < n - 1 else "")
                    env = self.assign([sub], proj, sty, env, node)
            elif isinstance(tg, ast.Name):
                if tg.id == "self":
                    self.bad(node, "assignment to self")
                env.consts.pop(tg.id, None)
                if tg.id == "_":
                    env.names.pop("_", None)        # a dummy: unbound again, a later read is refused
                else:
                    env.names[tg.id] = (t, ty)
                    if const is not None:
                        env.consts[tg.id] = const
            elif isinstance(tg, ast.Attribute) and isinstance(tg.value, ast.Name) and tg.value.id == "self" \
                    and tg.attr in ATTR_TYPES:
                self.coerce(t, ty, ATTR_TYPES[tg.attr], node)      # must fit the attribute's domain
                env.attrs[tg.attr] = (t, ty, True)
            else:
                self.bad(node, "assignment target")
        return env

    def is_skippable(self, st):
        if isinstance(st, ast.Pass):
            return True
        if isinstance(st, ast.Expr):
            v = st.value
            if isinstance(v, ast.Constant) and isinstance(v.value, str):
                return True
            if isinstance(v, ast.Call) and isinstance(v.func, ast.Attribute) and isinstance(v.func.value, ast.Name) \
                    and v.func.value.id == "log":
                return True
        if isinstance(st, ast.AnnAssign) and st.value is None:
            return True
        return False

    def run(self, stmts, env, k, ret, handlers, ind, depth=0):
        """stmts then continuation k(env, ind); `ret(env, value_node, ind)` is what `return` means here"""
        if not stmts:
            return k(env, ind)
        st, rest = stmts[0], stmts[1:]
        nxt = lambda e, i: self.run(rest, e, k, ret, handlers, i, depth)
        if self.is_skippable(st):
            return nxt(env, ind)
        if isinstance(st, (ast.Return, ast.Assign, ast.AnnAssign)) and st.value is not None:
            h = self.hoist(st.value)
            if h is not None:
                # `x = A if c else B` / `return (A if c else B) % y`: the test is the first thing evaluated, so this is
                # `if c: x = A  else: x = B` (same branching as an If statement; the continuation follows each branch)
                test, a, b = h
                def variant(v):
                    if isinstance(st, ast.Return):
                        n = ast.Return(value=v)
                    elif isinstance(st, ast.Assign):
                        n = ast.Assign(targets=st.targets, value=v)
                    else:
                        n = ast.AnnAssign(target=st.target, annotation=st.annotation, value=v, simple=st.simple)
                    return ast.copy_location(n, st)
                branch = ast.copy_location(ast.If(test=test, body=[variant(a)], orelse=[variant(b)]), st)
                return self.run([branch] + list(rest), env, k, ret, handlers, ind, depth)
        if isinstance(st, ast.Return):
            return ret(env, st.value, handlers, ind)
        if isinstance(st, ast.Raise):
            cls, term = self.exc_of_raise(st, env)
            return self.raise_static(cls, term, env, handlers, ind)
        if isinstance(st, (ast.Assign, ast.AnnAssign)):
            targets = st.targets if isinstance(st, ast.Assign) else [st.target]
            try:
                cv = self.consteval(st.value, env)
            except KeyError:
                cv = None
            return self.rhs(st.value, env, handlers,
                            lambda t, ty, i: nxt(self.assign(targets, t, ty, env, st, cv), i), ind)
        if isinstance(st, ast.If):
            return self.cond(st.test, env,
                             lambda e, i: self.run(st.body, e, nxt, ret, handlers, i, depth),
                             lambda e, i: self.run(st.orelse, e, nxt, ret, handlers, i, depth), ind)
        if isinstance(st, ast.Try):
            if st.orelse or st.finalbody or not st.handlers:
                self.bad(st, "try with else/finally")
            inner = list(handlers)
            new = []
            for h in st.handlers:
                if h.name is not None:
                    self.bad(h, "except ... as name")
                classes = self.handler_classes(h)
                new.append((classes, (lambda body: lambda e, outer, i: self.run(
                    body, e, lambda e2, i2: self.run(rest, e2, k, ret, outer, i2, depth), ret, outer, i, depth))(h.body)))
            # handlers of one try are alternatives: a handler body's own exceptions go to the OUTER handlers
            stack = [(c, (lambda fn: lambda e, _outer, i: fn(e, handlers, i))(fn)) for c, fn in new] + inner
            return self.run(st.body, env, nxt, ret, stack, ind, depth)
        if isinstance(st, ast.Expr) and isinstance(st.value, ast.Call):
            c = st.value
            f = c.func
            if isinstance(f, ast.Attribute) and isinstance(f.value, ast.Name) and f.value.id == "self" \
                    and "self" not in env.names and f.attr.startswith("_") and not f.attr.startswith("__") \
                    and not c.keywords and depth < 3:
                fn = inspect.getattr_static(self.cls, f.attr, None)
                if inspect.isfunction(fn):
                    fdef = self.fundef(fn)
                    params = [a.arg for a in fdef.args.args]
                    if self.plain_args(fdef) and len(params) == len(c.args) + 1 and params[0] == "self":
                        names = {p: self.ex(a, env) for p, a in zip(params[1:], c.args)}
                        callee = Env(names, env.attrs)

                        def back(e, value, hs, i):
                            if value is not None and not (isinstance(value, ast.Constant) and value.value is None):
                                self.bad(st, "value returned by an inlined procedure")
                            return nxt(Env(env.names, e.attrs), i)
                        return self.run(fdef.body, callee, lambda e, i: back(e, None, handlers, i), back,
                                        handlers, ind, depth + 1)
            self.bad(st, "call statement")
        self.bad(st)

    def hoist(self, node):
        """(test, expr-if-true, expr-if-false) when a conditional expression sits where it is evaluated FIRST in `node`
        (the whole expression, or the leftmost operand of a chain of binary operators); else None"""
        if isinstance(node, ast.IfExp):
            return node.test, node.body, node.orelse
        if isinstance(node, ast.BinOp):
            h = self.hoist(node.left)
            if h is not None:
                mk = lambda l: ast.copy_location(ast.BinOp(left=l, op=node.op, right=node.right), node)
                return h[0], mk(h[1]), mk(h[2])
        return None

    def plain_args(self, fdef):
        a = fdef.args
        return not (a.vararg or a.kwarg or a.kwonlyargs or a.defaults or a.posonlyargs or a.kw_defaults)

    def fundef(self, fn):
        tree = ast.parse(textwrap.dedent(inspect.getsource(fn)))
        fdef = tree.body[0]
        if not isinstance(fdef, ast.FunctionDef):
            raise Untranslatable("not a plain function: %r" % (fn,))
        return fdef

    # ------------------------------------------------------------------ entry points
    def leaf_self(self, env, node):
        upd = []
        for a in ("sockname", "host", "port"):
            if a in env.attrs and env.attrs[a][2]:
                t, ty, _ = env.attrs[a]
                upd.append("%s := %s" % (a, self.coerce(t, ty, ATTR_TYPES[a], node)))
        return "(.ok { self with %s })" % ", ".join(upd) if upd else "(.ok self)"

    def procedure(self, fn, name, param_types):
        """a method that mutates self and returns None  ->  def name (self) (p1 …) : Except Exc Self"""
        self.counter = 0
        fdef = self.fundef(fn)
        params = [a.arg for a in fdef.args.args]
        if not self.plain_args(fdef) or params[:1] != ["self"] or len(params) != len(param_types) + 1:
            raise Untranslatable("signature of %s" % fdef.name)
        lean_ty = {"OT": "Option Pyro.Uri.Text", "PV": "Pyro.UriPy.PortVal"}
        names = {p: ("p%d" % (i + 1), ty) for i, (p, ty) in enumerate(zip(params[1:], param_types))}
        env = Env(names, {})

        def ret(e, value, hs, ind):
            if value is not None and not (isinstance(value, ast.Constant) and value.value is None):
                self.bad(fdef, "procedure returns a value")
            return self.leaf_self(e, fdef)
        body = self.run(fdef.body, env, lambda e, i: ret(e, None, [], i), ret, [], 2)
        sig = " ".join("(p%d : %s)" % (i + 1, lean_ty[ty]) for i, ty in enumerate(param_types))
        return "def %s (self : Pyro.UriPy.Self) %s : Except Pyro.UriPy.Exc Pyro.UriPy.Self :=\n  %s\n" % (name, sig, body)

    def getter(self, fn, name):
        """a read-only method/property returning None | str  ->  def name (self) : Except Exc (Option Text)"""
        self.counter = 0
        fdef = self.fundef(fn)
        params = [a.arg for a in fdef.args.args]
        if not self.plain_args(fdef) or params != ["self"]:
            raise Untranslatable("signature of %s" % fdef.name)

        def ret(e, value, hs, ind):
            if any(v[2] for v in e.attrs.values()):
                self.bad(fdef, "getter assigns to self")
            if value is None:
                return "(.ok none)"
            return self.rhs(value, e, hs, lambda t, ty, i: "(.ok %s)" % self.coerce(t, ty, "OT", fdef), ind)
        body = self.run(fdef.body, Env({}, {}), lambda e, i: ret(e, None, [], i), ret, [], 2)
        return "def %s (self : Pyro.UriPy.Self) : Except Pyro.UriPy.Exc (Option Pyro.Uri.Text) :=\n  %s\n" % (name, body)


def translate_uri(core, errors):
    """Lean definitions (text) transcribed from the imported `core.URI`"""
    tr = Translator(core, core.URI, errors)
    out = [tr.procedure(inspect.getattr_static(core.URI, "_parseLocation"), "parseLocationSrc", ["OT", "PV"])]
    prop = inspect.getattr_static(core.URI, "location")
    if not isinstance(prop, property) or prop.fset is not None or prop.fget is None:
        raise Untranslatable("URI.location is not a read-only property")
    out.append(tr.getter(prop.fget, "locationSrc"))
    return "\n".join(out)
