"""C15 (extension) — release skeletons: what every public NameServer method does to `self.lock` on EVERY path out of it.

`release_skeletons(cls_node, module)` abstracts each public method of the class to a term of `Pyro.LockRelease.Rk`
(lean/PyroModel/LockRelease.lean): lock operations + control flow (sequence, branches, loops, try/except/finally, return, raise,
"an exception may leave here"); everything else is dropped.  `Pyro.LockRelease.releasedOnAllPaths` decides on the term whether every
path (normal end, early return, exception) ends at the lock depth it started at; `released_sound` proves what that means.

Normalisations (so that harmless refactorings do not change the verdict): helper methods of the class are inlined (`call`), a
`@contextmanager` helper used in a `with` is inlined with the with-body substituted for its `yield`, names never appear in a skeleton,
adjacent "may raise" points are merged.  Anything not understood raises `Unrecognised` (the caller has to treat that as a refusal).
"""
import ast
import contextlib


class Unrecognised(Exception):
    """the method uses the lock (or control flow) in a way the abstraction does not understand"""


NOP, ACQ, REL, MAY, RAISE, RET = (".nop",), (".acquire",), (".release",), (".mayRaise",), (".raise",), (".ret",)
MAX_INLINE = 3


def _seq(parts):
    flat = []
    for p in parts:
        for q in (p[1] if p[0] == "seq*" else [p]):
            if q == NOP or (q == MAY and flat and flat[-1] == MAY):
                continue
            flat.append(q)
    if not flat:
        return NOP
    if len(flat) == 1:
        return flat[0]
    return ("seq*", flat)


def _alt(parts):
    uniq = []
    for p in parts:
        if p not in uniq:
            uniq.append(p)
    if not uniq:
        return NOP
    out = uniq[-1]
    for p in reversed(uniq[:-1]):
        out = (".alt", p, out)
    return out


def _has_ret(sk):
    """a `ret` that can leave sk (not one inside an inlined call)"""
    if sk == RET:
        return True
    if sk[0] == ".call":
        return False
    if sk[0] == "seq*":
        return any(_has_ret(x) for x in sk[1])
    return any(_has_ret(x) for x in sk[1:] if isinstance(x, tuple))


def _render(sk):
    if sk[0] == "seq*":
        items = sk[1]
        out = _render(items[-1])
        for p in reversed(items[:-1]):
            out = "(.seq %s %s)" % (_render(p), out)
        return out
    if len(sk) == 1:
        return sk[0]
    return "(%s %s)" % (sk[0], " ".join(_render(x) for x in sk[1:]))


def release_skeletons(cls_node, module):
    """{public method name: Lean term text of Pyro.LockRelease.Rk}; raises Unrecognised"""
    methods = {n.name: n for n in cls_node.body if isinstance(n, ast.FunctionDef)}
    for n in cls_node.body:
        if isinstance(n, ast.AsyncFunctionDef):
            raise Unrecognised("async method %s" % n.name)

    def dotted(e):
        if isinstance(e, ast.Name):
            return [e.id]
        if isinstance(e, ast.Attribute):
            d = dotted(e.value)
            return d + [e.attr] if d else None
        return None

    def is_ctxmgr(fn):
        for dec in fn.decorator_list:
            d = dotted(dec)
            if not d:
                continue
            if d[-1] == "contextmanager":
                return True
            obj = module
            try:
                for part in d:
                    obj = getattr(obj, part)
            except AttributeError:
                continue
            if obj is contextlib.contextmanager:
                return True
        return False

    def is_self(e, attr=None):
        return isinstance(e, ast.Attribute) and isinstance(e.value, ast.Name) and e.value.id == "self" and (attr is None or e.attr == attr)

    def is_lock(e):
        return is_self(e, "lock")

    def mentions_lock(node):
        for c in ast.walk(node):
            if is_lock(c):
                return True
            if isinstance(c, ast.Constant) and c.value == "lock":
                return True          # getattr(self, "lock"), self.__dict__["lock"], ...
            if is_self(c) and c.attr in methods and c.attr != "lock":
                return True          # a closure that calls back into the class: it may take the lock when it runs
        return False

    def lock_op(e):
        """'acquire' / 'release' when e is exactly `self.lock.acquire()` / `self.lock.release()`"""
        if isinstance(e, ast.Call) and isinstance(e.func, ast.Attribute) and is_lock(e.func.value):
            if e.func.attr in ("acquire", "release") and not e.args and not e.keywords:
                return e.func.attr
            raise Unrecognised("self.lock.%s(...) line %d" % (e.func.attr, e.lineno))
        return None

    def inline(name, depth):
        if depth >= MAX_INLINE:
            raise Unrecognised("helper calls nested deeper than %d (%s)" % (MAX_INLINE, name))
        fn = methods[name]
        if is_ctxmgr(fn):
            raise Unrecognised("context manager helper %s called outside a with statement" % name)
        return (".call", stmts(fn.body, depth + 1, None))

    def ex(e, depth):
        """what evaluating the expression (or expression-like node) e does"""
        if e is None or isinstance(e, (ast.Name, ast.Constant, ast.expr_context, ast.operator, ast.unaryop, ast.cmpop, ast.boolop)):
            if isinstance(e, ast.Constant) and e.value == "lock":
                raise Unrecognised('the string "lock" line %d' % e.lineno)
            return NOP
        if is_lock(e):
            raise Unrecognised("self.lock used other than by with / acquire() / release(), line %d" % e.lineno)
        if isinstance(e, ast.Lambda):
            if mentions_lock(e):
                raise Unrecognised("lambda that uses the lock, line %d" % e.lineno)
            return NOP
        if isinstance(e, (ast.Await, ast.Yield, ast.YieldFrom)):
            raise Unrecognised("yield / await inside an expression, line %d" % e.lineno)
        if isinstance(e, ast.BoolOp):
            return _seq([ex(e.values[0], depth), _alt([NOP, _seq([ex(v, depth) for v in e.values[1:]])]), MAY])
        if isinstance(e, ast.IfExp):
            return _seq([ex(e.test, depth), _alt([ex(e.body, depth), ex(e.orelse, depth)]), MAY])
        if isinstance(e, (ast.ListComp, ast.SetComp, ast.DictComp, ast.GeneratorExp)):
            g0 = e.generators[0]
            inner = [MAY] + [ex(i, depth) for i in g0.ifs] + [ex(g.target, depth) for g in e.generators]
            for g in e.generators[1:]:
                inner += [ex(g.iter, depth)] + [ex(i, depth) for i in g.ifs]
            inner += [ex(x, depth) for x in ([e.key, e.value] if isinstance(e, ast.DictComp) else [e.elt])]
            return _seq([ex(g0.iter, depth), MAY, (".star", _seq(inner))])
        if isinstance(e, ast.Call) and is_self(e.func) and not is_lock(e.func):
            name = e.func.attr
            args = [ex(a, depth) for a in e.args] + [ex(k.value, depth) for k in e.keywords]
            if name not in methods:
                raise Unrecognised("call of self.%s which is not a method defined in the class, line %d" % (name, e.lineno))
            return _seq(args + [inline(name, depth)])         # the call itself (a bound method of the class) is not a raise point
        if lock_op(e):
            raise Unrecognised("self.lock.%s() inside an expression, line %d" % (lock_op(e), e.lineno))
        parts = [ex(c, depth) for c in ast.iter_child_nodes(e)]
        return _seq(parts + ([MAY] if isinstance(e, ast.expr) else []))

    def is_log_call(e):
        if not (isinstance(e, ast.Call) and isinstance(e.func, ast.Attribute) and isinstance(e.func.value, ast.Name) and e.func.value.id == "log"):
            return False
        return not mentions_lock(e) and not any(isinstance(c, ast.Call) for a in list(e.args) + [k.value for k in e.keywords] for c in ast.walk(a))

    def gen_yield_check(fn):
        ys = [c for c in ast.walk(fn) if isinstance(c, (ast.Yield, ast.YieldFrom))]
        stmt_level = [c for c in ast.walk(fn) if isinstance(c, ast.Expr) and isinstance(c.value, ast.Yield)]
        if len(ys) != 1 or len(stmt_level) != 1 or stmt_level[0].value is not ys[0]:
            raise Unrecognised("context manager %s: not exactly one statement-level yield" % fn.name)
        if any(isinstance(c, ast.Return) for c in ast.walk(fn)):
            raise Unrecognised("context manager %s: return statement in the generator" % fn.name)

    def with_items(items, body, depth, ybody):
        if not items:
            return body
        item, rest = items[0], items[1:]
        inner = with_items(rest, body, depth, ybody)
        c = item.context_expr
        target = ex(item.optional_vars, depth) if item.optional_vars is not None else NOP
        if is_lock(c):
            return _seq([ACQ, (".tryFinally", _seq([target, inner]), REL)])
        if isinstance(c, ast.Call) and is_self(c.func) and c.func.attr in methods and is_ctxmgr(methods[c.func.attr]):
            fn = methods[c.func.attr]
            if depth >= MAX_INLINE:
                raise Unrecognised("helper calls nested deeper than %d (%s)" % (MAX_INLINE, fn.name))
            gen_yield_check(fn)
            args = [ex(a, depth) for a in c.args] + [ex(k.value, depth) for k in c.keywords]
            wbody = _seq([target, inner])
            # an exception of the with-body is raised AT the yield: the generator's own try/finally decides what still runs
            direct = stmts(fn.body, depth + 1, wbody)
            if _has_ret(wbody):
                # a `return` in the with-body does NOT unwind the generator: it is resumed normally, and the caller returns
                # after the generator has finished.  Both readings are kept (the first over-approximates).
                resumed = _seq([stmts(fn.body, depth + 1, (".call", wbody)), RET])
                return _seq(args + [_alt([direct, resumed])])
            return _seq(args + [direct])
        # some other context manager: evaluating it / entering it may raise; it does not touch self.lock
        return _seq([ex(c, depth), MAY, target, inner])

    def stmts(body, depth, ybody):
        return _seq([stmt(s, depth, ybody) for s in body])

    def stmt(s, depth, ybody):
        if isinstance(s, ast.Expr):
            v = s.value
            if isinstance(v, ast.Constant):
                return NOP                                   # docstring
            if isinstance(v, ast.Yield):
                if ybody is None:
                    raise Unrecognised("yield outside a context manager helper, line %d" % s.lineno)
                return _seq([ex(v.value, depth), ybody])
            op = lock_op(v)
            if op:
                return ACQ if op == "acquire" else REL
            if is_log_call(v):
                return NOP
            return ex(v, depth)
        if isinstance(s, ast.With):
            return with_items(list(s.items), stmts(s.body, depth, ybody), depth, ybody)
        if isinstance(s, ast.If):
            return _seq([ex(s.test, depth), _alt([stmts(s.body, depth, ybody), stmts(s.orelse, depth, ybody)])])
        if isinstance(s, (ast.For, ast.While)):
            for c in ast.walk(s):
                if isinstance(c, (ast.Break, ast.Continue)):
                    raise Unrecognised("break / continue, line %d" % c.lineno)
            if isinstance(s, ast.For):
                return _seq([ex(s.iter, depth), MAY, (".star", _seq([MAY, ex(s.target, depth), stmts(s.body, depth, ybody)])),
                             stmts(s.orelse, depth, ybody)])
            test = ex(s.test, depth)
            return _seq([test, (".star", _seq([stmts(s.body, depth, ybody), test])), stmts(s.orelse, depth, ybody)])
        if isinstance(s, ast.Try):
            core = _seq([stmts(s.body, depth, ybody), stmts(s.orelse, depth, ybody)])
            if s.handlers:
                hs = [_seq([ex(h.type, depth), stmts(h.body, depth, ybody)]) for h in s.handlers]
                core = (".tryExcept", core, _alt(hs))
            if s.finalbody:
                core = (".tryFinally", core, stmts(s.finalbody, depth, ybody))
            return core
        if isinstance(s, ast.Return):
            return _seq([ex(s.value, depth), RET])
        if isinstance(s, ast.Raise):
            return _seq([ex(s.exc, depth), ex(s.cause, depth), RAISE])
        if isinstance(s, (ast.FunctionDef, ast.ClassDef, ast.AsyncFunctionDef)):
            if mentions_lock(s):
                raise Unrecognised("nested definition that uses the lock, line %d" % s.lineno)
            return NOP
        if isinstance(s, (ast.Pass, ast.Global, ast.Nonlocal)):
            return NOP
        if isinstance(s, (ast.Import, ast.ImportFrom)):
            return MAY
        if isinstance(s, ast.Assert):
            return _seq([ex(s.test, depth), ex(s.msg, depth), MAY])
        if isinstance(s, (ast.Assign, ast.AugAssign, ast.AnnAssign, ast.Delete)):
            if any(isinstance(c, (ast.Yield, ast.YieldFrom)) for c in ast.walk(s)):
                raise Unrecognised("yield not at statement level, line %d" % s.lineno)
            return _seq([ex(c, depth) for c in ast.iter_child_nodes(s)] + ([MAY] if isinstance(s, ast.AugAssign) else []))
        raise Unrecognised("statement %s, line %d" % (type(s).__name__, s.lineno))

    out = {}
    for name, fn in methods.items():
        if name.startswith("_"):
            continue
        ybody = None
        if is_ctxmgr(fn):
            gen_yield_check(fn)
            ybody = MAY                                      # a public context manager: its user's block may or may not raise
        out[name] = _render(stmts(fn.body, 0, ybody))
    return out


if __name__ == "__main__":
    import sys
    sys.path.insert(0, "/verif/harness")
    import common
    common.repo_on_path()
    from Pyro5 import nameserver
    path = sys.argv[1] if len(sys.argv) > 1 else nameserver.__file__
    tree = ast.parse(open(path).read())
    cls = [n for n in tree.body if isinstance(n, ast.ClassDef) and n.name == "NameServer"][0]
    for name, sk in sorted(release_skeletons(cls, nameserver).items()):
        print("%s: %d nodes\n  %s" % (name, sk.count(".")  , sk))
