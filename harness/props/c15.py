"""C15 — name server operations are atomic under concurrent clients."""
import ast
import itertools
import json
import os
import threading

import common
import sched as S

ID = "C15"
LEAN_MODEL_TARGETS = ["drv_c15"]
LEAN_PROOF_TARGETS = ["PyroProps.C15Src", "PyroProps.C15"]
AUDIT_FILES = ["PyroModel/Lock.lean", "PyroModel/NsOps.lean", "PyroModel/Gen/C15.lean", "PyroModel/LockSkeleton.lean", "PyroProofs/Lock.lean",
               "PyroProps/C15.lean", "PyroModel/LockRelease.lean", "PyroModel/NsOpsEmb.lean", "PyroModel/Gen/C15Src.lean", "PyroProps/C15Src.lean",
               # read-only imports from C14 (the transcription's vocabulary and the proof that it equals the hand-written methods)
               "PyroProofs/NsSrcTr.lean", "PyroModel/NameServer.lean", "PyroModel/NsSrc.lean",
               "PyroProofs/NSLists.lean", "PyroProofs/NSRefine.lean", "PyroProofs/NSMem.lean"]
THEOREMS = ["Pyro.C15.C15_gen_locked", "Pyro.C15.C15_source_every_access_locked", "Pyro.C15.C15_linearizable", "Pyro.C15.C15_results_explained",
            "Pyro.C15.C15_safe_register_once", "Pyro.C15.C15_remove_once", "Pyro.C15.C15_failed_no_effect", "Pyro.Lock.atomic", "Pyro.Lock.book",
            "Pyro.C15.C15_gen_released", "Pyro.C15.C15_source_lock_released_on_all_paths",
            "Pyro.C15.Tr.C14_ns_translated", "Pyro.C15.C15_ops_translated", "Pyro.C15.C15_source_seq_translated", "Pyro.C15.C15_source_linearizable",
            "Pyro.C15.C15_source_results_explained", "Pyro.C15.C15_source_failed_no_effect", "Pyro.C15.C15_source_safe_register_once",
            "Pyro.C15.C15_source_remove_once", "Pyro.LockRelease.released_sound"]
SUITES = ["sequential", "interleaved"]
RULE = ("(a) sequential histories of register/set_metadata/remove/remove-prefix/lookup/count/list on the real NameServer vs the "
        "model; (b) small sets of concurrent client programs (1-2 ops each, shared names) run on the REAL NameServer under the "
        "deterministic scheduler: all schedules up to a preemption bound (2 quick / 3 thorough) at the granularity of every "
        "storage access and lock operation, then seeded random schedules; each outcome (all results + final listing) must be "
        "explained by a sequential order respecting program order; non-trivial = a schedule with >= 1 context switch inside an "
        "operation body or a sequential history with >= 1 successful mutation; distinct = distinct (program set, schedule)")
ASSUMPTIONS = ["single dict operations are atomic (GIL)", "preemption only matters at storage accesses and lock operations",
               "the OS scheduler is replaced by the enumerated / random schedules"]
TRUSTED = ["harness/sched.py (deterministic scheduler, instrumented RLock and storage)",
           "lock_skeletons() in harness/props/c15.py: the abstraction of each public NameServer method to its lock skeleton "
           "(`with self.lock` -> locked, every `self.storage` -> access, branches -> alt, loops / comprehensions -> star, helper methods "
           "of the class inlined, accesses inside lambdas / unconsumed generator expressions -> deferred = unlocked); what the skeleton "
           "means and that the check is sound is proved (LockSkeleton.allLocked_sound)"]

NAMES = ["a", "ab", "b", "Pyro.NameServer"]


CONSUMERS = {"list", "dict", "set", "tuple", "sorted", "any", "all", "sum", "max", "min", "frozenset", "len", "next"}


def lock_skeletons(cls):
    """{public method name: Lean term of Pyro.LockSkeleton.Sk}: what each entry point of the class does to `self.lock`
    and `self.storage`; calls of the class's own methods are inlined (depth <= 3), everything else is abstracted away"""
    methods = {n.name: n for n in cls.body if isinstance(n, ast.FunctionDef)}

    def seq(parts):
        parts = [p for p in parts if p != ".nop"]
        if not parts:
            return ".nop"
        out = parts[-1]
        for p in reversed(parts[:-1]):
            out = "(.seq %s %s)" % (p, out)
        return out

    def alt(parts):
        uniq = []
        for x in parts:
            if x not in uniq:
                uniq.append(x)
        parts = uniq or [".nop"]
        out = parts[-1]
        for p in reversed(parts[:-1]):
            out = "(.alt %s %s)" % (p, out)
        return out

    def is_lock(e):
        return isinstance(e, ast.Attribute) and e.attr == "lock" and getattr(e.value, "id", None) == "self"

    def expr(e, depth, deferred=False):
        """accesses made by evaluating e"""
        if e is None:
            return ".nop"
        if isinstance(e, ast.Attribute) and e.attr == "storage" and getattr(e.value, "id", None) == "self":
            return ".deferred" if deferred else ".access"
        if isinstance(e, (ast.Lambda, ast.GeneratorExp)):
            # runs when the closure / generator is run: not here
            return seq([expr(c, depth, True) for c in ast.iter_child_nodes(e)])
        if isinstance(e, ast.comprehension):
            return seq([expr(e.iter, depth, deferred), "(.star %s)" % seq([expr(i, depth, deferred) for i in e.ifs])])
        if isinstance(e, (ast.ListComp, ast.SetComp, ast.DictComp)):
            gens = [expr(g, depth, deferred) for g in e.generators]
            elts = [expr(x, depth, deferred) for x in ([e.key, e.value] if isinstance(e, ast.DictComp) else [e.elt])]
            return seq(gens + ["(.star %s)" % seq(elts)])
        if isinstance(e, ast.Call):
            f = e.func
            parts = []
            consumer = isinstance(f, ast.Name) and f.id in CONSUMERS or (isinstance(f, ast.Attribute) and f.attr == "join")
            for a in list(e.args) + [k.value for k in e.keywords]:
                if isinstance(a, ast.GeneratorExp) and consumer and not deferred:
                    # consumed on the spot: the generator's body runs here, any number of times
                    parts.append(seq([expr(g, depth, False) for g in a.generators] + ["(.star %s)" % expr(a.elt, depth, False)]))
                else:
                    parts.append(expr(a, depth, deferred))
            if isinstance(f, ast.Attribute) and getattr(f.value, "id", None) == "self" and f.attr in methods:
                if depth >= 3:
                    return seq(parts + [".deferred"])          # too deep to follow: refuse
                inner = stmts(methods[f.attr].body, depth + 1)
                return seq(parts + [".deferred" if (deferred and ".access" in inner) else inner])
            return seq([expr(f, depth, deferred)] + parts)
        return seq([expr(c, depth, deferred) if isinstance(c, (ast.expr, ast.comprehension)) else ".nop" for c in ast.iter_child_nodes(e)])

    def stmts(body, depth):
        return seq([stmt(st, depth) for st in body])

    def stmt(st, depth):
        if isinstance(st, ast.With):
            head = seq([expr(i.context_expr, depth) for i in st.items if not is_lock(i.context_expr)])
            body = stmts(st.body, depth)
            if any(is_lock(i.context_expr) for i in st.items):
                body = "(.locked %s)" % body
            return seq([head, body])
        if isinstance(st, ast.If):
            return seq([expr(st.test, depth), alt([stmts(st.body, depth), stmts(st.orelse, depth)])])
        if isinstance(st, (ast.For, ast.While)):
            head = expr(st.iter if isinstance(st, ast.For) else st.test, depth)
            return seq([head, "(.star %s)" % seq([stmts(st.body, depth), head if isinstance(st, ast.While) else ".nop"]), stmts(st.orelse, depth)])
        if isinstance(st, ast.Try):
            return seq([stmts(st.body, depth), alt([".nop"] + [stmts(h.body, depth) for h in st.handlers]),
                        stmts(st.orelse, depth), stmts(st.finalbody, depth)])
        if isinstance(st, (ast.FunctionDef, ast.ClassDef)):
            return seq([expr(c, depth, True) for c in ast.walk(st) if isinstance(c, ast.Attribute)])
        return seq([expr(c, depth) for c in ast.iter_child_nodes(st) if isinstance(c, ast.expr)])

    return {name: stmts(fn.body, 0) for name, fn in methods.items() if not name.startswith("_")}


def inline_test_locals(fn):
    """pre-pass before the translator (normalisation of a harmless refactoring): `x = <test>` IMMEDIATELY followed by `if x:` /
    `if not x:` where the local x is bound once and read once in the whole function -> the test is put back where it is tested.
    The expression is evaluated at the same point of the same block (so a storage access in it stays where it was, inside the
    lock or not), only the name disappears; anything else is left alone for the translator to accept or refuse."""
    stores, loads = {}, {}
    for n in ast.walk(fn):
        if isinstance(n, ast.Name):
            d = stores if isinstance(n.ctx, ast.Store) else loads
            d[n.id] = d.get(n.id, 0) + 1
    params = {a.arg for a in fn.args.args}

    def block(body):
        out = []
        i = 0
        while i < len(body):
            st = body[i]
            nxt = body[i + 1] if i + 1 < len(body) else None
            if (isinstance(st, ast.Assign) and len(st.targets) == 1 and isinstance(st.targets[0], ast.Name) and isinstance(nxt, ast.If)):
                x = st.targets[0].id
                t = nxt.test
                neg = isinstance(t, ast.UnaryOp) and isinstance(t.op, ast.Not)
                inner = t.operand if neg else t
                if (isinstance(inner, ast.Name) and inner.id == x and x not in params and stores.get(x) == 1 and loads.get(x) == 1
                        and isinstance(st.value, (ast.BoolOp, ast.Compare, ast.UnaryOp))):
                    nxt.test = ast.UnaryOp(op=ast.Not(), operand=st.value) if neg else st.value
                    i += 1
                    continue
            out.append(st)
            i += 1
        for st in out:
            for f in ("body", "orelse", "finalbody"):
                if isinstance(getattr(st, f, None), list) and getattr(st, f) and isinstance(getattr(st, f)[0], ast.stmt):
                    setattr(st, f, block(getattr(st, f)))
            for h in getattr(st, "handlers", []) or []:
                h.body = block(h.body)
        return out
    fn.body = block(fn.body)
    ast.fix_missing_locations(fn)
    return fn


def translate_normalised(c14_tr, nameserver):
    """c14_tr.translate with this check's own pre-pass on the method ASTs (the translator itself is C14's: not edited)"""
    tr = c14_tr.Tr(nameserver, nameserver.NameServer)
    for fn in tr.methods.values():
        inline_test_locals(fn)
    order = ["count", "lookup", "register", "set_metadata", "list", "remove", "yplookup"]
    defs = ["/-- transcription of `NameServer.%s` -/\n%s" % (m, tr.method(m)) for m in order]
    return ("-- GENERATED by harness/props/c14_tr.py from the source of Pyro5/nameserver.py (class NameServer) — do not edit\n"
            "import PyroModel.NameServer\nimport PyroModel.NsSrc\n"
            "set_option linter.unusedVariables false\nnamespace Pyro.Gen.C14Src\nopen Pyro.NS Pyro.NS.Src\n\n" + "\n".join(defs) + "\n" + c14_tr.DISPATCH +
            "\nend Pyro.Gen.C14Src\n")


def extract():
    common.repo_on_path()
    from Pyro5 import nameserver
    src = open(nameserver.__file__).read()
    tree = ast.parse(src)
    cls = [n for n in tree.body if isinstance(n, ast.ClassDef) and n.name == "NameServer"][0]
    lock_kind = "unknown"
    for fn in cls.body:
        if isinstance(fn, ast.FunctionDef) and fn.name == "__init__":
            for node in ast.walk(fn):
                if isinstance(node, ast.Assign) and any(isinstance(t, ast.Attribute) and t.attr == "lock" for t in node.targets):
                    if isinstance(node.value, ast.Call):
                        lock_kind = getattr(node.value.func, "attr", getattr(node.value.func, "id", "unknown"))
    sks = lock_skeletons(cls)
    rows = ",\n  ".join('("%s", %s)' % (k, v) for k, v in sks.items())
    # the dual skeleton: what every public method does to the lock itself on every way out (normal, return, exception)
    from props import c15_rel
    rel = c15_rel.release_skeletons(cls, nameserver)       # raises c15_rel.Unrecognised: the tie is reported as broken
    rel_rows = ",\n  ".join('("%s", %s)' % (k, v) for k, v in rel.items())
    # the method BODIES: the transcription of NameServer's methods (translator of C14, imported read-only) into this check's
    # own generated module; PyroProofs/NsSrcTr.lean proves it equal to the hand-written methods, PyroProps/C15Src.lean that NsOps computes the same
    from props import c14_tr
    src = translate_normalised(c14_tr, nameserver)         # raises c14_tr.Untranslatable: broken tie
    src = src.replace("Pyro.Gen.C14Src", "Pyro.Gen.C15Src").replace(
        "-- GENERATED by harness/props/c14_tr.py", "-- GENERATED by harness/props/c15.py (translator: harness/props/c14_tr.py)")
    common.write_if_changed(os.path.join(common.LEAN, "PyroModel", "Gen", "C15Src.lean"), src)
    return f"""-- GENERATED by harness/props/c15.py from Pyro5/nameserver.py — do not edit
import PyroModel.LockSkeleton
import PyroModel.LockRelease
namespace Pyro.Gen.C15
open Pyro.LockSkeleton
/-- lock skeleton of every public method of NameServer (calls of its own helper methods inlined) -/
def nsSkeletons : List (String × Sk) := [
  {rows}]
def lockKind : String := "{lock_kind}"
/-- release skeleton of every public method (harness/props/c15_rel.py): acquire / release of `self.lock`, the points where an
    exception may leave, returns, try/finally/except structure; `with self.lock:` = acquire; try body finally release -/
def nsRelease : List (String × Pyro.LockRelease.Rk) := [
  {rel_rows}]
end Pyro.Gen.C15
"""



# ---- the intended map, written independently of the Lean model (reference for linearizability) -------
class Ref:
    def __init__(self, d=None):
        self.d = dict(d or {})

    def do(self, op):
        k = op[0]
        if k == "R":
            _, n, u, safe, tags = op
            if safe and n in self.d:
                return "nerr"
            self.d[n] = (u, tuple(sorted(tags)))
            return "none"
        if k == "M":
            _, n, tags = op
            if n not in self.d:
                return "nerr"
            self.d[n] = (self.d[n][0], tuple(sorted(tags)))
            return "none"
        if k == "D":
            n = op[1]
            if n and n in self.d and n != "Pyro.NameServer":
                del self.d[n]
                return "rm1"
            return "rm0"
        if k == "P":
            p = op[1]
            if not p:
                return "rm0"
            items = [n for n in self.d if n.startswith(p) and n != "Pyro.NameServer"]
            for n in items:
                del self.d[n]
            return "rm%d" % len(items)
        if k == "L":
            n = op[1]
            if n in self.d:
                return "uri%d:%s" % (self.d[n][0], ",".join(map(str, self.d[n][1])) or "-")
            return "nerr"
        if k == "C":
            return "cnt%d" % len(self.d)
        if k == "S":
            p = op[1]
            return "names<" + ",".join("%s=%d" % (common.cps(n), self.d[n][0]) for n in self.d if n.startswith(p)) + ">"
        if k == "E":
            return "all<" + ",".join("%s=%d:%s" % (common.cps(n), v[0], ",".join(map(str, v[1])) or "-") for n, v in sorted(self.d.items())) + ">"
        raise ValueError(op)

    def listing(self):
        return tuple(sorted((n, v[0], v[1]) for n, v in self.d.items()))


def uri_of(u):
    return "PYRO:obj%d@localhost:9090" % u


KEPT = []      # (returned listing object, its canonical text at the moment it was returned)


def canon_all(d):
    return "all<" + ",".join("%s=%d:%s" % (common.cps(n), int(u.split(":")[1].split("@")[0][3:]),
                                             ",".join(str(t) for t in sorted(int(m[1:]) for m in (meta or ()))) or "-")
                             for n, (u, meta) in sorted(d.items())) + ">"


def _autoclean_pass(ns):
    """one pass of the REAL AutoCleaner thread body (Pyro5.nameserver.AutoCleaner.run) in the calling thread: every registered
    uri counts as unreachable for long enough, so the pass removes every name it listed (the reserved names excepted).  The
    cleaner is the one writer besides the clients that lives inside the server: its removals are operations like a client's."""
    import socket
    import time as real_time
    from Pyro5 import nameserver, config

    class Clock:
        def __init__(self):
            self.sleeps = 0
            self.cleaner = None

        def sleep(self, d):
            self.sleeps += 1
            if self.sleeps > 1:
                self.cleaner.stop = True          # one pass only

        def time(self):
            return 1.0e9

        def __getattr__(self, name):
            return getattr(real_time, name)

    def unreachable(*a, **k):
        raise socket.error("scripted: nothing answers")
    clock = Clock()
    saved = (config.NS_AUTOCLEAN, nameserver.time, nameserver.socketutil.create_socket)
    try:
        config.NS_AUTOCLEAN = 3
        cleaner = nameserver.AutoCleaner(ns)
        clock.cleaner = cleaner
        cleaner.max_unreachable_time = 0.0
        cleaner.last_cleaned = 0.0
        nameserver.time = clock
        nameserver.socketutil.create_socket = unreachable
        cleaner.run()
        return "none"
    finally:
        config.NS_AUTOCLEAN, nameserver.time, nameserver.socketutil.create_socket = saved


def real_do(ns, op):
    from Pyro5 import errors
    k = op[0]
    try:
        if k == "A":
            return _autoclean_pass(ns)
        if k == "E":
            d = ns.list(return_metadata=True)
            text = canon_all(d)
            KEPT.append((d, text))      # a listing is a value: it must not change after the call has returned
            return text
        if k == "R":
            _, n, u, safe, tags = op
            ns.register(n, uri_of(u), safe=safe, metadata=["t%d" % t for t in tags] or None)
            return "none"
        if k == "M":
            ns.set_metadata(op[1], ["t%d" % t for t in op[2]] or None)
            return "none"
        if k == "D":
            return "rm%d" % ns.remove(name=op[1])
        if k == "P":
            return "rm%d" % ns.remove(prefix=op[1])
        if k == "L":
            uri, meta = ns.lookup(op[1], return_metadata=True)
            return "uri%d:%s" % (int(uri.object[3:]), ",".join(str(t) for t in sorted(int(m[1:]) for m in meta)) or "-")
        if k == "C":
            return "cnt%d" % ns.count()
        if k == "S":
            d = ns.list(prefix=op[1] or None)
            return "names<" + ",".join("%s=%d" % (common.cps(n), int(u.split(":")[1].split("@")[0][3:])) for n, u in d.items()) + ">"
    except errors.NamingError:
        return "nerr"
    except Exception as x:     # an internal error is an outcome no sequential order explains
        return "EXC:" + type(x).__name__
    raise ValueError(op)


def real_listing(ns):
    out = []
    for n, (u, meta) in ns.storage.everything(return_metadata=True).items():
        out.append((n, int(u.split(":")[1].split("@")[0][3:]), tuple(sorted(int(m[1:]) for m in (meta or ())))))
    return tuple(sorted(out))


def op_tokens(op):
    k = op[0]
    tg = lambda t: ",".join(map(str, sorted(t))) or "-"
    if k == "R":
        return ["R", common.cps(op[1]), str(op[2]), "1" if op[3] else "0", tg(op[4])]
    if k == "M":
        return ["M", common.cps(op[1]), tg(op[2])]
    if k in "DPLS":
        return [k, common.cps(op[1])]
    if k == "E":
        return ["S", "-"]          # the model has one unfiltered listing; tags are compared by the real-code oracle
    return ["C"]


def gen_op(rng):
    r = rng.random()
    n = rng.choice(NAMES[:3] if rng.random() < 0.9 else NAMES)
    tags = rng.sample([1, 2, 3], rng.choice([0, 0, 1, 2]))
    if r < 0.3:
        return ("R", n, rng.randint(1, 9), rng.random() < 0.5, tags)
    if r < 0.4:
        return ("M", n, tags)
    if r < 0.55:
        return ("D", rng.choice([n, n, ""]))
    if r < 0.65:
        return ("P", rng.choice(["a", "b", "", "ab", "P"]))
    if r < 0.8:
        return ("L", n)
    if r < 0.9:
        return ("C",)
    return ("S", rng.choice(["", "a", "b"]))


def _sequential(ctx, n):
    from Pyro5 import nameserver
    rng = ctx.sub_rng("seq")
    lines, reals = [], []
    for i in range(n):
        ops = [gen_op(rng) for _ in range(rng.choice([1, 3, 6, 12]))]
        ns = nameserver.NameServer()
        ref = Ref()
        res = []
        for op in ops:
            r = real_do(ns, op)
            res.append(r)
            rr = ref.do(op)
            ctx.evaluations += 1
            if r != rr:
                ctx.fail("sequential-differs", "sequential %r returned %s, a plain map returns %s" % (op, r, rr), {"ops": ops})
                break
        toks = ["seq", str(len(ops))]
        for op in ops:
            toks += op_tokens(op)
        lines.append(" ".join(toks))
        reals.append(";".join(res) + " | " + ";".join("%s=%d:%s" % (common.cps(nm), u, ",".join(map(str, t)) or "-")
                                                         for nm, u, t in [(k, v[0], v[1]) for k, v in
                                                                          [(k, (int(v[0].split(":")[1].split("@")[0][3:]), tuple(sorted(int(m[1:]) for m in (v[1] or ())))))
                                                                           for k, v in ns.storage.items()]]))
        if any(r in ("none", "rm1") for r in res):
            ctx.nontriv(lines[-1])
    outs = common.run_driver("drv_c15", lines)
    ctx.corr_cases += len(lines)
    for l, r, o in zip(lines, reals, outs):
        if r != o:
            ctx.mismatch("sequential", {"line": l}, r, o)


# ---- all or nothing: an operation that fails leaves the map as it was (C15_failed_no_effect), on both back-ends -------------
def _all_or_nothing(ctx, n):
    import shutil
    import tempfile
    from Pyro5 import nameserver, errors
    rng = ctx.sub_rng("allornothing")
    tmp = tempfile.mkdtemp(prefix="c15sql")
    try:
        for h in range(n):
            backend = "sql" if h % 2 == 0 else "memory"
            if backend == "sql":
                store = nameserver.SqlStorage(os.path.join(tmp, "ns%d.sql" % h))
            else:
                store = nameserver.MemoryStorage()
            ns = nameserver.NameServer(store)
            ops = []
            for _ in range(rng.choice([2, 3, 5, 8])):
                r = rng.random()
                if r < 0.45:
                    ops.append(gen_op(rng))
                else:
                    # metadata the storage may refuse half way through the write: hashable (so the name server's own checks pass)
                    # but not storable everywhere
                    bad = rng.choice([[None], [("a", 1)], [None, "x"], ["x", None], [1.5, None]])
                    name = rng.choice(NAMES[:3])
                    ops.append(("R!", name, rng.randint(1, 9), rng.random() < 0.3, bad) if rng.random() < 0.6 else ("M!", name, bad))
            done = []
            for op in ops:
                before = dict(ns.storage.everything(return_metadata=True))
                failed = None
                try:
                    if op[0] == "R!":
                        ns.register(op[1], uri_of(op[2]), safe=op[3], metadata=op[4])
                    elif op[0] == "M!":
                        ns.set_metadata(op[1], op[2])
                    else:
                        if real_do(ns, op) == "nerr":
                            failed = "NamingError"
                except errors.NamingError:
                    failed = "NamingError"
                except Exception as x:
                    failed = type(x).__name__
                done.append(op)
                ctx.evaluations += 1
                after = dict(ns.storage.everything(return_metadata=True))
                if failed:
                    ctx.count("failed-op:" + backend)
                    if len(before) > 0:
                        ctx.nontriv(("aon", backend, repr(done)))
                if failed and after != before:
                    ctx.fail("failed-op-has-effect:" + backend, "%r failed with %s on the %s back-end but changed the map: %r -> %r"
                             % (op, failed, backend, sorted(before), sorted(after)),
                             {"backend": backend, "ops": [list(o) for o in done]})
                    break
            if backend == "sql":
                try:
                    store.close()
                except Exception:
                    pass
    finally:
        shutil.rmtree(tmp, ignore_errors=True)


# ---- concurrent programs on the real NameServer under the deterministic scheduler ---------------------
STORAGE_POINTS = ["__getitem__", "__setitem__", "__delitem__", "__contains__", "__len__", "__iter__", "keys", "items", "copy", "values"]

PROGRAM_SETS = [
    # (initial registrations, [thread programs])
    ({}, [[("R", "a", 1, True, [])], [("R", "a", 2, True, [])]]),
    ({}, [[("R", "a", 1, True, [])], [("R", "a", 2, True, [])], [("R", "a", 3, True, [])]]),
    ({"a": 1}, [[("D", "a")], [("D", "a")]]),
    ({"a": 1}, [[("D", "a")], [("D", "a")], [("D", "a")]]),
    ({"a": 1}, [[("D", "a")], [("L", "a"), ("C",)]]),
    ({"a": 1, "ab": 2}, [[("P", "a")], [("L", "a"), ("L", "ab")]]),
    ({"a": 1, "ab": 2}, [[("P", "a")], [("C",)], [("S", "")]]),
    ({"a": 1, "ab": 2}, [[("P", "a")], [("R", "a", 7, True, []), ("L", "a")]]),
    ({"a": 1}, [[("M", "a", [1])], [("R", "a", 5, False, [2])], [("L", "a")]]),
    ({"a": 1}, [[("D", "a")], [("R", "a", 3, True, [])], [("L", "a")]]),
    ({"a": 1, "b": 2}, [[("P", "a"), ("C",)], [("D", "b"), ("C",)]]),
    ({"a": 1, "ab": 2}, [[("P", "a")], [("D", "a")]]),
    ({"a": 1, "ab": 2}, [[("P", "a")], [("P", "a")]]),
    ({"a": 1, "ab": 2}, [[("P", "a")], [("D", "ab")], [("C",)]]),
    ({"a": 1}, [[("M", "a", [2])], [("D", "a")]]),
    ({"a": 1}, [[("M", "a", [2])], [("R", "a", 9, False, [])], [("L", "a")]]),
    ({}, [[("R", "a", 1, True, [])], [("R", "a", 2, False, [])], [("L", "a")]]),
    ({"a": 1, "b": 2}, [[("E",), ("C",)], [("D", "a"), ("R", "ab", 5, False, [1])]]),
    ({"a": 1}, [[("E",)], [("M", "a", [2])], [("R", "b", 3, True, [])]]),
    # a thread reads back what it has just written while another thread's lookup of that name is in flight
    ({"a": 1}, [[("L", "a")], [("R", "a", 5, False, []), ("L", "a")]]),
    ({"a": 1}, [[("L", "a")], [("D", "a"), ("L", "a")]]),
    ({"a": 1}, [[("L", "a")], [("M", "a", [2]), ("L", "a")]]),
    ({"a": 1, "ab": 2}, [[("L", "a")], [("P", "a"), ("L", "a"), ("C",)]]),
    ({"a": 1}, [[("L", "a"), ("L", "a")], [("R", "a", 5, False, [3])], [("D", "a")]]),
    # the auto-clean thread (one pass of the real AutoCleaner.run) next to clients
    ({"a": 1}, [[("A",)], [("D", "a")]]),
    ({"a": 1}, [[("A",)], [("M", "a", [2])], [("L", "a")]]),
    ({"a": 1, "ab": 2}, [[("A",)], [("P", "a")], [("C",)]]),
    ({"a": 1}, [[("A",)], [("R", "a", 5, False, [])], [("S", "")]]),
]

# after the threads have finished, the main thread looks at every name once more: whatever a race left behind
# (a stale cache, a half-applied update) is then part of the outcome that some sequential order has to explain
EPILOGUE = [("L", "a"), ("L", "b"), ("L", "ab"), ("C",), ("S", "")]


def wrapped_storage_class(nameserver):
    """a storage provider that is NOT a dict (the name server accepts any MutableMapping with the storage API): it keeps
    its entries in an inner MemoryStorage and forwards everything; the lock discipline must not depend on the storage type"""
    import collections.abc

    class WrappedStorage(collections.abc.MutableMapping):
        def __init__(self):
            self.inner = nameserver.MemoryStorage()

        def __getitem__(self, k):
            return self.inner[k]

        def __setitem__(self, k, v):
            self.inner[k] = v

        def __delitem__(self, k):
            del self.inner[k]

        def __contains__(self, k):
            return k in self.inner

        def __len__(self):
            return len(self.inner)

        def __iter__(self):
            return iter(self.inner)

        def keys(self):
            return self.inner.keys()

        def items(self):
            return self.inner.items()

        def values(self):
            return self.inner.values()

        def copy(self):
            return self.inner.copy()

        def optimized_prefix_list(self, prefix, return_metadata=False):
            return None

        def optimized_regex_list(self, regex, return_metadata=False):
            return None

        def optimized_metadata_search(self, metadata_all=None, metadata_any=None, return_metadata=False):
            return None

        def everything(self, return_metadata=False):
            if return_metadata:
                return self.copy()
            return {name: uri for name, (uri, metadata) in self.items()}

        def remove_items(self, items):
            for item in items:
                if item in self:
                    del self[item]

        def close(self):
            pass
    return WrappedStorage


def run_programs(policy, init, programs, wrapped=False):
    """one controlled execution on the real NameServer; returns (sched, outcome)"""
    from Pyro5 import nameserver
    sc = S.Sched(policy)
    if wrapped:
        cls = S.instrument_class(sc, wrapped_storage_class(nameserver), "storage", STORAGE_POINTS)
        ns = nameserver.NameServer(cls())
        for n, u in init.items():
            dict.__setitem__(ns.storage.inner, n, (uri_of(u), frozenset()))
    else:
        cls = S.instrument_class(sc, nameserver.MemoryStorage, "storage", STORAGE_POINTS)
        ns = nameserver.NameServer(cls())
        for n, u in init.items():
            dict.__setitem__(ns.storage, n, (uri_of(u), frozenset()))
    # the scheduler's lock takes the place of the name server's own lock object - of the same kind: re-entrant iff the real
    # one is, and no lock at all when the name server chose to have none (then only the storage operations are yield points)
    if hasattr(ns.lock, "acquire") and hasattr(ns.lock, "release"):
        ns.lock = S.ILock(sc, "ns.lock", reentrant=type(ns.lock) is type(threading.RLock()))
    results = [[None] * len(p) for p in programs]

    def mk(i, prog):
        def body():
            for j, op in enumerate(prog):
                results[i][j] = real_do(ns, op)
        return body
    del KEPT[:]
    for i, prog in enumerate(programs):
        sc.spawn(mk(i, prog))
    outcome = sc.run()
    for d, text in KEPT:
        try:
            now = canon_all(d)
        except Exception as x:
            now = "EXC:" + type(x).__name__
        if now != text:
            results[0][0] = "EXC:listing-changed-after-return(%s -> %s)" % (text, now)
    del KEPT[:]
    listing = tuple(sorted((n, int(v[0].split(":")[1].split("@")[0][3:]), tuple(sorted(int(m[1:]) for m in (v[1] or ()))))
                           for n, v in dict.items(ns.storage.inner if wrapped else ns.storage)))
    if outcome == "ok":
        ns.lock = threading.RLock()          # the scheduler is gone; the epilogue runs on the plain object
        listing = (listing, tuple(real_do(ns, op) for op in EPILOGUE))
    else:
        listing = (listing, ())
    return sc, (outcome, tuple(tuple(r) for r in results), listing)


def sequential_outcomes(init, programs):
    """every outcome some sequential order (respecting each thread's program order) produces"""
    outs = set()

    def rec(ref, rem, results):
        if all(not r for r in rem):
            r3 = Ref(ref.d)
            outs.add((tuple(tuple(r) for r in results), (ref.listing(), tuple(r3.do(op) for op in EPILOGUE))))
            return
        for i in range(len(rem)):
            if rem[i]:
                op = rem[i][0]
                r2 = Ref(ref.d)
                nr = [list(r) for r in results]
                nrem = [list(r) for r in rem]
                if op[0] == "A":
                    # an auto-clean pass: one atomic listing, then one atomic removal per listed name (a name that has gone
                    # in the meantime is simply not there any more); its result is None
                    names = [n for n in r2.d if n not in ("Pyro.NameServer", "Pyro.Daemon")]
                    nrem[i] = [("a-rm", n) for n in names] + [("a-end",)] + nrem[i][1:]
                elif op[0] == "a-rm":
                    r2.do(("D", op[1]))
                    nrem[i] = nrem[i][1:]
                elif op[0] == "a-end":
                    nr[i].append("none")
                    nrem[i] = nrem[i][1:]
                else:
                    nr[i].append(r2.do(op))
                    nrem[i] = nrem[i][1:]
                rec(r2, nrem, nr)
    rec(Ref({n: (u, ()) for n, u in init.items()}), [list(p) for p in programs], [[] for _ in programs])
    return outs


def _explore_set(ctx, init, programs, bound, max_runs, rng, nrandom, wrapped=False):
    allowed = sequential_outcomes(init, programs)
    found = False

    def judge(prefix, sc, out):
        nonlocal found
        outcome, results, listing = out
        ctx.evaluations += 1
        switches = sum(1 for a, b in zip(sc.trace, sc.trace[1:]) if a[0] != b[0])
        if switches >= 2:
            ctx.nontriv((repr(programs), tuple(t for t, _ in sc.trace)))
        ctx.count("sched:" + outcome)
        bad = None
        if outcome != "ok":
            bad = ("deadlock", "schedule ends in %s" % outcome)
        elif any(isinstance(r, str) and r.startswith("EXC:") for rs in results for r in rs):
            bad = ("internal-error", "an operation failed with an internal error: %r" % (results,))
        elif (results, listing) not in allowed:
            bad = ("not-linearizable", "outcome %r / final map %r is explained by no sequential order" % (results, listing))
        if bad and not found:
            found = True
            kinds = sorted({op[0] for p in programs for op in p})
            ctx.fail("ns-race:" + bad[0] + ":" + "".join(kinds), "%s; programs %r on initial map %r%s, schedule %r"
                     % (bad[1], programs, init, " (storage provider that is not a dict)" if wrapped else "", [t for t, _ in sc.trace]),
                     {"init": init, "programs": programs, "schedule": [t for t, _ in sc.trace], "wrapped": wrapped})
        return bad
    for prefix, sc, out in S.explore(lambda pol: run_programs(pol, init, programs, wrapped), bound, max_runs):
        if judge(prefix, sc, out) and not ctx.search_mode:
            return
        if len(ctx.samples) < 4 and len(sc.trace) > 6 and rng.random() < 0.02:
            ctx.sample({"programs": programs, "init": init, "schedule": [t for t, _ in sc.trace], "results": out[1]})
    for _ in range(nrandom):
        sc, out = run_programs(S.random_policy(rng, 0.5), init, programs, wrapped)
        if judge(None, sc, out) and not ctx.search_mode:
            return


def _interleaved(ctx):
    rng = ctx.sub_rng("sched")
    bound = 3 if ctx.tier == "thorough" else 2
    max_runs = ctx.n(150, 2500)
    sets = list(PROGRAM_SETS)
    corpus = os.path.join(common.VERIF, "corpus", "C15")
    if os.path.isdir(corpus):
        for f in sorted(os.listdir(corpus)):
            c = json.load(open(os.path.join(corpus, f)))
            progs = [[tuple(o) for o in p] for p in c["programs"]]
            sc, out = run_programs(S.replay_policy(c["schedule"]), c["init"], progs, bool(c.get("wrapped")))
            ctx.evaluations += 1
            if (out[1], out[2]) not in sequential_outcomes(c["init"], progs) or out[0] != "ok" or \
                    any(isinstance(r, str) and r.startswith("EXC:") for rs in out[1] for r in rs):
                kinds = sorted({op[0] for p in progs for op in p})
                what = "internal-error" if any(isinstance(r, str) and r.startswith("EXC:") for rs in out[1] for r in rs) else "not-linearizable"
                ctx.fail("ns-race:%s:%s" % (what, "".join(kinds)), "corpus witness %s reproduces: %r" % (f, out[1]), c)
    for _ in range(ctx.n(4, 40)):
        init = {n: i + 1 for i, n in enumerate(rng.sample(NAMES[:3], rng.choice([1, 2, 3])))}
        nthreads = rng.choice([2, 2, 3])
        progs = [[gen_op(rng) for _ in range(rng.choice([1, 1, 2]))] for _ in range(nthreads)]
        sets.append((init, progs))
    for k, (init, programs) in enumerate(sets):
        _explore_set(ctx, init, programs, bound, max_runs, rng, ctx.n(30, 400))
        if k % 4 == 0:
            # the same programs on a storage provider that is not a dict
            _explore_set(ctx, init, programs, bound, max(20, max_runs // 3), rng, ctx.n(10, 100), wrapped=True)


def correspondence(ctx):
    common.repo_on_path()
    _sequential(ctx, ctx.n(1500, 40000))


def oracle(ctx):
    common.repo_on_path()
    _all_or_nothing(ctx, ctx.n(120, 3000))
    _interleaved(ctx)


def replay(ctx, case):
    f = case.get("failing_input") or {}
    c = f.get("case") or {}
    if "backend" in c and "ops" in c:
        common.repo_on_path()
        import shutil
        import tempfile
        from Pyro5 import nameserver
        tmp = tempfile.mkdtemp(prefix="c15sql")
        try:
            ns = nameserver.NameServer(nameserver.SqlStorage(os.path.join(tmp, "ns.sql")) if c["backend"] == "sql" else nameserver.MemoryStorage())
            bad = 0
            for op in c["ops"]:
                before = dict(ns.storage.everything(return_metadata=True))
                failed = None
                try:
                    if op[0] == "R!":
                        ns.register(op[1], uri_of(op[2]), safe=op[3], metadata=op[4] and [tuple(t) if isinstance(t, list) else t for t in op[4]])
                    elif op[0] == "M!":
                        ns.set_metadata(op[1], [tuple(t) if isinstance(t, list) else t for t in op[2]])
                    else:
                        if real_do(ns, tuple(op)) == "nerr":
                            failed = "NamingError"
                except Exception as x:
                    failed = type(x).__name__
                after = dict(ns.storage.everything(return_metadata=True))
                print(op, "->", failed or "ok", "| map:", sorted(after))
                if failed and after != before:
                    bad = 1
            print("VIOLATION reproduced" if bad else "not reproduced")
            return bad
        finally:
            shutil.rmtree(tmp, ignore_errors=True)
    if "programs" not in c:
        print(json.dumps(case.get("no_longer_checks")))
        return 1
    common.repo_on_path()
    progs = [[tuple(o) for o in p] for p in c["programs"]]
    sc, out = run_programs(S.replay_policy(c["schedule"]), c["init"], progs, bool(c.get("wrapped")))
    allowed = sequential_outcomes(c["init"], progs)
    print("programs", progs, "init", c["init"], "schedule", c["schedule"])
    print("outcome", out)
    bad = out[0] != "ok" or (out[1], out[2]) not in allowed
    print("VIOLATION reproduced" if bad else "not reproduced (outcome is linearizable)")
    return 1 if bad else 0
